"""
Translator for C01:  /repo (live classes + source)  ->  lean/Ipv8/C01/Gen.lean

What is regenerated on every run (anything outside the documented subset raises TranslatorError, which the runner
treats like a broken proof):

  A. handler table   every Community subclass shipped outside ipv8.test is instantiated on a mock endpoint; for each
                     registered msg id the wrapper kind is recognised from the wrapper's *code object*
                     (co_filename = lazy_community.py, co_qualname = lazy_wrapper[_wd|_unsigned|_unsigned_wd].<locals>…)
                     and the payload classes / wrapped function are read from its closure.
  B. _verify_signature   AST -> `Gen.verifySignature` (key parse, signature length, three Python slices, verify call).
                     Slice bounds: integer literals, unary minus, +, -, len(auth.public_key_bin), signature_length.
  C. wrapper bodies  lazy_wrapper, lazy_wrapper_wd, lazy_wrapper_unsigned, _ez_unpack_auth: statement sequence -> op list
                     (`Gen.lazyWrapper …`), statement by statement, each statement must be one of the known forms.
                     lazy_wrapper_unsigned_wd: checked to delegate to lazy_wrapper_unsigned and add `data=data`.
  D. _ez_pack / ezr_pack   expression `prefix + bytes([msg_num]) + pack(payloads)` and `packet += sign(key, packet)`.
  E. Community.on_packet   prefix comparison, msg-id offset, try/except around the handler call.
  F. DiscoveryCommunity.on_old_introduction_request (raw handler): order of the _ez_unpack_auth attempts, the caught
                     exception classes, and that the Peer is built from auth.public_key_bin.
  F2. ECCrypto.is_valid_signature (try/verify/except -> False), ECCrypto.key_from_public_bin, Peer.__init__ (structural)
  G. VarLen strictness  probed on the live packer (does a truncated varlenH raise?).
  H. /verif/spec/auth_spec.json (frozen, reviewed) -> `Spec.authRequired`.
"""
from __future__ import annotations

import ast
import asyncio
import importlib
import json
import pkgutil
import re
import textwrap
from pathlib import Path

from vlib import REPO, VERIF, TranslatorError

LAZY = "ipv8/lazy_community.py"
SPEC = VERIF / "spec" / "auth_spec.json"

WRAPPER_KINDS = {
    "lazy_wrapper.<locals>.decorator.<locals>.wrapper": "signed",
    "lazy_wrapper_wd.<locals>.decorator.<locals>.wrapper": "signedWd",
    "lazy_wrapper_unsigned.<locals>.decorator.<locals>.wrapper": "unsigned",
    "lazy_wrapper_unsigned_wd.<locals>.decorator.<locals>.wrapper": "unsignedWd",
}


# ------------------------------------------------------------------------------------------------ A. handler table
def shipped_overlay_classes():
    import ipv8
    from ipv8.community import Community
    for m in pkgutil.walk_packages(ipv8.__path__, "ipv8."):
        if ".test" in m.name or m.name.startswith("ipv8.test"):
            continue
        try:
            importlib.import_module(m.name)
        except ImportError as e:
            # only a missing THIRD-PARTY dependency of an unrelated module (REST API, scripts) may be skipped; an import
            # error inside the ipv8 package itself would silently drop an overlay from the table
            missing = getattr(e, "name", "") or ""
            if missing.startswith("ipv8") or not missing:
                raise TranslatorError(f"cannot import shipped module {m.name}: {e}") from e
            continue
        except Exception as e:
            raise TranslatorError(f"cannot import shipped module {m.name}: {type(e).__name__}: {e}") from e

    def subs(c):
        out = set()
        for s in c.__subclasses__():
            out.add(s)
            out |= subs(s)
        return out
    return sorted((c for c in subs(Community) if ".test" not in c.__module__ and c.__module__.startswith("ipv8.")),
                  key=lambda c: (c.__module__, c.__name__))


def make_node(cls, curve="curve25519"):
    """One MockIPv8 node running `cls` (must be called inside a running loop)."""
    from ipv8.test.mocking.endpoint import AutoMockEndpoint
    from ipv8.test.mocking.ipv8 import MockIPv8
    AutoMockEndpoint.SEND_INET_EXCEPTION_TO_LOOP = False
    name = cls.__name__
    if name == "IdentityCommunity":
        from ipv8.attestation.identity.community import IdentitySettings
        from ipv8.attestation.identity.manager import IdentityManager
        return MockIPv8(curve, cls, settings=IdentitySettings(identity_manager=IdentityManager(":memory:")))
    if name == "AttestationCommunity":
        from ipv8.attestation.wallet.community import AttestationSettings
        return MockIPv8(curve, cls, settings=AttestationSettings(working_directory=":memory:"))
    if name == "PexCommunity":
        from ipv8.messaging.anonymization.pex import PexSettings
        return MockIPv8(curve, cls, settings=PexSettings(info_hash=b"\x07" * 20))
    from ipv8.messaging.anonymization.community import TunnelCommunity
    if issubclass(cls, TunnelCommunity):
        s = cls.settings_class()
        s.min_circuits = 0
        s.max_circuits = 0
        s.remove_tunnel_delay = 0
        node = MockIPv8(curve, cls, settings=s)
        node.overlay.cancel_all_pending_tasks()
        return node
    return MockIPv8(curve, cls)


def classify(handler) -> dict:
    f = getattr(handler, "__func__", handler)
    # outer pass-through decorators (e.g. wallet's @synchronized, functools.wraps'ed) are followed through __wrapped__
    # until a lazy_community wrapper is met; they are recorded in "via" and assumed to forward their arguments unchanged
    via = []
    g = f
    while not g.__code__.co_filename.replace("\\", "/").endswith("/lazy_community.py") and hasattr(g, "__wrapped__"):
        via.append(getattr(g.__code__, "co_qualname", g.__qualname__))
        g = g.__wrapped__
    if g.__code__.co_filename.replace("\\", "/").endswith("/lazy_community.py"):
        f = g
    code = f.__code__
    fname = code.co_filename.replace("\\", "/")
    qual = getattr(code, "co_qualname", f.__qualname__)
    if fname.endswith("/lazy_community.py"):
        kind = WRAPPER_KINDS.get(qual)
        if kind is None:
            raise TranslatorError(f"unknown wrapper code object {qual} in lazy_community.py")
        clo = dict(zip(code.co_freevars, [c.cell_contents for c in (f.__closure__ or ())]))
        if "payloads" not in clo or "func" not in clo:
            raise TranslatorError(f"wrapper {qual} has no payloads/func closure cells: {sorted(clo)}")
        inner = clo["func"]
        return {"kind": kind, "name": f.__qualname__, "payloads": [p.__name__ for p in clo["payloads"]],
                "payload_classes": list(clo["payloads"]), "func": inner, "via": via}
    if f.__name__ == "on_deprecated_message":
        return {"kind": "deprecated", "name": f.__qualname__, "payloads": [], "payload_classes": [], "func": f}
    if f.__name__ == "on_cell":
        return {"kind": "cell", "name": f.__qualname__, "payloads": [], "payload_classes": [], "func": f}
    if "unpack_cell" in qual:
        return {"kind": "cellDirect", "name": f.__qualname__, "payloads": [], "payload_classes": [], "func": f}
    return {"kind": "raw", "name": f.__qualname__, "payloads": [], "payload_classes": [], "func": f}


async def _collect_async():
    out = []
    for cls in shipped_overlay_classes():
        try:
            node = make_node(cls)
        except Exception as e:
            raise TranslatorError(f"cannot instantiate shipped overlay {cls.__name__}: {type(e).__name__}: {e}") from e
        o = node.overlay
        handlers = []
        for i, h in enumerate(o.decode_map):
            if h is None:
                continue
            d = classify(h)
            d["msg_id"] = i
            handlers.append(d)
        from ipv8.community import Community as _C
        from ipv8.lazy_community import EZPackOverlay as _E
        overrides = [nm for nm, base in (("_verify_signature", _E), ("_ez_unpack_auth", _E), ("_ez_pack", _E),
                                         ("ezr_pack", _E), ("_ez_unpack_noauth", _E), ("on_packet", _C),
                                         ("add_message_handler", _C))
                     if getattr(cls, nm, None) is not getattr(base, nm)]
        overrides += [nm for nm in ("_verify_signature", "on_packet", "_ez_unpack_auth") if nm in vars(o)]   # per instance
        out.append({"overlay": cls.__name__, "module": cls.__module__, "prefix": bytes(o.get_prefix()),
                    "handlers": handlers, "cls": cls, "overrides": overrides})
        await node.stop()
    return out


def collect_tables():
    try:
        asyncio.get_running_loop()
    except RuntimeError:
        return asyncio.run(_collect_async())
    raise TranslatorError("collect_tables must not be called from a running loop")


# ------------------------------------------------------------------------------------------------ AST helpers
def _norm(node) -> str:
    return ast.unparse(node).replace("'", '"')


def _func(tree, name, cls=None):
    body = tree.body
    if cls is not None:
        c = next((n for n in tree.body if isinstance(n, ast.ClassDef) and n.name == cls), None)
        if c is None:
            raise TranslatorError(f"class {cls} not found")
        body = c.body
    f = next((n for n in body if isinstance(n, (ast.FunctionDef, ast.AsyncFunctionDef)) and n.name == name), None)
    if f is None:
        raise TranslatorError(f"function {cls + '.' if cls else ''}{name} not found")
    return f


def _stmts(fn):
    body = list(fn.body)
    if body and isinstance(body[0], ast.Expr) and isinstance(body[0].value, ast.Constant) \
            and isinstance(body[0].value.value, str):
        body = body[1:]
    return body


def _int_expr(e, env) -> str:
    """Slice bound -> Lean Int term."""
    if isinstance(e, ast.Constant) and isinstance(e.value, int) and not isinstance(e.value, bool):
        return f"({e.value} : Int)"
    if isinstance(e, ast.UnaryOp) and isinstance(e.op, ast.USub):
        return f"(-{_int_expr(e.operand, env)})"
    if isinstance(e, ast.BinOp) and isinstance(e.op, (ast.Add, ast.Sub)):
        return f"({_int_expr(e.left, env)} {'+' if isinstance(e.op, ast.Add) else '-'} {_int_expr(e.right, env)})"
    if isinstance(e, ast.Name) and e.id in env:
        return env[e.id]
    if isinstance(e, ast.Call) and isinstance(e.func, ast.Name) and e.func.id == "len" and len(e.args) == 1 \
            and (_norm(e.args[0]) == "auth.public_key_bin"
                 or (isinstance(e.args[0], ast.Name) and e.args[0].id in env.get("__key_aliases__", ()))):
        return "(keyBin.length : Int)"
    raise TranslatorError(f"unsupported slice bound: {_norm(e)}")


def _slice_expr(e, env) -> str:
    """data[a:b] -> Lean pySlice term."""
    if not (isinstance(e, ast.Subscript) and isinstance(e.value, ast.Name) and e.value.id == "data"
            and isinstance(e.slice, ast.Slice) and e.slice.step is None):
        raise TranslatorError(f"expected a slice of data, got: {_norm(e)}")
    lo = "none" if e.slice.lower is None else f"(some {_int_expr(e.slice.lower, env)})"
    hi = "none" if e.slice.upper is None else f"(some {_int_expr(e.slice.upper, env)})"
    return f"(pySlice data {lo} {hi})"


def module_int_constants(tree) -> dict:
    """module-level `NAME = <int literal>` bound exactly once in the whole module (no other assignment, augmented
    assignment, `global`, loop target … of that name anywhere): a named constant may be read as its literal value"""
    cand = {}
    for st in tree.body:
        if isinstance(st, ast.Assign) and len(st.targets) == 1 and isinstance(st.targets[0], ast.Name) \
                and isinstance(st.value, ast.Constant) and type(st.value.value) is int:
            cand[st.targets[0].id] = st.value.value
        elif isinstance(st, ast.AnnAssign) and isinstance(st.target, ast.Name) and st.value is not None \
                and isinstance(st.value, ast.Constant) and type(st.value.value) is int:
            cand[st.target.id] = st.value.value
    stores: dict[str, int] = {}
    for n in ast.walk(tree):
        if isinstance(n, ast.Name) and isinstance(n.ctx, (ast.Store, ast.Del)):
            stores[n.id] = stores.get(n.id, 0) + 1
        elif isinstance(n, (ast.Global, ast.Nonlocal)):
            for nm in n.names:
                stores[nm] = stores.get(nm, 0) + 2
        elif isinstance(n, ast.arg):
            stores[n.arg] = stores.get(n.arg, 0) + 2          # shadowed by a parameter somewhere: do not touch
    return {k: v for k, v in cand.items() if stores.get(k, 0) == 1}


class _Subst(ast.NodeTransformer):
    """replace loaded names by expressions (named constants -> literals, helper parameters -> call arguments)"""

    def __init__(self, mapping: dict):
        self.mapping = mapping

    def visit_Name(self, node):  # noqa: N802
        if isinstance(node.ctx, ast.Load) and node.id in self.mapping:
            rep_ = self.mapping[node.id]
            return ast.copy_location(ast.Constant(rep_) if isinstance(rep_, int) else ast.parse(rep_, mode="eval").body, node)
        return node


def resolve_constants(tree):
    consts = module_int_constants(tree)
    if consts:
        tree = _Subst(consts).visit(tree)
        ast.fix_missing_locations(tree)
    return tree


def inline_helpers(stmts: list, tree, where: str) -> list:
    """`a, b = helper(x, y, z)` where `helper` is a module-level function of the same file whose body is straight-line
    (assignments, `if …: raise`, expression statements) and ends in `return a, b`: replaced by the helper's statements with
    the parameters substituted by the arguments and the returned names renamed to the targets.  The inlined statements are
    then translated like any others, so what the helper does is decided by the same guard."""
    helpers = {n.name: n for n in tree.body if isinstance(n, ast.FunctionDef)}
    out = []
    for st in stmts:
        call = st.value if isinstance(st, ast.Assign) and len(st.targets) == 1 and isinstance(st.value, ast.Call) else None
        if call is None or not isinstance(call.func, ast.Name) or call.func.id not in helpers or call.keywords:
            out.append(st)
            continue
        fn = helpers[call.func.id]
        params = [a.arg for a in fn.args.args]
        if fn.args.vararg or fn.args.kwarg or fn.args.kwonlyargs or len(params) != len(call.args) or fn.decorator_list:
            raise TranslatorError(f"{where}: cannot inline helper {fn.name}: signature / call shape")
        body = _stmts(fn)
        if not body or not isinstance(body[-1], ast.Return) or body[-1].value is None:
            raise TranslatorError(f"{where}: cannot inline helper {fn.name}: no final return")
        for b in body[:-1]:
            if any(isinstance(x, (ast.Return, ast.FunctionDef, ast.AsyncFunctionDef, ast.Lambda, ast.While, ast.For, ast.Try,
                                  ast.With, ast.Yield, ast.Await)) for x in ast.walk(b)):
                raise TranslatorError(f"{where}: cannot inline helper {fn.name}: body is not straight-line")
        ret = body[-1].value
        ret_names = [e.id for e in ret.elts] if isinstance(ret, ast.Tuple) and all(isinstance(e, ast.Name) for e in ret.elts) \
            else [ret.id] if isinstance(ret, ast.Name) else None
        tgt = st.targets[0]
        tgt_names = [e.id for e in tgt.elts] if isinstance(tgt, ast.Tuple) and all(isinstance(e, ast.Name) for e in tgt.elts) \
            else [tgt.id] if isinstance(tgt, ast.Name) else None
        if ret_names is None or tgt_names is None or len(ret_names) != len(tgt_names):
            raise TranslatorError(f"{where}: cannot inline helper {fn.name}: returned value is not a tuple of locals")
        mapping = {p_: _norm(a_) for p_, a_ in zip(params, call.args)}
        import copy
        for b in body[:-1]:
            nb = _Subst(mapping).visit(copy.deepcopy(b))
            if ret_names != tgt_names:
                ren = dict(zip(ret_names, tgt_names))
                for x in ast.walk(nb):
                    if isinstance(x, ast.Name) and x.id in ren:
                        x.id = ren[x.id]
            ast.fix_missing_locations(nb)
            out.append(nb)
    return out


def _assigned_names(fn) -> dict:
    """how often each plain name is (re)bound anywhere in the function (assignments, tuple targets, aug-assign, for, with)"""
    cnt: dict[str, int] = {}

    def tgt(t):
        if isinstance(t, ast.Name):
            cnt[t.id] = cnt.get(t.id, 0) + 1
        elif isinstance(t, (ast.Tuple, ast.List)):
            for e in t.elts:
                tgt(e)
        elif isinstance(t, ast.Starred):
            tgt(t.value)
    for n in ast.walk(fn):
        if isinstance(n, ast.Assign):
            for t in n.targets:
                tgt(t)
        elif isinstance(n, (ast.AugAssign, ast.AnnAssign)):
            tgt(n.target)
        elif isinstance(n, (ast.For, ast.AsyncFor)):
            tgt(n.target)
        elif isinstance(n, ast.NamedExpr):
            tgt(n.target)
        elif isinstance(n, (ast.With, ast.AsyncWith)):
            for it in n.items:
                if it.optional_vars is not None:
                    tgt(it.optional_vars)
    return cnt


# ------------------------------------------------------------------------------------------------ B. _verify_signature
def _record_of_call(val, tree):
    """`helper(a1, …)` with `helper` a module-level function whose body is a single `return Cls(f1=e1, …)` / `return (e1, …)`:
    -> {field or index: expression with the parameters replaced by the arguments}; None if `val` is not such a call"""
    if not (isinstance(val, ast.Call) and isinstance(val.func, ast.Name) and not val.keywords):
        return None
    fn = next((n for n in tree.body if isinstance(n, ast.FunctionDef) and n.name == val.func.id), None)
    if fn is None or fn.decorator_list or fn.args.vararg or fn.args.kwarg or len(fn.args.args) != len(val.args):
        return None
    body = _stmts(fn)
    if len(body) != 1 or not isinstance(body[0], ast.Return) or body[0].value is None:
        return None
    ret = body[0].value
    mapping = {a.arg: _norm(v) for a, v in zip(fn.args.args, val.args)}
    import copy
    if isinstance(ret, ast.Call) and isinstance(ret.func, ast.Name) and not ret.args and ret.keywords:
        cls = next((n for n in tree.body if isinstance(n, ast.ClassDef) and n.name == ret.func.id), None)
        if cls is None or not any(_norm(b) == "NamedTuple" for b in cls.bases) \
                or any(isinstance(n, (ast.FunctionDef, ast.AsyncFunctionDef)) for n in cls.body):
            return None            # only a plain NamedTuple without methods: field access returns what was stored
        return {k.arg: _Subst(mapping).visit(copy.deepcopy(k.value)) for k in ret.keywords}
    if isinstance(ret, ast.Tuple):
        return {i: _Subst(mapping).visit(copy.deepcopy(e)) for i, e in enumerate(ret.elts)}
    return None


def translate_verify_signature(tree) -> str:
    fn = _func(tree, "_verify_signature", "EZPackOverlay")
    args = [a.arg for a in fn.args.args]
    if args != ["self", "auth", "data"]:
        raise TranslatorError(f"_verify_signature parameters changed: {args}")
    ec_names = {"default_eccrypto"}
    key_aliases: set = set()          # locals that hold auth.public_key_bin (bound once, see below)
    int_env: dict = {"__key_aliases__": key_aliases}
    rebound = _assigned_names(fn)

    def is_key_bin(a) -> bool:
        return _norm(a) == "auth.public_key_bin" or (isinstance(a, ast.Name) and a.id in key_aliases)
    bytes_env: dict[str, str] = {}
    lets = []
    have_key = None
    ret = None
    for st in _stmts(fn):
        if isinstance(st, ast.Assign) and len(st.targets) == 1 and isinstance(st.targets[0], ast.Name):
            tgt, val = st.targets[0].id, st.value
            if isinstance(val, ast.Name) and val.id in ec_names:
                ec_names.add(tgt)
                continue
            if _norm(val) == "auth.public_key_bin" and rebound.get(tgt, 0) == 1:
                key_aliases.add(tgt)           # `sender_key_bin = auth.public_key_bin`: a hoisted sub-expression
                continue
            if isinstance(val, ast.Call) and isinstance(val.func, ast.Attribute) and isinstance(val.func.value, ast.Name) \
                    and val.func.value.id in ec_names:
                m = val.func.attr
                if m == "key_from_public_bin" and len(val.args) == 1 and is_key_bin(val.args[0]):
                    have_key = tgt
                    continue
                if m == "get_signature_length" and have_key and [_norm(a) for a in val.args] == [have_key]:
                    int_env[tgt] = "n"
                    continue
                raise TranslatorError(f"unsupported crypto call in _verify_signature: {_norm(val)}")
            if isinstance(val, ast.Subscript):
                lets.append(f"    let {tgt}_ := {_slice_expr(val, int_env)}")
                bytes_env[tgt] = f"{tgt}_"
                continue
            rec = _record_of_call(val, tree)
            if rec is not None and rebound.get(tgt, 0) == 1:
                # `parts = helper(data, len(key), n)` where the module-level helper only returns a record / tuple of
                # slices of its arguments: every field is read as the slice expression with the arguments substituted
                for fld, e in rec.items():
                    lets.append(f"    let {tgt}_{fld}_ := {_slice_expr(e, int_env)}")
                    bytes_env[f"{tgt}.{fld}"] = f"{tgt}_{fld}_"
                continue
            raise TranslatorError(f"unsupported assignment in _verify_signature: {_norm(st)}")
        if isinstance(st, ast.Return):
            ret = st.value
            continue
        raise TranslatorError(f"unsupported statement in _verify_signature: {_norm(st)[:80]}")
    if have_key is None or "n" not in [v for k, v in int_env.items() if k != "__key_aliases__"] or ret is None:
        raise TranslatorError("_verify_signature: key parse, signature length or return missing")
    if not (isinstance(ret, ast.Tuple) and len(ret.elts) == 2):
        raise TranslatorError("_verify_signature must return (valid, remainder)")
    call, rem = ret.elts

    def bytes_term(e):
        if isinstance(e, ast.Name) and e.id in bytes_env:
            return bytes_env[e.id]
        if isinstance(e, ast.Attribute) and _norm(e) in bytes_env:
            return bytes_env[_norm(e)]
        if isinstance(e, ast.Subscript) and isinstance(e.slice, ast.Constant) and f"{_norm(e.value)}.{e.slice.value}" in bytes_env:
            return bytes_env[f"{_norm(e.value)}.{e.slice.value}"]
        if isinstance(e, ast.Name) and e.id == "data":
            return "data"
        return _slice_expr(e, int_env)
    if not (isinstance(call, ast.Call) and isinstance(call.func, ast.Attribute) and call.func.attr == "is_valid_signature"
            and isinstance(call.func.value, ast.Name) and call.func.value.id in ec_names and len(call.args) == 3
            and _norm(call.args[0]) == have_key):
        raise TranslatorError(f"_verify_signature: validity is not is_valid_signature(public_key, …): {_norm(call)}")
    msg, sig = bytes_term(call.args[1]), bytes_term(call.args[2])
    out = ["/-- generated from EZPackOverlay._verify_signature -/",
           "def verifySignature (S : Scheme) (keyBin data : Bytes) : Option (Bool × Bytes) :=",
           "  match S.parse keyBin with",
           "  | none => none",
           "  | some pk =>",
           "    let n : Int := (S.sigLen pk : Int)"] + lets + [
           f"    some (S.verify pk {msg} {sig}, {bytes_term(rem)})", "",
           "/-- the (message, signature) pair handed to the signature check, for the correspondence driver -/",
           "def verifyQuery (nNat : Nat) (keyBin data : Bytes) : Bytes × Bytes × Bytes :=",
           "    let n : Int := (nNat : Int)"] + lets + [
           f"    ({msg}, {sig}, {bytes_term(rem)})"]
    return "\n".join(out)


# ------------------------------------------------------------------------------------------------ C. wrapper bodies
UNPACK_AUTH = 'auth, _ = self.serializer.unpack_serializable(BinMemberAuthenticationPayload, data, offset=23)'
VERIFY = "signature_valid, remainder = self._verify_signature(auth, data)"
LOOKUP = "peer = self.network.verified_by_public_key_bin.get(auth.public_key_bin)"


def _ops_of(stmts, payload_var: str, where: str) -> list[str]:
    ops = []
    new_peer = "peer = Peer(auth.public_key_bin, source_address)"
    peer_defaulted = False       # `peer` was replaced by Peer(auth.public_key_bin, …) when the lookup missed
    for st in stmts:
        if isinstance(st, ast.AnnAssign) and st.value is not None and isinstance(st.target, ast.Name) \
                and st.target.id in ("peer", "unpacked", "output"):
            # a type annotation on a known local changes nothing: treat `x: T = e` as `x = e`
            st = ast.copy_location(ast.Assign(targets=[st.target], value=st.value), st)
            ast.fix_missing_locations(st)
        s = re.sub(r", (data|remainder), (\d+)\)$", r", \1, offset=\2)", _norm(st))
        m_auth = re.fullmatch(re.escape(UNPACK_AUTH).replace("offset=23", r"offset=(\d+)"), s)
        m_dec = re.fullmatch(re.escape(f"unpacked = self.serializer.unpack_serializable_list({payload_var}, ")
                             + r"(remainder|data), offset=(\d+)\)", s)
        if m_auth:
            ops.append(f".unpackAuth {int(m_auth.group(1))}")      # the offset is read from the source; the guard wants 23
        elif s == VERIFY:
            ops.append(".verify")
        elif m_dec:
            ops.append(f".decode .{m_dec.group(1)} {int(m_dec.group(2))}")
        elif isinstance(st, ast.Assign) and _norm(st.targets[0]) == "fmt" and payload_var == "fmt":
            if _norm(st.value) != "[GlobalTimeDistributionPayload, payload_class]":
                raise TranslatorError(f"{where}: unexpected format list {_norm(st.value)}")
        elif isinstance(st, ast.AnnAssign) and _norm(st.target) == "fmt" and payload_var == "fmt":
            if st.value is None or _norm(st.value) != "[GlobalTimeDistributionPayload, payload_class]":
                raise TranslatorError(f"{where}: unexpected format list")
        elif isinstance(st, ast.If) and _norm(st.test) == "not signature_valid" and not st.orelse \
                and isinstance(st.body[-1], ast.Raise) and "PacketDecodingError" in _norm(st.body[-1]) \
                and all(isinstance(b, (ast.Assign, ast.Expr, ast.Raise)) for b in st.body) \
                and not any(isinstance(b, ast.Raise) for b in st.body[:-1]):
            ops.append(".assertValid")
        elif isinstance(st, ast.If) and isinstance(st.test, ast.BoolOp) and isinstance(st.test.op, ast.And) \
                and _norm(st.test.values[0]) == "not signature_valid" and not st.orelse \
                and isinstance(st.body[-1], ast.Raise) and "PacketDecodingError" in _norm(st.body[-1]):
            # `if not signature_valid and <other condition>: raise`: the check is skipped when the other condition is false
            ops.append(".assertWeakened")
        elif isinstance(st, ast.Assert) and _norm(st.test) == "signature_valid":
            # an assert statement is not executed under python -O / PYTHONOPTIMIZE: translated (the guard rejects it)
            ops.append(".assertDebug")
        elif s == LOOKUP:
            ops.append(".lookupPeer")
        elif isinstance(st, ast.Assign) and _norm(st.targets[0]) == "peer" and isinstance(st.value, ast.BoolOp) \
                and isinstance(st.value.op, ast.Or):
            # `peer = <lookup by key> or <lookup by source address> …`: translated alternative by alternative, so that
            # the guard theorem (not the translator) is what rejects a peer that does not come from the carried key
            alts = [_norm(v) for v in st.value.values]
            if alts[0] != LOOKUP.split(" = ", 1)[1]:
                raise TranslatorError(f"{where}: peer lookup does not start with the key lookup: {s[:120]}")
            ops.append(".lookupPeer")
            for alt in alts[1:]:
                if alt == "self.network.get_verified_by_address(source_address)":
                    ops.append(".orLookupByAddr")
                elif alt == LOOKUP.split(" = ", 1)[1]:
                    pass
                else:
                    raise TranslatorError(f"{where}: unsupported alternative in the peer lookup: {alt[:100]}")
        elif isinstance(st, ast.If) and _norm(st.test) == "peer" and not st.orelse and len(st.body) == 1 \
                and _norm(st.body[0]) == "peer.add_address(source_address)":
            ops.append(".touchPeer")    # mutates the STORED verified Peer: must not happen before the signature check
        elif isinstance(st, ast.If) and _norm(st.test) == "peer" and len(st.body) == 1 \
                and _norm(st.body[0]) == "peer.add_address(source_address)" \
                and len(st.orelse) == 1 and _norm(st.orelse[0]) == new_peer:
            ops.append(".touchPeer")    # `if peer: add_address else: peer = Peer(carried key)` = `peer or Peer(...)` later
            peer_defaulted = True
        elif isinstance(st, ast.If) and _norm(st.test) in ("peer is None", "not peer") and not st.orelse \
                and len(st.body) == 1 and _norm(st.body[0]) == new_peer:
            peer_defaulted = True
        elif peer_defaulted and s in ("return func(self, peer, *unpacked)", "return func(self, peer, *output)"):
            ops.append(".callPeer")
        elif isinstance(st, ast.Expr) and isinstance(st.value, ast.Call) and _norm(st.value.func).startswith("self.logger."):
            pass  # logging only
        elif s == "output = [*unpacked, data]":
            ops.append(".appendData")
        elif s == "return func(self, peer or Peer(auth.public_key_bin, source_address), *unpacked)":
            ops.append(".callPeer")
        elif s == "return func(self, peer or Peer(auth.public_key_bin, source_address), *output)":
            ops.append(".callPeer")
        elif s == "return func(self, source_address, *unpacked)":
            ops.append(".callAddr")
        elif s == 'return (auth, cast("GlobalTimeDistributionPayload", unpacked[0]), cast("UT", unpacked[1]))':
            ops.append(".returnAuth")
        else:
            raise TranslatorError(f"{where}: statement outside the translated subset: {s[:120]}")
    return ops


def _wrapper_body(tree, deco_name: str):
    fn = _func(tree, deco_name)
    deco = next((n for n in fn.body if isinstance(n, ast.FunctionDef) and n.name == "decorator"), None)
    if deco is None:
        raise TranslatorError(f"{deco_name}: no inner decorator")
    wr = next((n for n in deco.body if isinstance(n, ast.FunctionDef) and n.name == "wrapper"), None)
    if wr is None:
        raise TranslatorError(f"{deco_name}: no inner wrapper")
    if [a.arg for a in wr.args.args] != ["self", "source_address", "data"]:
        raise TranslatorError(f"{deco_name}: wrapper parameters changed")
    if not (fn.args.vararg and fn.args.vararg.arg == "payloads"):
        raise TranslatorError(f"{deco_name}: *payloads parameter changed")
    return wr


def translate_wrappers(tree) -> str:
    out = []
    for deco, lean in (("lazy_wrapper", "lazyWrapper"), ("lazy_wrapper_wd", "lazyWrapperWd"),
                       ("lazy_wrapper_unsigned", "lazyWrapperUnsigned")):
        wr = _wrapper_body(tree, deco)
        ops = _ops_of(inline_helpers(_stmts(wr), tree, deco), "payloads", deco)
        out.append(f"/-- generated from the body of {deco}(...).decorator.wrapper -/")
        out.append(f"def {lean} : List Op := [{', '.join(ops)}]")
    # lazy_wrapper_unsigned_wd delegates to lazy_wrapper_unsigned and passes data=data
    wr = _wrapper_body(tree, "lazy_wrapper_unsigned_wd")
    st = _stmts(wr)
    ok = (len(st) == 2 and isinstance(st[0], ast.FunctionDef)
          and [_norm(d) for d in st[0].decorator_list] == ["lazy_wrapper_unsigned(*payloads)"]
          and _norm(_stmts(st[0])[-1]) == "return func(inner_self, inner_source_address, *pyls, data=data)"
          and _norm(st[1]) == "return inner_wrapper(self, source_address, data)")
    if not ok:
        raise TranslatorError("lazy_wrapper_unsigned_wd no longer delegates to lazy_wrapper_unsigned with data=data")
    out.append("/-- lazy_wrapper_unsigned_wd = lazy_wrapper_unsigned + the raw datagram (checked structurally) -/")
    out.append("def lazyWrapperUnsignedWd : List Op := lazyWrapperUnsigned.map "
               "(fun o => match o with | .callAddr => .callAddrData | o => o)")
    fn = _func(tree, "_ez_unpack_auth", "EZPackOverlay")
    ops = _ops_of(inline_helpers(_stmts(fn), tree, "_ez_unpack_auth"), "fmt", "_ez_unpack_auth")
    out.append("/-- generated from EZPackOverlay._ez_unpack_auth -/")
    out.append(f"def ezUnpackAuth : List Op := [{', '.join(ops)}]")
    return "\n".join(out)


# ------------------------------------------------------------------------------------------------ D. packing
def _returned_value(fn, sig_value: bool, where: str) -> str:
    """What a straight-line function whose only branching is on its boolean parameter `sig` returns when `sig` has the given
    value: assignments / augmented `+=` to locals are substituted symbolically, `if sig` / `if not sig` / `x if sig else y`
    are decided, an early `return` ends the evaluation.  The result is the returned expression over the parameters."""
    import copy
    env: dict = {}

    def subst(e):
        e = copy.deepcopy(e)

        class T(ast.NodeTransformer):
            def visit_IfExp(self, n):  # noqa: N802
                t = _norm(n.test)
                if t in ("sig", "not sig"):
                    return self.visit(n.body if (t == "sig") == sig_value else n.orelse)
                return self.generic_visit(n)

            def visit_Name(self, n):  # noqa: N802
                if isinstance(n.ctx, ast.Load) and n.id in env:
                    return copy.deepcopy(env[n.id])
                return n
        return ast.fix_missing_locations(T().visit(e))

    def run(stmts):
        for st in stmts:
            if isinstance(st, ast.Assign) and len(st.targets) == 1 and isinstance(st.targets[0], ast.Name):
                env[st.targets[0].id] = subst(st.value)
            elif isinstance(st, ast.AnnAssign) and isinstance(st.target, ast.Name) and st.value is not None:
                env[st.target.id] = subst(st.value)
            elif isinstance(st, ast.AugAssign) and isinstance(st.target, ast.Name) and isinstance(st.op, ast.Add):
                cur = env.get(st.target.id, ast.Name(st.target.id, ast.Load()))
                env[st.target.id] = ast.BinOp(copy.deepcopy(cur), ast.Add(), subst(st.value))
            elif isinstance(st, ast.If) and _norm(st.test) in ("sig", "not sig"):
                r_ = run(st.body if (_norm(st.test) == "sig") == sig_value else st.orelse)
                if r_ is not None:
                    return r_
            elif isinstance(st, ast.Return) and st.value is not None:
                return _norm(ast.fix_missing_locations(subst(st.value)))
            else:
                raise TranslatorError(f"{where}: statement outside the translated subset: {_norm(st)[:100]}")
        return None
    out = run(_stmts(fn))
    if out is None:
        raise TranslatorError(f"{where}: no return value for sig={sig_value}")
    return out


def translate_pack(tree) -> str:
    # what the two functions RETURN for sig = True / False must be these expressions over their parameters (however the body
    # gets there: rebinding, `+=`, early return, conditional expression, renamed locals)
    fn = _func(tree, "_ez_pack", "EZPackOverlay")
    if [a.arg for a in fn.args.args] != ["self", "prefix", "msg_num", "payloads", "sig"]:
        raise TranslatorError("_ez_pack parameters changed")
    unsigned = "prefix + bytes([msg_num]) + self.serializer.pack_serializable_list(payloads)"
    want_t = f'{unsigned} + default_eccrypto.create_signature(cast("PrivateKey", self.my_peer.key), {unsigned})'
    got_t, got_f = _returned_value(fn, True, "_ez_pack"), _returned_value(fn, False, "_ez_pack")
    if got_t != want_t or got_f != unsigned:
        raise TranslatorError(f"_ez_pack body outside the translated subset: returns {got_t[:160]} / {got_f[:120]}")
    fn2 = _func(tree, "ezr_pack", "EZPackOverlay")
    if [a.arg for a in fn2.args.args] != ["self", "msg_num"] or not fn2.args.vararg or fn2.args.vararg.arg != "payloads":
        raise TranslatorError("ezr_pack parameters changed")
    want2_t = ("self._ez_pack(self.get_prefix(), msg_num, "
               "(BinMemberAuthenticationPayload(self.my_peer.public_key.key_to_bin()), *payloads), sig)")
    want2_f = "self._ez_pack(self.get_prefix(), msg_num, payloads, sig)"
    g_t, g_f = _returned_value(fn2, True, "ezr_pack"), _returned_value(fn2, False, "ezr_pack")
    if g_t != want2_t or g_f != want2_f:
        raise TranslatorError(f"ezr_pack body outside the translated subset: returns {g_t[:160]} / {g_f[:120]}")
    return textwrap.dedent("""\
        /-- generated from EZPackOverlay._ez_pack: `packet = prefix + bytes([msg_num]) + pack(payloads)`,
            `if sig: packet += create_signature(my key, packet)` -/
        def ezPack (S : Signer) (sk : S.SK) (pfx : Bytes) (msgNum : UInt8) (body : Bytes) (sig : Bool) : Bytes :=
          let packet := pfx ++ [msgNum] ++ body
          if sig then packet ++ S.sign sk packet else packet

        /-- generated from EZPackOverlay.ezr_pack: the BinMemberAuthenticationPayload (varlenH of my public key) is put
            in front of the payloads when `sig` -/
        def ezrPack (S : Signer) (sk : S.SK) (pfx : Bytes) (msgNum : UInt8) (payloadBytes : Bytes) (sig : Bool) : Bytes :=
          ezPack S sk pfx msgNum (if sig then packVarlenH (S.pub sk) ++ payloadBytes else payloadBytes) sig""")


# ------------------------------------------------------------------------------------------------ E. on_packet
def translate_on_packet() -> str:
    tree = resolve_constants(ast.parse((REPO / "ipv8/community.py").read_text()))
    fn = _func(tree, "on_packet", "Community")
    src = [_norm(s) for s in _stmts(fn)]

    def is_prefix_guard(n) -> bool:
        # a top-level `if <c1> or <c2> …: return` with no else, one disjunct being the prefix comparison; it must be a
        # statement of its own (not an elif/else branch of some other condition), so that it runs for every datagram
        if not (isinstance(n, ast.If) and not n.orelse and len(n.body) == 1 and isinstance(n.body[0], ast.Return)
                and n.body[0].value is None):
            return False
        disj = n.test.values if isinstance(n.test, ast.BoolOp) and isinstance(n.test.op, ast.Or) else [n.test]
        for d in disj:
            txt = _norm(d)
            for alias, bound in aliases.items():          # `prefix = data[:22]` earlier: read through the local name
                txt = re.sub(rf"\b{re.escape(alias)}\b", f"data[:{bound}]", txt)
            m = re.fullmatch(r"self\._prefix != data\[:(\d+)\]|data\[:(\d+)\] != self\._prefix", txt)
            if m:
                found["prefix_len"] = int(m.group(1) or m.group(2))
                return True
        return False
    found: dict[str, int] = {}
    aliases: dict[str, int] = {}
    all_names = _assigned_names(fn)
    for st in _stmts(fn):
        m = re.fullmatch(r"(\w+) = data\[:(\d+)\]", _norm(st))
        if m and all_names.get(m.group(1), 0) == 1:      # bound exactly once in the whole function
            aliases[m.group(1)] = int(m.group(2))
    guards = [i for i, n in enumerate(_stmts(fn)) if is_prefix_guard(n)]
    if not guards:
        raise TranslatorError("Community.on_packet: unconditional prefix guard `if self._prefix != data[:22] …: return` "
                              "not found among the top-level statements")
    msg_stmt = next((x for x in src if re.fullmatch(r"msg_id = data\[(\d+)\]", x)), None)
    if msg_stmt is None:
        raise TranslatorError("Community.on_packet: `msg_id = data[<n>]` not found")
    found["msg_off"] = int(re.fullmatch(r"msg_id = data\[(\d+)\]", msg_stmt).group(1))
    if "handler = self.decode_map[msg_id]" not in src:
        raise TranslatorError("Community.on_packet: handler lookup changed")
    i_guard, i_msg = guards[0], src.index(msg_stmt)
    if not i_guard < i_msg:
        raise TranslatorError("Community.on_packet: prefix guard no longer precedes dispatch")
    for n in _stmts(fn)[:i_guard]:
        if any(isinstance(x, (ast.Return, ast.Raise)) for x in ast.walk(n)):
            raise TranslatorError("Community.on_packet: a return/raise precedes the prefix guard")
    disp = next((n for n in _stmts(fn) if isinstance(n, ast.If) and _norm(n.test) == "handler is not None"), None)
    call_txt = "handler(source_address, data)"
    if disp is not None and isinstance(disp.body[0], ast.Try):
        tr = disp.body[0]
    else:
        # guard-clause form: `if handler is None: …; return` and then `self.<method>(handler, source_address, data)` as the
        # last statement, where <method> of the same class starts with the try/except around the handler call
        body = _stmts(fn)
        guard = next((n for n in body if isinstance(n, ast.If) and _norm(n.test) == "handler is None" and not n.orelse
                      and isinstance(n.body[-1], ast.Return) and n.body[-1].value is None), None)
        last = body[-1]
        m = re.fullmatch(r"self\.(\w+)\(handler, source_address, data\)", _norm(last)) if isinstance(last, ast.Expr) else None
        if guard is None or m is None or body.index(guard) > body.index(last):
            raise TranslatorError("Community.on_packet: handler call is not inside try/except")
        helper = _func(tree, m.group(1), "Community")
        hp = [a.arg for a in helper.args.args]
        hb = _stmts(helper)
        if len(hp) != 4 or len(hb) != 1 or not isinstance(hb[0], ast.Try):
            raise TranslatorError(f"Community.{m.group(1)}: expected a single try/except around the handler call")
        tr = hb[0]
        call_txt = f"{hp[1]}({hp[2]}, {hp[3]})"
    if not any(h.type is not None and _norm(h.type) == "Exception" for h in tr.handlers):
        raise TranslatorError("Community.on_packet: `except Exception` around the handler call not found")
    if call_txt not in _norm(tr.body[0]):
        raise TranslatorError("Community.on_packet: handler is not called with (source_address, data)")
    names = _assigned_names(fn)
    if names.get("data", 0) != 1 or names.get("source_address", 0) != 1 or names.get("msg_id", 0) != 1 \
            or names.get("handler", 0) != 1:
        raise TranslatorError(f"Community.on_packet: data/source_address/msg_id/handler are re-bound between the matched "
                              f"statements: {dict((k, names.get(k, 0)) for k in ('data', 'source_address', 'msg_id', 'handler'))}")
    # whose liveness is refreshed before any check: every assignment to `probable_peer` is classified by what it reads
    sources = []
    for n in ast.walk(fn):
        if isinstance(n, ast.Assign) and any(isinstance(t, ast.Name) and t.id == "probable_peer" for t in n.targets):
            used = {x.id for x in ast.walk(n.value) if isinstance(x, ast.Name)}
            if "data" in used or "packet" in used:
                sources.append(".datagramContent")
            elif _norm(n.value) == "self.network.get_verified_by_address(source_address)":
                sources.append(".sourceAddress")
            else:
                raise TranslatorError(f"Community.on_packet: unknown source of probable_peer: {_norm(n.value)[:80]}")
    found["liveness"] = sources  # type: ignore[assignment]
    # the two numbers are READ from the source (slice bound of the prefix comparison, index of the msg-id byte); the
    # theorems conclude `data.take 22 = o.pfx` / `data[22]`, so another number breaks their proofs
    return (f"/-- translated from Community.on_packet: `if self._prefix != data[:{found['prefix_len']}] …: return`, "
            f"`msg_id = data[{found['msg_off']}]` -/\n"
            f"def prefixLen : Nat := {found['prefix_len']}\ndef msgIdOffset : Nat := {found['msg_off']}\n"
            "/-- translated from Community.on_packet: what the `probable_peer` whose last_response is refreshed is looked up by -/\n"
            f"def livenessSources : List LivenessSource := [{', '.join(found['liveness'])}]")


# ------------------------------------------------------------------------------------------------ F. raw discovery handler
def translate_disc_raw() -> str:
    tree = ast.parse((REPO / "ipv8/peerdiscovery/community.py").read_text())
    fn = _func(tree, "on_old_introduction_request", "DiscoveryCommunity")
    if fn.decorator_list:
        # the handler became a decorated one: the table (kind signed) covers it; emit the same record for the model
        return ("/-- DiscoveryCommunity.on_old_introduction_request is decorated now; no raw attempts -/\n"
                "def discRawAttempts : List String := []\ndef discRawCatchesDecodeErrors : Bool := false")
    tries = [n for n in ast.walk(fn) if isinstance(n, ast.Try)]
    if len(tries) != 1:
        raise TranslatorError("on_old_introduction_request: expected exactly one try statement")
    tr = tries[0]
    first = _norm(tr.body[0]) if len(tr.body) == 1 else ""
    if first != "auth, _, payload = self._ez_unpack_auth(DiscoveryIntroductionRequestPayload, data)":
        raise TranslatorError(f"on_old_introduction_request: first attempt changed: {first}")
    if len(tr.handlers) != 1 or _norm(tr.handlers[0].type) != "(PacketDecodingError, PackError)":
        raise TranslatorError("on_old_introduction_request: caught exception classes changed")
    second = _norm(tr.handlers[0].body[0]) if len(tr.handlers[0].body) == 1 else ""
    if second != "auth, _, payload = self._ez_unpack_auth(IntroductionRequestPayload, data)":
        raise TranslatorError(f"on_old_introduction_request: second attempt changed: {second}")
    src = [_norm(s) for s in _stmts(fn)]
    if "peer = Peer(auth.public_key_bin, source_address)" not in src:
        raise TranslatorError("on_old_introduction_request: peer is no longer built from auth.public_key_bin")
    if "self.network.add_verified_peer(peer)" not in src:
        raise TranslatorError("on_old_introduction_request: add_verified_peer(peer) not found")
    names = _assigned_names(fn)
    if names.get("auth", 0) != 2 or names.get("peer", 0) != 1 or names.get("data", 0) != 0 \
            or names.get("source_address", 0) != 0:
        raise TranslatorError("on_old_introduction_request: auth/peer/data/source_address are re-bound besides the matched "
                              "statements")
    i_try = next(i for i, st in enumerate(_stmts(fn)) if isinstance(st, ast.Try))
    if not (i_try < src.index("peer = Peer(auth.public_key_bin, source_address)")
            < src.index("self.network.add_verified_peer(peer)")):
        raise TranslatorError("on_old_introduction_request: order of unpack / Peer(...) / add_verified_peer changed")
    others = [c for c in ast.walk(fn) if isinstance(c, ast.Call) and "_ez_unpack" in _norm(c.func)]
    if len(others) != 2:
        raise TranslatorError("on_old_introduction_request: unexpected additional unpack calls")
    return ("/-- generated from DiscoveryCommunity.on_old_introduction_request: two `_ez_unpack_auth` attempts, the second\n"
            "    after `except (PacketDecodingError, PackError)`; `Peer(auth.public_key_bin, source_address)` -/\n"
            'def discRawAttempts : List String := ["DiscoveryIntroductionRequestPayload", "IntroductionRequestPayload"]\n'
            "def discRawCatchesDecodeErrors : Bool := true")


# ------------------------------------------------------------------------------------------------ F2. crypto wrapper, Peer
def check_crypto_and_peer() -> str:
    """The model treats `is_valid_signature` as a total boolean function and `Peer(bytes)` as `key_from_public_bin`."""
    tree = ast.parse((REPO / "ipv8/keyvault/crypto.py").read_text())
    fn = _func(tree, "is_valid_signature", "ECCrypto")
    tries = [n for n in _stmts(fn) if isinstance(n, ast.Try)]
    if len(tries) != 1 or not isinstance(_stmts(fn)[-1], ast.Try):
        raise TranslatorError("ECCrypto.is_valid_signature: expected `try: return ec_key.verify(signature, data)` as last statement")
    tr = tries[0]
    ok_direct = (len(tr.body) == 1 and isinstance(tr.body[0], ast.Return) and not tr.orelse
                 and "ec_key.verify(signature, data)" in _norm(tr.body[0]))
    # `try: v = ec_key.verify(…) except …: return False else: return v` — the same thing with a narrower try body
    ok_else = (len(tr.body) == 1 and isinstance(tr.body[0], ast.Assign) and len(tr.body[0].targets) == 1
               and isinstance(tr.body[0].targets[0], ast.Name) and "ec_key.verify(signature, data)" in _norm(tr.body[0].value)
               and len(tr.orelse) == 1 and isinstance(tr.orelse[0], ast.Return)
               and _norm(tr.orelse[0].value) in (tr.body[0].targets[0].id, f"bool({tr.body[0].targets[0].id})"))
    if not (ok_direct or ok_else) or tr.finalbody:
        raise TranslatorError(f"ECCrypto.is_valid_signature: verification call changed: {_norm(tr.body[0])[:80]}")
    for hnd in tr.handlers:
        if not (len(hnd.body) == 1 and _norm(hnd.body[0]) == "return False"):
            raise TranslatorError("ECCrypto.is_valid_signature: a failing verification no longer returns False")
    for st in _stmts(fn)[:-1]:
        if not isinstance(st, ast.Assert):
            raise TranslatorError(f"ECCrypto.is_valid_signature: unexpected statement {_norm(st)[:60]}")
    for name, callee in (("key_from_public_bin", "OpenSSLPK(string)"),):
        f2 = _func(tree, name, "ECCrypto")
        if _norm(_stmts(f2)[-1]) != f"return {callee}":
            raise TranslatorError(f"ECCrypto.{name} changed: {_norm(_stmts(f2)[-1])}")
    ptree = ast.parse((REPO / "ipv8/peer.py").read_text())
    init = _func(ptree, "__init__", "Peer")
    key_vals, pub_vals = [], []
    for n in ast.walk(init):
        tgt = n.targets[0] if isinstance(n, ast.Assign) and len(n.targets) == 1 else n.target if isinstance(n, ast.AnnAssign) else None
        if tgt is not None and getattr(n, "value", None) is not None:
            if _norm(tgt) == "self.key":
                key_vals.append(_norm(n.value))
            elif _norm(tgt) == "self.public_key":
                pub_vals.append(_norm(n.value))
    # every way `self.key` is bound: the parsed public key bin, or the Key object that was passed in (possibly cast)
    if "default_eccrypto.key_from_public_bin(key)" not in key_vals \
            or any(v not in ("default_eccrypto.key_from_public_bin(key)", "key", 'cast("Key", key)') for v in key_vals) \
            or pub_vals != ["self.key.pub()"]:
        raise TranslatorError("Peer.__init__ no longer derives its key from key_from_public_bin(key) / key.pub()")
    return ("/-- checked structurally: ECCrypto.is_valid_signature is `try: return ec_key.verify(signature, data)` with\n"
            "    `return False` on any exception; Peer(bytes) parses with key_from_public_bin -/\n"
            "def cryptoWrappersAsModelled : Bool := true")


# ------------------------------------------------------------------------------------------------ G. varlen strictness
def probe_varlen_strict() -> bool:
    from ipv8.messaging.serialization import default_serializer
    from ipv8.messaging.payload_headers import BinMemberAuthenticationPayload
    try:
        default_serializer.unpack_serializable(BinMemberAuthenticationPayload, b"\x00" * 23 + b"\x00\x05ab", offset=23)
    except Exception:
        return True
    return False


# ------------------------------------------------------------------------------------------------ H. spec
def load_spec() -> dict:
    if not SPEC.exists():
        raise TranslatorError(f"{SPEC} missing")
    return json.loads(SPEC.read_text())


def _lean_bytes(b: bytes) -> str:
    return "[" + ", ".join(str(x) for x in b) + "]"


def _lean_str(s: str) -> str:
    return '"' + s.replace("\\", "\\\\").replace('"', '\\"') + '"'


def translate(tables=None):
    """-> (lean source, info dict with the live tables for the harness)"""
    if tables is None:
        tables = collect_tables()
    tree = resolve_constants(ast.parse((REPO / LAZY).read_text()))
    spec = load_spec()
    parts = [
        "/- GENERATED by tools/gen_c01.py from /repo on every run — do not edit. -/",
        "import Ipv8.C01.Model", "", "namespace Ipv8.C01.Gen", "open Ipv8 Ipv8.C01", "",
        translate_verify_signature(tree), "",
        translate_wrappers(tree), "",
        translate_pack(tree), "",
        translate_on_packet(), "",
        translate_disc_raw(), "",
        check_crypto_and_peer(), "",
        "/-- probed on the live varlenH packer: does a truncated field raise? -/",
        f"def strictVarlen : Bool := {'true' if probe_varlen_strict() else 'false'}", "",
    ]
    rows = []
    reviewed_raw = {(o, int(m)) for o, ms in spec.get("raw_modelled", {}).items() for m in ms}
    for t in tables:
        hs = []
        for h in t["handlers"]:
            lean_kind = h["kind"]
            if lean_kind == "raw" and (t["overlay"], h["msg_id"]) not in reviewed_raw:
                lean_kind = "rawOther"
            hs.append(f"    {{ msgId := {h['msg_id']}, name := {_lean_str(h['name'])}, kind := .{lean_kind}, "
                      f"payloads := [{', '.join(_lean_str(p) for p in h['payloads'])}] }}")
        rows.append(f"  {{ name := {_lean_str(t['overlay'])}, pfx := {_lean_bytes(t['prefix'])}, "
                    f"overrides := [{', '.join(_lean_str(x) for x in t.get('overrides', []))}], handlers := [\n"
                    + ",\n".join(hs) + "] }")
    parts.append("/-- the wrapper programs in force -/")
    parts.append("def progs : Progs :=\n  { signed := lazyWrapper, signedWd := lazyWrapperWd, unsigned := lazyWrapperUnsigned,\n"
                 "    unsignedWd := lazyWrapperUnsignedWd, ezUnpackAuth := ezUnpackAuth, rawCatches := discRawCatchesDecodeErrors }")
    parts.append("")
    parts.append("/-- every Community subclass shipped outside ipv8.test, every registered msg id (from the live decode_map) -/")
    parts.append("def overlays : List Overlay := [\n" + ",\n".join(rows) + "]")
    parts.append("")
    req = [(o, int(m)) for o, ms in sorted(spec["auth_required"].items()) for m in sorted(ms, key=int)]
    parts.append("/-- frozen, reviewed: /verif/spec/auth_spec.json -/")
    parts.append("def authRequired : List (String × Nat) := [\n  "
                 + ", ".join(f"({_lean_str(o)}, {m})" for o, m in req) + "]")
    rawok = [(o, int(m)) for o, ms in sorted(spec.get("raw_modelled", {}).items()) for m in ms]
    parts.append("def rawModelled : List (String × Nat) := ["
                 + ", ".join(f"({_lean_str(o)}, {m})" for o, m in rawok) + "]")
    unauth = [(o, int(m)) for o, ms in sorted(spec.get("unauthenticated_by_design", {}).items()) for m in sorted(ms, key=int)]
    parts.append("/-- msg ids reviewed as deliberately unauthenticated (puncture requests, discovery ping/pong, cells, deprecated) -/")
    parts.append("def unauthByDesign : List (String × Nat) := [\n  "
                 + ", ".join(f"({_lean_str(o)}, {m})" for o, m in unauth) + "]")
    parts += ["", "end Ipv8.C01.Gen", ""]
    return "\n".join(parts), {"tables": tables, "spec": spec}


if __name__ == "__main__":
    import sys
    sys.path.insert(0, str(REPO))
    src, info = translate()
    print(src[:6000])
