"""
Translator for C10: reads ipv8/requestcache.py (AST, no import) and regenerates lean/Ipv8/C10/GenRC.lean.

What is extracted (everything else of the model is hand-written and tied by the correspondence run):
  * RandomNumberCache.find_unclaimed_identifier:  `for _ in range(TRIES)` / `int(random() * SPACE)` / `if not has: break`
    / `else: raise`                                   -> findTries, numberSpace, and the loop shape is checked
  * NumberCache.timeout_delay default                 -> defaultDelayMs
  * RequestCache.passthrough default `timeout`        -> passthroughDefaultMs
  * RequestCache._create_identifier returns f"{prefix}:{number}"  -> identSeparator (shape checked: the identifier
    must mention both the prefix and the number, separated by a constant that cannot occur in an int)
  * RequestCache.add: the assertion `cache.timeout_delay > 0.0` -> minDelayExclusiveMs
A construct outside this subset raises vlib.TranslatorError (treated like a broken proof by the runner).
"""
from __future__ import annotations

import ast

import vlib


def _fail(msg):
    raise vlib.TranslatorError("gen_rc: " + msg)


def _find(body, cls, name=None):
    for node in body:
        if isinstance(node, ast.ClassDef) and node.name == cls:
            if name is None:
                return node
            for f in node.body:
                if isinstance(f, (ast.FunctionDef, ast.AsyncFunctionDef)) and f.name == name:
                    return f
            _fail(f"{cls}.{name} not found")
    _fail(f"class {cls} not found")


def _const_num(node):
    """evaluate a constant arithmetic expression made of numbers, + - * ** and unary minus"""
    if isinstance(node, ast.Constant) and isinstance(node.value, (int, float)) and not isinstance(node.value, bool):
        return node.value
    if isinstance(node, ast.UnaryOp) and isinstance(node.op, ast.USub):
        return -_const_num(node.operand)
    if isinstance(node, ast.BinOp) and isinstance(node.op, (ast.Add, ast.Sub, ast.Mult, ast.Pow)):
        a, b = _const_num(node.left), _const_num(node.right)
        return {ast.Add: a + b, ast.Sub: a - b, ast.Mult: a * b, ast.Pow: a ** b}[type(node.op)]
    _fail("not a constant number: " + ast.dump(node)[:80])


def _ms(x):
    v = x * 1000
    if v != int(v) or v < 0:
        _fail(f"duration {x} s is not a whole non-negative number of milliseconds")
    return int(v)


def _strip_doc(body):
    if body and isinstance(body[0], ast.Expr) and isinstance(body[0].value, ast.Constant) \
            and isinstance(body[0].value.value, str):
        return body[1:]
    return body


def extract(src: str) -> dict:
    tree = ast.parse(src)
    out = {}
    # --- find_unclaimed_identifier ---------------------------------------------------------------
    f = _find(tree.body, "RandomNumberCache", "find_unclaimed_identifier")
    body = _strip_doc(f.body)
    if len(body) != 2 or not isinstance(body[0], ast.For) or not isinstance(body[1], ast.Return):
        _fail("find_unclaimed_identifier: expected `for … else …; return number`")
    loop = body[0]
    it = loop.iter
    if not (isinstance(it, ast.Call) and isinstance(it.func, ast.Name) and it.func.id == "range" and len(it.args) == 1):
        _fail("find_unclaimed_identifier: loop is not `for _ in range(N)`")
    out["findTries"] = int(_const_num(it.args[0]))
    if len(loop.body) != 2 or not isinstance(loop.body[0], ast.Assign) or not isinstance(loop.body[1], ast.If):
        _fail("find_unclaimed_identifier: loop body is not `number = …; if not has: break`")
    asg = loop.body[0]
    call = asg.value
    if not (isinstance(call, ast.Call) and isinstance(call.func, ast.Name) and call.func.id == "int"
            and len(call.args) == 1 and isinstance(call.args[0], ast.BinOp) and isinstance(call.args[0].op, ast.Mult)):
        _fail("find_unclaimed_identifier: number is not int(random() * SPACE)")
    left, right = call.args[0].left, call.args[0].right
    if not (isinstance(left, ast.Call) and isinstance(left.func, ast.Name) and left.func.id == "random"):
        _fail("find_unclaimed_identifier: number is not int(random() * SPACE)")
    out["numberSpace"] = int(_const_num(right))
    cond = loop.body[1]
    ok = (isinstance(cond.test, ast.UnaryOp) and isinstance(cond.test.op, ast.Not)
          and isinstance(cond.test.operand, ast.Call) and isinstance(cond.test.operand.func, ast.Attribute)
          and cond.test.operand.func.attr == "has" and len(cond.test.operand.args) == 2
          and [getattr(a, "id", None) for a in cond.test.operand.args] == ["prefix", asg.targets[0].id]
          and len(cond.body) == 1 and isinstance(cond.body[0], ast.Break) and not cond.orelse)
    if not ok:
        _fail("find_unclaimed_identifier: guard is not `if not request_cache.has(prefix, number): break`")
    if not (loop.orelse and isinstance(loop.orelse[-1], ast.Raise)):
        _fail("find_unclaimed_identifier: exhausting the loop does not raise")
    if not (isinstance(body[1].value, ast.Name) and body[1].value.id == asg.targets[0].id):
        _fail("find_unclaimed_identifier: does not return the number that passed the guard")
    # --- NumberCache.timeout_delay ----------------------------------------------------------------
    f = _find(tree.body, "NumberCache", "timeout_delay")
    body = _strip_doc(f.body)
    if len(body) != 1 or not isinstance(body[0], ast.Return):
        _fail("NumberCache.timeout_delay is not a single return")
    out["defaultDelayMs"] = _ms(_const_num(body[0].value))
    # --- passthrough default ----------------------------------------------------------------------
    f = _find(tree.body, "RequestCache", "passthrough")
    kw = {a.arg: d for a, d in zip(f.args.kwonlyargs, f.args.kw_defaults)}
    if "timeout" not in kw or kw["timeout"] is None:
        _fail("passthrough has no keyword-only `timeout` default")
    out["passthroughDefaultMs"] = _ms(_const_num(kw["timeout"]))
    # --- _create_identifier -------------------------------------------------------------------------
    f = _find(tree.body, "RequestCache", "_create_identifier")
    body = _strip_doc(f.body)
    if len(body) != 1 or not isinstance(body[0], ast.Return) or not isinstance(body[0].value, ast.JoinedStr):
        _fail("_create_identifier is not a single f-string return")
    parts = body[0].value.values
    shape = []
    for p in parts:
        if isinstance(p, ast.Constant):
            shape.append(("lit", p.value))
        elif isinstance(p, ast.FormattedValue) and isinstance(p.value, ast.Name) and p.conversion == -1 \
                and p.format_spec is None:
            shape.append(("var", p.value.id))
        else:
            _fail("_create_identifier: unsupported f-string part")
    if [k for k in shape if k[0] == "var"] != [("var", "prefix"), ("var", "number")] or len(shape) != 3 \
            or shape[1][0] != "lit":
        _fail(f"_create_identifier: expected f\"{{prefix}}<sep>{{number}}\", got {shape}")
    sep = shape[1][1]
    if not sep or any(ch.isdigit() or ch in "-+" for ch in sep):
        _fail(f"_create_identifier: separator {sep!r} could be part of a number — identifiers would not be injective")
    out["identSeparator"] = sep
    # --- add: assertion on the delay ------------------------------------------------------------------
    f = _find(tree.body, "RequestCache", "add")
    found = None
    for st in f.body:
        if isinstance(st, ast.Assert) and isinstance(st.test, ast.Compare) and len(st.test.ops) == 1 \
                and isinstance(st.test.ops[0], ast.Gt) and isinstance(st.test.left, ast.Attribute) \
                and st.test.left.attr == "timeout_delay":
            found = _ms(_const_num(st.test.comparators[0]))
    if found is None:
        _fail("RequestCache.add no longer asserts `cache.timeout_delay > <const>`")
    out["minDelayExclusiveMs"] = found
    return out


def translate():
    src = (vlib.REPO / "ipv8" / "requestcache.py").read_text()
    c = extract(src)
    sep = c["identSeparator"].replace("\\", "\\\\").replace('"', '\\"')
    lean = f"""/-
  GENERATED by tools/gen_rc.py from ipv8/requestcache.py — do not edit.
  Constants of the request cache that the model and the theorems are parameterised by.
-/
namespace Ipv8.C10.Gen

/-- `for _ in range({c['findTries']})` in RandomNumberCache.find_unclaimed_identifier -/
def findTries : Nat := {c['findTries']}
/-- `int(random() * {c['numberSpace']})` -/
def numberSpace : Nat := {c['numberSpace']}
/-- NumberCache.timeout_delay default, in milliseconds -/
def defaultDelayMs : Nat := {c['defaultDelayMs']}
/-- RequestCache.passthrough(timeout=…) default, in milliseconds -/
def passthroughDefaultMs : Nat := {c['passthroughDefaultMs']}
/-- RequestCache.add asserts `cache.timeout_delay > this` (milliseconds) -/
def minDelayExclusiveMs : Nat := {c['minDelayExclusiveMs']}
/-- separator of `_create_identifier`: f"{{prefix}}{sep}{{number}}" -/
def identSeparator : String := "{sep}"

end Ipv8.C10.Gen
"""
    return lean, c


if __name__ == "__main__":
    print(translate()[0])
