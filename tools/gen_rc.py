"""
Translator for C10: reads ipv8/requestcache.py (AST, no import) and regenerates lean/Ipv8/C10/GenRC.lean.

What is extracted (everything else of the model is hand-written and tied by the correspondence run):
  * RandomNumberCache.find_unclaimed_identifier:  `for _ in range(TRIES)` / `int(random() * SPACE)` / `if not has: break`
    / `else: raise`                                   -> findTries, numberSpace, and the loop shape is checked
  * NumberCache.timeout_delay default                 -> defaultDelayMs
  * RequestCache.passthrough default `timeout`        -> passthroughDefaultMs
  * RequestCache._create_identifier returns f"{prefix}:{number}"  -> identSeparator (shape checked: the identifier
    must mention both the prefix and the number, separated by a constant that cannot occur in an int)
  * RequestCache.add: the assertion `cache.timeout_delay > 0.0` -> minDelayExclusiveMs
A construct outside this subset raises vlib.TranslatorError (treated like a broken proof by the runner).
"""
from __future__ import annotations

import ast

import vlib


def _fail(msg):
    raise vlib.TranslatorError("gen_rc: " + msg)


def _find(body, cls, name=None):
    for node in body:
        if isinstance(node, ast.ClassDef) and node.name == cls:
            if name is None:
                return node
            found = [f for f in node.body if isinstance(f, (ast.FunctionDef, ast.AsyncFunctionDef)) and f.name == name
                     and not any((isinstance(d, ast.Name) and d.id == "overload") for d in f.decorator_list)]
            if found:
                return found[-1]
            _fail(f"{cls}.{name} not found")
    _fail(f"class {cls} not found")


MODULE_CONSTS: dict = {}            # NAME -> value node, for module-level `NAME = <constant expression>` bound once


def _collect_module_consts(tree):
    MODULE_CONSTS.clear()
    seen = {}
    for st in tree.body:
        tgt = None
        if isinstance(st, ast.Assign) and len(st.targets) == 1 and isinstance(st.targets[0], ast.Name):
            tgt, val = st.targets[0].id, st.value
        elif isinstance(st, ast.AnnAssign) and isinstance(st.target, ast.Name) and st.value is not None:
            tgt, val = st.target.id, st.value
        if tgt is not None:
            seen[tgt] = None if tgt in seen else val       # bound twice: not a constant
    rebound = {n.id for n in ast.walk(tree) if isinstance(n, ast.Name) and isinstance(n.ctx, (ast.Store, ast.Del))}
    globs = {nm for n in ast.walk(tree) if isinstance(n, ast.Global) for nm in n.names}
    for k, v in seen.items():
        if v is not None and k not in globs:
            MODULE_CONSTS[k] = v


def _const_num(node, _depth=0):
    """evaluate a constant arithmetic expression made of numbers, + - * ** and unary minus; a module-level name that is
    bound exactly once to such an expression (MAX_ATTEMPTS = 1000) stands for its value"""
    if isinstance(node, ast.Name) and node.id in MODULE_CONSTS and _depth < 5:
        return _const_num(MODULE_CONSTS[node.id], _depth + 1)
    if isinstance(node, ast.Constant) and isinstance(node.value, (int, float)) and not isinstance(node.value, bool):
        return node.value
    if isinstance(node, ast.UnaryOp) and isinstance(node.op, ast.USub):
        return -_const_num(node.operand)
    if isinstance(node, ast.BinOp) and isinstance(node.op, (ast.Add, ast.Sub, ast.Mult, ast.Pow)):
        a, b = _const_num(node.left), _const_num(node.right)
        return {ast.Add: a + b, ast.Sub: a - b, ast.Mult: a * b, ast.Pow: a ** b}[type(node.op)]
    _fail("not a constant number: " + ast.dump(node)[:80])


def _ms(x):
    v = x * 1000
    if v != int(v) or v < 0:
        _fail(f"duration {x} s is not a whole non-negative number of milliseconds")
    return int(v)


def _strip_doc(body):
    if body and isinstance(body[0], ast.Expr) and isinstance(body[0].value, ast.Constant) \
            and isinstance(body[0].value.value, str):
        return body[1:]
    return body


def extract(src: str) -> dict:
    tree = ast.parse(src)
    _collect_module_consts(tree)
    out = {}
    # --- find_unclaimed_identifier ---------------------------------------------------------------
    f = _find(tree.body, "RandomNumberCache", "find_unclaimed_identifier")
    body = _strip_doc(f.body)
    # two equivalent shapes:  for…: n = …; if not has: break / else: raise; return n
    #                         for…: n = …; if not has: return n / (after the loop) raise
    early = (len(body) >= 2 and isinstance(body[0], ast.For) and not body[0].orelse and isinstance(body[-1], ast.Raise))
    if not early and (len(body) != 2 or not isinstance(body[0], ast.For) or not isinstance(body[1], ast.Return)):
        _fail("find_unclaimed_identifier: expected `for … else raise; return number` or `for …: return number; raise`")
    loop = body[0]
    it = loop.iter
    if not (isinstance(it, ast.Call) and isinstance(it.func, ast.Name) and it.func.id == "range" and len(it.args) == 1):
        _fail("find_unclaimed_identifier: loop is not `for _ in range(N)`")
    out["findTries"] = int(_const_num(it.args[0]))
    if len(loop.body) != 2 or not isinstance(loop.body[0], ast.Assign) or not isinstance(loop.body[1], ast.If):
        _fail("find_unclaimed_identifier: loop body is not `number = …; if not has: break`")
    asg = loop.body[0]
    call = asg.value
    if not (isinstance(call, ast.Call) and isinstance(call.func, ast.Name) and call.func.id == "int"
            and len(call.args) == 1 and isinstance(call.args[0], ast.BinOp) and isinstance(call.args[0].op, ast.Mult)):
        _fail("find_unclaimed_identifier: number is not int(random() * SPACE)")
    left, right = call.args[0].left, call.args[0].right
    if not (isinstance(left, ast.Call) and isinstance(left.func, ast.Name) and left.func.id == "random"):
        _fail("find_unclaimed_identifier: number is not int(random() * SPACE)")
    out["numberSpace"] = int(_const_num(right))
    cond = loop.body[1]
    num = asg.targets[0].id
    guard = (isinstance(cond.test, ast.UnaryOp) and isinstance(cond.test.op, ast.Not)
             and isinstance(cond.test.operand, ast.Call) and isinstance(cond.test.operand.func, ast.Attribute)
             and cond.test.operand.func.attr == "has" and len(cond.test.operand.args) == 2
             and [getattr(a, "id", None) for a in cond.test.operand.args] == ["prefix", num]
             and len(cond.body) == 1 and not cond.orelse)
    if early:
        ok = guard and isinstance(cond.body[0], ast.Return) and isinstance(cond.body[0].value, ast.Name) \
            and cond.body[0].value.id == num \
            and all(isinstance(b, ast.Assign) and _is_pure_expr(b.value, set()) for b in body[1:-1])
        if not ok:
            _fail("find_unclaimed_identifier: guard is not `if not request_cache.has(prefix, number): return number` "
                  "followed by the raise")
    else:
        if not (guard and isinstance(cond.body[0], ast.Break)):
            _fail("find_unclaimed_identifier: guard is not `if not request_cache.has(prefix, number): break`")
        if not (loop.orelse and isinstance(loop.orelse[-1], ast.Raise)):
            _fail("find_unclaimed_identifier: exhausting the loop does not raise")
        if not (isinstance(body[1].value, ast.Name) and body[1].value.id == num):
            _fail("find_unclaimed_identifier: does not return the number that passed the guard")
    # --- NumberCache.timeout_delay ----------------------------------------------------------------
    f = _find(tree.body, "NumberCache", "timeout_delay")
    body = _strip_doc(f.body)
    if len(body) != 1 or not isinstance(body[0], ast.Return):
        _fail("NumberCache.timeout_delay is not a single return")
    out["defaultDelayMs"] = _ms(_const_num(body[0].value))
    # --- passthrough default ----------------------------------------------------------------------
    f = _find(tree.body, "RequestCache", "passthrough")
    kw = {a.arg: d for a, d in zip(f.args.kwonlyargs, f.args.kw_defaults)}
    if "timeout" not in kw or kw["timeout"] is None:
        _fail("passthrough has no keyword-only `timeout` default")
    out["passthroughDefaultMs"] = _ms(_const_num(kw["timeout"]))
    # --- _create_identifier -------------------------------------------------------------------------
    f = _find(tree.body, "RequestCache", "_create_identifier")
    body = _strip_doc(f.body)
    if len(body) != 1 or not isinstance(body[0], ast.Return):
        _fail("_create_identifier is not a single return")
    val = body[0].value
    parts = None
    if isinstance(val, ast.JoinedStr):
        parts = val.values
    elif isinstance(val, ast.BinOp) and isinstance(val.op, ast.Mod) and isinstance(val.left, ast.Constant) \
            and isinstance(val.left.value, str) and isinstance(val.right, ast.Tuple) \
            and all(isinstance(e, ast.Name) for e in val.right.elts):
        # "%s<sep>%s" % (prefix, number)   (also %d for the number)
        pieces = val.left.value.replace("%d", "%s").split("%s")
        if len(pieces) == len(val.right.elts) + 1:
            parts = []
            for i, lit in enumerate(pieces):
                if lit:
                    parts.append(ast.Constant(lit))
                if i < len(val.right.elts):
                    parts.append(ast.FormattedValue(value=val.right.elts[i], conversion=-1, format_spec=None))
    elif isinstance(val, ast.BinOp) and isinstance(val.op, ast.Add):
        # prefix + "<sep>" + str(number)
        flat = []

        def flatten(n):
            if isinstance(n, ast.BinOp) and isinstance(n.op, ast.Add):
                flatten(n.left)
                flatten(n.right)
            else:
                flat.append(n)
        flatten(val)
        parts = []
        for n in flat:
            if isinstance(n, ast.Call) and _call_name(n.func) == "str" and len(n.args) == 1:
                n = n.args[0]
            parts.append(ast.FormattedValue(value=n, conversion=-1, format_spec=None)
                         if isinstance(n, ast.Name) else n)
    if parts is None:
        _fail("_create_identifier: unsupported way of building the identifier string")
    shape = []
    for p in parts:
        if isinstance(p, ast.Constant):
            shape.append(("lit", p.value))
        elif isinstance(p, ast.FormattedValue) and isinstance(p.value, ast.Name) and p.conversion == -1 \
                and p.format_spec is None:
            shape.append(("var", p.value.id))
        else:
            _fail("_create_identifier: unsupported f-string part")
    if [k for k in shape if k[0] == "var"] != [("var", "prefix"), ("var", "number")] or len(shape) != 3 \
            or shape[1][0] != "lit":
        _fail(f"_create_identifier: expected f\"{{prefix}}<sep>{{number}}\", got {shape}")
    sep = shape[1][1]
    if not sep or any(ch.isdigit() or ch in "-+" for ch in sep):
        _fail(f"_create_identifier: separator {sep!r} could be part of a number — identifiers would not be injective")
    out["identSeparator"] = sep
    # --- add: assertion on the delay ------------------------------------------------------------------
    f = _find(tree.body, "RequestCache", "add")
    found = None
    for st in f.body:
        if isinstance(st, ast.Assert) and isinstance(st.test, ast.Compare) and len(st.test.ops) == 1 \
                and isinstance(st.test.ops[0], ast.Gt) and isinstance(st.test.left, ast.Attribute) \
                and st.test.left.attr == "timeout_delay":
            found = _ms(_const_num(st.test.comparators[0]))
    if found is None:
        _fail("RequestCache.add no longer asserts `cache.timeout_delay > <const>`")
    out["minDelayExclusiveMs"] = found
    return out


# -------------------------------------------------------------------------------------------------------------
# statement sequences of add / pop / _on_timeout / clear / shutdown  ->  lists of primitive operations
# -------------------------------------------------------------------------------------------------------------
# Only statements with an effect on the modelled state produce a primitive; logging, isinstance asserts, casts and
# pure local computations are skipped, `with` blocks are transparent.  Locals are tracked by what they were assigned
# from (so renaming them does not matter), call arguments may be positional or keyword.  Anything else with a
# possible effect raises TranslatorError.

def _is_self_attr(node, name=None):
    return isinstance(node, ast.Attribute) and isinstance(node.value, ast.Name) and node.value.id == "self" \
        and (name is None or node.attr == name)


def _call_name(node):
    """'self.x.y' style dotted name of a call target, or None"""
    parts = []
    while isinstance(node, ast.Attribute):
        parts.append(node.attr)
        node = node.value
    if isinstance(node, ast.Name):
        parts.append(node.id)
        return ".".join(reversed(parts))
    return None


def _is_logging(st):
    """a self._logger.*(…) call whose arguments only read values (a side effect hidden in an argument is not skipped)"""
    if not (isinstance(st, ast.Expr) and isinstance(st.value, ast.Call)
            and (_call_name(st.value.func) or "").startswith("self._logger.")):
        return False
    args = list(st.value.args) + [k.value for k in st.value.keywords]
    for a in args:
        for sub in ast.walk(a):
            if isinstance(sub, ast.Call) and _call_name(sub.func) not in ("str", "len", "repr", "type", "format", "join",
                                                                             "\"\".join", "traceback.format_exc"):
                return False
            if isinstance(sub, (ast.Await, ast.NamedExpr, ast.Yield, ast.YieldFrom)):
                return False
    return True


CLS_NODE: list = []                          # the RequestCache class node (for looking up extracted helpers)
CREATE_ID_PARAMS = ["number", "prefix"]   # parameter order of _create_identifier, read from its definition
TABLE_ATTR = ["_identifiers"]       # inferred from `has`: the attribute the identifier is looked up in
TIMEOUT_METHOD = ["_on_timeout"]     # inferred from `add`: the method handed to register_task
PURE_HELPERS: set[str] = set()      # "self.<method>" names of RequestCache methods that only compute a value


def _pure_helpers(cls_node) -> set[str]:
    """methods whose body is made of docstring / local assignments / if / return over pure expressions (an extracted
    helper such as `_effective_delay(cache)`); computed to a fixpoint so helpers may call helpers"""
    found: set[str] = set()

    def pure_body(body):
        for st in body:
            if isinstance(st, ast.Expr) and isinstance(st.value, ast.Constant):
                continue
            if isinstance(st, ast.Return):
                if st.value is not None and not _is_pure_expr(st.value, found):
                    return False
            elif isinstance(st, ast.Assign):
                if not all(isinstance(t, ast.Name) for t in st.targets) or not _is_pure_expr(st.value, found):
                    return False
            elif isinstance(st, ast.If):
                if not _is_pure_expr(st.test, found) or not pure_body(st.body) or not pure_body(st.orelse):
                    return False
            else:
                return False
        return True
    changed = True
    while changed:
        changed = False
        for f in cls_node.body:
            if isinstance(f, ast.FunctionDef) and "self." + f.name not in found and not f.decorator_list \
                    and pure_body(f.body):
                found.add("self." + f.name)
                changed = True
    return found


def _is_pure_expr(node, helpers=None):
    """expression without calls except isinstance/issubclass/any/len/str/cast/float/int, pure helper methods of the
    class, and attribute reads"""
    helpers = PURE_HELPERS if helpers is None else helpers
    for sub in ast.walk(node):
        if isinstance(sub, ast.Call):
            if _call_name(sub.func) not in ("isinstance", "issubclass", "any", "all", "len", "str", "cast", "float",
                                             "int", "type", "min", "max", "current_task", "asyncio.current_task",
                                             "get_running_loop") and _call_name(sub.func) not in helpers:
                return False
        if isinstance(sub, (ast.Await, ast.Yield, ast.YieldFrom, ast.NamedExpr)):
            return False
    return True


class _Seq:
    def __init__(self, method, fn):
        self.method = method
        self.fn = fn
        self.ops = []
        self.ident_vars = set()      # locals holding self._create_identifier(...)
        self.cache_vars = set()      # locals (or the parameter) holding the cache object
        self.task_vars = set()       # locals holding the list returned by cancel_all_pending_tasks()
        self.waiter_vars = set()
        self.pure_locals = set()
        self.abort_ops = []
        self.local_defs = {}
        self.cond_defs = {}
        self.params = [a.arg for a in fn.args.args]

    def fail(self, what, node=None):
        _fail(f"{self.method}: {what}" + (f" (line {node.lineno}: {ast.unparse(node)[:90]})" if node is not None else ""))

    # --- recognisers ---------------------------------------------------------------------------------
    def is_ident(self, node):
        return isinstance(node, ast.Name) and node.id in self.ident_vars

    def is_cache(self, node):
        return isinstance(node, ast.Name) and node.id in self.cache_vars

    def is_identifiers(self, node):
        return _is_self_attr(node, TABLE_ATTR[0])

    def is_create_identifier(self, node):
        if not (isinstance(node, ast.Call) and _call_name(node.func) == "self._create_identifier"):
            return False
        bound = dict(zip(CREATE_ID_PARAMS, node.args))
        bound.update({k.arg: k.value for k in node.keywords})
        for want in ("number", "prefix"):
            a = bound.get(want)
            if a is None or not ast.unparse(a).split(".")[-1] == want:
                self.fail(f"_create_identifier is not called with the {want} as its `{want}` argument", node)
        return True

    def cancel_futures_loop(self, st, of_cache_var):
        """for f, _ in <cache>.managed_futures: f.cancel()   — written inline or extracted into a helper method"""
        if isinstance(st, ast.Expr) and isinstance(st.value, ast.Call) and (_call_name(st.value.func) or "").startswith("self.") \
                and [ast.unparse(a) for a in st.value.args] == [of_cache_var] and not st.value.keywords and CLS_NODE:
            h = [f for f in CLS_NODE[0].body if isinstance(f, ast.FunctionDef) and "self." + f.name == _call_name(st.value.func)]
            if len(h) == 1:
                static = any(isinstance(d, ast.Name) and d.id == "staticmethod" for d in h[0].decorator_list)
                params = [a.arg for a in h[0].args.args][(0 if static else 1):]
                if len(params) == 1 and all(isinstance(d, ast.Name) and d.id == "staticmethod" for d in h[0].decorator_list):
                    hb = _strip_doc(h[0].body)
                    return len(hb) == 1 and self.cancel_futures_loop(hb[0], params[0])
            return False
        if not (isinstance(st, ast.For) and not st.orelse and len(st.body) == 1):
            return False
        it = st.iter
        if not (isinstance(it, ast.Attribute) and it.attr == "managed_futures" and isinstance(it.value, ast.Name)
                and it.value.id == of_cache_var):
            return False
        tgt = st.target
        if not (isinstance(tgt, ast.Tuple) and len(tgt.elts) == 2 and isinstance(tgt.elts[0], ast.Name)):
            return False
        b = st.body[0]
        fut = tgt.elts[0].id
        if isinstance(b, ast.If) and not b.orelse and len(b.body) == 1 and ast.unparse(b.test) == f"not {fut}.done()":
            b = b.body[0]                                       # cancel() of a done future is a no-op anyway
        return (isinstance(b, ast.Expr) and isinstance(b.value, ast.Call) and not b.value.args
                and _call_name(b.value.func) == fut + ".cancel")

    # --- walking -------------------------------------------------------------------------------------
    def walk(self, body):
        for st in body:
            self.stmt(st)

    def stmt(self, st):
        if isinstance(st, ast.Expr) and isinstance(st.value, ast.Constant):
            return                                              # docstring / bare constant
        if isinstance(st, ast.Pass) or _is_logging(st):
            return
        if isinstance(st, ast.Assert):
            t = st.test
            if isinstance(t, ast.Call) and _call_name(t.func) == "isinstance":
                return
            if isinstance(t, ast.Compare) and len(t.ops) == 1 and isinstance(t.ops[0], ast.Gt) \
                    and isinstance(t.left, ast.Attribute) and t.left.attr == "timeout_delay":
                self.ops.append("assertDelay")
                return
            self.fail("unsupported assert", st)
        if isinstance(st, (ast.With, ast.AsyncWith)):
            for it in st.items:
                nm = _call_name(it.context_expr.func) if isinstance(it.context_expr, ast.Call) else _call_name(it.context_expr)
                if nm not in ("self.lock", "self._task_lock", "suppress"):
                    self.fail("unsupported context manager", st)
                if nm == "suppress":
                    # swallowing exceptions changes the control flow of whatever it wraps: only accepted around the
                    # final `await gather(...)` of the cancelled tasks
                    if not (len(st.body) == 1 and isinstance(st.body[0], ast.Expr) and isinstance(st.body[0].value, ast.Await)):
                        self.fail("suppress(...) around anything but the awaited gather", st)
            self.walk(st.body)
            return
        if isinstance(st, ast.Try):
            if st.handlers or st.orelse:
                self.fail("try with except/else clauses", st)
            n0 = len(self.ops)
            self.walk(st.body)
            n1 = len(self.ops)
            self.walk(st.finalbody)
            if "callOnTimeout" in self.ops[n0:n1]:
                # what still runs when cache.on_timeout() raises: the finally blocks around the call, inner first
                self.abort_ops = self.abort_ops + self.ops[n1:]
            return
        handler = getattr(self, "stmt_" + self.method.lstrip("_"))
        if handler(st):
            return
        # pure local computation?
        if isinstance(st, ast.Assign) and len(st.targets) == 1 and isinstance(st.targets[0], ast.Name):
            if self.is_create_identifier(st.value):
                self.ident_vars.add(st.targets[0].id)
                return
            if _is_pure_expr(st.value):
                self.pure_locals.add(st.targets[0].id)
                self.local_defs.setdefault(st.targets[0].id, []).append(st.value)
                return
        if isinstance(st, ast.If) and _is_pure_expr(st.test) and not st.orelse and all(
                isinstance(b, ast.Assign) and len(b.targets) == 1 and isinstance(b.targets[0], ast.Name)
                and b.targets[0].id in self.pure_locals and _is_pure_expr(b.value) for b in st.body):
            for b in st.body:                                   # e.g. the passthrough override of the local delay
                self.cond_defs.setdefault(b.targets[0].id, []).append((st.test, b.value))
            return
        self.fail("statement outside the translator's subset", st)

    # --- add ---------------------------------------------------------------------------------------
    def stmt_add(self, st):
        if isinstance(st, ast.If) and _is_self_attr(st.test, "_shutdown"):
            body = [b for b in st.body if not _is_logging(b)]
            if len(body) == 2 and self.cancel_futures_loop(body[0], self.params[1]) \
                    and isinstance(body[1], ast.Return) and (body[1].value is None or
                                                               (isinstance(body[1].value, ast.Constant) and body[1].value.value is None)) \
                    and not st.orelse:
                self.ops.append("shutdownGate")
                return True
            self.fail("shutdown gate is not `cancel the cache's managed futures; return None`", st)
        if isinstance(st, ast.If) and isinstance(st.test, ast.Compare) and len(st.test.ops) == 1 \
                and isinstance(st.test.ops[0], ast.In) and self.is_ident(st.test.left) \
                and self.is_identifiers(st.test.comparators[0]):
            body = [b for b in st.body if not _is_logging(b)]
            if len(body) == 1 and isinstance(body[0], ast.Return) and not st.orelse and (
                    body[0].value is None or (isinstance(body[0].value, ast.Constant) and body[0].value.value is None)):
                self.ops.append("dupGuard")
                return True
            self.fail("duplicate guard does not `return None`", st)
        if isinstance(st, ast.If) and isinstance(st.test, ast.Call) and _call_name(st.test.func) == "self.has" and not st.orelse:
            a = st.test.args
            cache = self.params[1]
            body = [b for b in st.body if not _is_logging(b)]
            if len(a) == 2 and [ast.unparse(x) for x in a] == [cache + ".prefix", cache + ".number"] and len(body) == 1 \
                    and isinstance(body[0], ast.Return) and (body[0].value is None or (
                        isinstance(body[0].value, ast.Constant) and body[0].value.value is None)):
                self.ops.append("dupGuard")
                return True
            self.fail("duplicate guard via has() is not `if self.has(cache.prefix, cache.number): return None`", st)
        if isinstance(st, ast.Expr) and isinstance(st.value, ast.Call) and _call_name(st.value.func) == "self.register_task":
            c = st.value
            args = list(c.args)
            kw = {k.arg: k.value for k in c.keywords}
            names = ["name", "user_task"]
            for i, a in enumerate(args[:2]):
                kw.setdefault(names[i], a)
            rest = args[2:]
            cache = self.params[1]
            ok = (isinstance(kw.get("name"), ast.Name) and kw["name"].id == cache
                  and _is_self_attr(kw.get("user_task"), TIMEOUT_METHOD[0])
                  and len(rest) == 1 and isinstance(rest[0], ast.Name) and rest[0].id == cache
                  and isinstance(kw.get("delay"), ast.Name) and kw["delay"].id in self.pure_locals
                  and set(kw) <= {"name", "user_task", "delay"})
            if not ok:
                self.fail("register_task is not (cache, self._on_timeout, cache, delay=<local delay>)", st)
            self.delay_local = kw["delay"].id
            self.ops.append("registerTask")
            return True
        if isinstance(st, ast.Assign) and len(st.targets) == 1 and isinstance(st.targets[0], ast.Subscript) \
                and self.is_identifiers(st.targets[0].value) and self.is_ident(st.targets[0].slice) \
                and isinstance(st.value, ast.Name) and st.value.id == self.params[1]:
            self.ops.append("storeIdent")
            return True
        if isinstance(st, ast.Assign) and len(st.targets) == 1 and isinstance(st.targets[0], ast.Name) \
                and isinstance(st.value, ast.Call) and _call_name(st.value.func) == "self._waiters.pop":
            self.waiter_vars.add(st.targets[0].id)
            self.ops.append("resolveWaiter")
            return True
        if isinstance(st, ast.If):
            for n in ast.walk(st.test):     # `if (waiter := self._waiters.pop(…)) is not None and not waiter.done():`
                if isinstance(n, ast.NamedExpr) and isinstance(n.value, ast.Call) \
                        and _call_name(n.value.func) == "self._waiters.pop" and n.target.id not in self.waiter_vars:
                    self.waiter_vars.add(n.target.id)
                    self.ops.append("resolveWaiter")
        if isinstance(st, ast.If) and any(isinstance(n, ast.Name) and n.id in self.waiter_vars for n in ast.walk(st.test)):
            # `if waiter is not None and not waiter.done(): waiter.set_result(cache)` — nothing else may hide in there
            b = st.body
            if not st.orelse and len(b) == 1 and isinstance(b[0], ast.Expr) and isinstance(b[0].value, ast.Call) \
                    and (_call_name(b[0].value.func) or "").split(".")[0] in self.waiter_vars \
                    and (_call_name(b[0].value.func) or "").endswith(".set_result") \
                    and all(_call_name(c.func) in {w + ".done" for w in self.waiter_vars} | {"self._waiters.pop"}
                            for c in ast.walk(st.test) if isinstance(c, ast.Call)):
                return True
            self.fail("waiter hand-over does more than waiter.set_result(cache)", st)
        if isinstance(st, ast.Return) and isinstance(st.value, ast.Name) and st.value.id == self.params[1]:
            self.ops.append("returnAdded")
            return True
        return False

    # --- pop ---------------------------------------------------------------------------------------
    def stmt_pop(self, st):
        if isinstance(st, ast.If) and isinstance(st.test, ast.Call) and _call_name(st.test.func) == "isinstance" \
                and not st.orelse:
            self.walk(st.body)                                  # the str branch is the implementation
            return True
        if isinstance(st, ast.If) and not st.orelse and ast.unparse(st.test) == "not isinstance(prefix, str)" \
                and len(st.body) == 1 and isinstance(st.body[0], ast.Return) \
                and ast.unparse(st.body[0].value) == "self.pop(prefix.name, number)":
            return True                                         # class form handled first, str branch follows unindented
        if isinstance(st, ast.Return) and isinstance(st.value, ast.Call) and _call_name(st.value.func) == "self.pop":
            a = st.value.args
            if len(a) == 2 and isinstance(a[0], ast.Attribute) and a[0].attr == "name":
                return True                                     # class form delegates to the str form
            self.fail("class-form delegation is not self.pop(prefix.name, number)", st)
        if isinstance(st, ast.Assign) and len(st.targets) == 1 and isinstance(st.targets[0], ast.Name) \
                and isinstance(st.value, ast.Call) and _call_name(st.value.func) == ("self." + TABLE_ATTR[0] + ".pop"):
            if len(st.value.args) == 1 and not st.value.keywords and self.is_ident(st.value.args[0]):
                self.cache_vars.add(st.targets[0].id)
                self.ops.append("popIdent")
                return True
            self.fail("identifier is not popped with KeyError semantics", st)
        if isinstance(st, ast.Assign) and len(st.targets) == 1 and isinstance(st.targets[0], ast.Name) \
                and isinstance(st.value, ast.Subscript) and self.is_identifiers(st.value.value) and self.is_ident(st.value.slice):
            self.looked_up = st.targets[0].id                   # `cache = d[k]` (KeyError) … must be followed by `del d[k]`
            return True
        if isinstance(st, ast.Delete) and len(st.targets) == 1 and isinstance(st.targets[0], ast.Subscript) \
                and self.is_identifiers(st.targets[0].value) and self.is_ident(st.targets[0].slice) \
                and getattr(self, "looked_up", None):
            self.cache_vars.add(self.looked_up)
            self.looked_up = None
            self.ops.append("popIdent")
            return True
        if isinstance(st, ast.Expr) and isinstance(st.value, ast.Call) \
                and _call_name(st.value.func) == "self.cancel_pending_task":
            if len(st.value.args) == 1 and self.is_cache(st.value.args[0]):
                self.ops.append("cancelTask")
                return True
            self.fail("cancel_pending_task is not applied to the popped cache", st)
        if isinstance(st, ast.Return) and self.is_cache(st.value):
            self.ops.append("returnClaimed")
            return True
        return False

    # --- _on_timeout ------------------------------------------------------------------------------
    def stmt_on_timeout(self, st):
        cache = self.params[1]
        self.cache_vars.add(cache)
        remove = None
        if isinstance(st, ast.If) and isinstance(st.test, ast.Compare) and len(st.test.ops) == 1 \
                and isinstance(st.test.ops[0], ast.In) and self.is_ident(st.test.left) \
                and self.is_identifiers(st.test.comparators[0]) and not st.orelse and len(st.body) == 1:
            remove = st.body[0]
            if isinstance(remove, ast.Delete) and len(remove.targets) == 1 and isinstance(remove.targets[0], ast.Subscript) \
                    and self.is_identifiers(remove.targets[0].value) and self.is_ident(remove.targets[0].slice):
                self.ops.append("removeIdent")
                return True
            if isinstance(remove, ast.Expr) and isinstance(remove.value, ast.Call) \
                    and _call_name(remove.value.func) == ("self." + TABLE_ATTR[0] + ".pop") and self.is_ident(remove.value.args[0]):
                self.ops.append("removeIdent")
                return True
            self.fail("guarded statement does not remove the identifier", st)
        if isinstance(st, ast.If) and not st.orelse and len(st.body) == 1 and isinstance(st.test, ast.Compare) \
                and len(st.test.ops) == 1 and isinstance(st.test.ops[0], ast.Is) \
                and ast.unparse(st.test.left).startswith("self." + TABLE_ATTR[0] + ".get(") \
                and ast.unparse(st.test.comparators[0]) == cache:
            r = st.body[0]
            if (isinstance(r, ast.Expr) and isinstance(r.value, ast.Call)
                    and _call_name(r.value.func) == ("self." + TABLE_ATTR[0] + ".pop") and self.is_ident(r.value.args[0])) \
                    or (isinstance(r, ast.Delete) and isinstance(r.targets[0], ast.Subscript) and self.is_ident(r.targets[0].slice)):
                # removes the entry only if it is this cache: on every reachable state (table entry of a live timer is
                # its own cache, `table_and_timers_in_sync`) the same as removing the identifier; the run compares it
                self.ops.append("removeIdent")
                return True
        if isinstance(st, ast.Expr) and isinstance(st.value, ast.Call) and _call_name(st.value.func) == ("self." + TABLE_ATTR[0] + ".pop"):
            a = st.value.args
            if len(a) == 2 and self.is_ident(a[0]) and isinstance(a[1], ast.Constant) and a[1].value is None:
                self.ops.append("removeIdent")
                return True
            self.fail("unguarded identifier pop", st)
        if isinstance(st, ast.Expr) and isinstance(st.value, ast.Call) and _call_name(st.value.func) == cache + ".on_timeout" \
                and not st.value.args:
            self.ops.append("callOnTimeout")
            return True
        if isinstance(st, ast.For):
            if self.complete_futures_loop(st, cache):
                self.ops.append("completeFutures")
                return True
            self.fail("loop is not `complete every managed future that is not done`", st)
        if isinstance(st, ast.Expr) and isinstance(st.value, ast.Call) \
                and _call_name(st.value.func) == "self.cancel_pending_task":
            if len(st.value.args) == 1 and self.is_cache(st.value.args[0]):
                self.ops.append("cancelTask")
                return True
        return False

    def complete_futures_loop(self, st, cache):
        it, tgt = st.iter, st.target
        if not (isinstance(it, ast.Attribute) and it.attr == "managed_futures" and isinstance(it.value, ast.Name)
                and it.value.id == cache and isinstance(tgt, ast.Tuple) and len(tgt.elts) == 2
                and all(isinstance(e, ast.Name) for e in tgt.elts) and not st.orelse and len(st.body) in (1, 2, 3)):
            return False
        fut, val = tgt.elts[0].id, tgt.elts[1].id
        g = st.body[0]
        if len(st.body) == 3 and isinstance(g, ast.If) and not g.orelse and ast.unparse(g.test) == f"{fut}.done()" \
                and len(g.body) == 1 and isinstance(g.body[0], ast.Continue):
            # guard clause, then `resolve = fut.set_exception if isinstance(val, Exception) else fut.set_result; resolve(val)`
            a, call = st.body[1], st.body[2]
            return (isinstance(a, ast.Assign) and len(a.targets) == 1 and isinstance(a.targets[0], ast.Name)
                    and ast.unparse(a.value) == f"{fut}.set_exception if isinstance({val}, Exception) else {fut}.set_result"
                    and isinstance(call, ast.Expr) and ast.unparse(call.value) == f"{a.targets[0].id}({val})")
        if len(st.body) == 2 and isinstance(g, ast.If) and not g.orelse and ast.unparse(g.test) == f"{fut}.done()" \
                and len(g.body) == 1 and isinstance(g.body[0], ast.Continue):
            c = st.body[1]                                      # guard clause: `if future.done(): continue`
        elif len(st.body) == 1 and isinstance(g, ast.If) and not g.orelse and ast.unparse(g.test) == f"not {fut}.done()" \
                and len(g.body) == 1:
            c = g.body[0]
        else:
            return False
        if not (isinstance(c, ast.If) and isinstance(c.test, ast.Call) and _call_name(c.test.func) == "isinstance"
                and len(c.test.args) == 2 and isinstance(c.test.args[0], ast.Name) and c.test.args[0].id == val
                and isinstance(c.test.args[1], ast.Name) and c.test.args[1].id == "Exception"
                and len(c.body) == 1 and len(c.orelse) == 1):
            return False

        def is_set(x, meth):
            return (isinstance(x, ast.Expr) and isinstance(x.value, ast.Call) and _call_name(x.value.func) == f"{fut}.{meth}"
                    and len(x.value.args) == 1 and isinstance(x.value.args[0], ast.Name) and x.value.args[0].id == val)
        return is_set(c.body[0], "set_exception") and is_set(c.orelse[0], "set_result")

    # --- clear ------------------------------------------------------------------------------------
    def stmt_clear(self, st):
        return self.common_teardown(st)

    def common_teardown(self, st):
        if isinstance(st, ast.Assign) and len(st.targets) == 1 and isinstance(st.targets[0], ast.Name) \
                and isinstance(st.value, ast.Call) and _call_name(st.value.func) == "self.cancel_all_pending_tasks" \
                and not st.value.args:
            self.task_vars.add(st.targets[0].id)
            self.ops.append("cancelAllTasks")
            return True
        if isinstance(st, ast.Expr) and isinstance(st.value, ast.Call) and _call_name(st.value.func) == ("self." + TABLE_ATTR[0] + ".clear"):
            self.ops.append("clearIdents")
            return True
        if isinstance(st, ast.Return) and isinstance(st.value, ast.Name) and st.value.id in self.task_vars:
            self.ops.append("returnTasks")
            return True
        if isinstance(st, ast.Return) and isinstance(st.value, ast.Call) \
                and _call_name(st.value.func) == "self.cancel_all_pending_tasks" and not st.value.args:
            self.ops += ["cancelAllTasks", "returnTasks"]
            return True
        return False

    # --- shutdown_task_manager (override) -----------------------------------------------------------
    def stmt_shutdown_task_manager(self, st):
        if isinstance(st, ast.Expr) and isinstance(st.value, ast.Await) and isinstance(st.value.value, ast.Call) \
                and ast.unparse(st.value.value) == "super().shutdown_task_manager()":
            self.ops.append("superShutdown")
            return True
        return self.stmt_shutdown(st)

    # --- shutdown ---------------------------------------------------------------------------------
    def stmt_shutdown(self, st):
        if self.common_teardown(st):
            return True
        if isinstance(st, ast.Assign) and len(st.targets) == 1 and _is_self_attr(st.targets[0], "_shutdown") \
                and isinstance(st.value, ast.Constant) and st.value.value is True:
            self.ops.append("setShutdown")
            return True
        it = st.iter if isinstance(st, ast.For) else None
        if isinstance(it, ast.Call) and _call_name(it.func) in ("list", "tuple") and len(it.args) == 1:
            it = it.args[0]                                     # a snapshot of the values is the same iteration
        if isinstance(st, ast.For) and isinstance(it, ast.Call) and _call_name(it.func) == ("self." + TABLE_ATTR[0] + ".values") \
                and isinstance(st.target, ast.Name) and not st.orelse:
            body = [b for b in st.body if not _is_logging(b)]
            if len(body) == 1 and self.cancel_futures_loop(body[0], st.target.id):
                self.ops.append("cancelRegisteredFutures")
                return True
            self.fail("loop over the registered caches does not cancel their managed futures", st)
        if isinstance(st, ast.If) and isinstance(st.test, ast.Name) and st.test.id in self.task_vars and not st.orelse:
            inner = st.body
            while len(inner) == 1 and isinstance(inner[0], (ast.With, ast.AsyncWith)):
                inner = inner[0].body
            if len(inner) == 1 and isinstance(inner[0], ast.Expr) and isinstance(inner[0].value, ast.Await):
                self.ops.append("awaitTasks")
                return True
        return False


CANON_COND = ("self._timeout_override is not None and (self._timeout_filters is None or "
              "any((issubclass(cache.__class__, f) for f in self._timeout_filters)))")


def _canon(expr, cache_name):
    """normal form of the passthrough condition: parameter and comprehension variable renamed, equivalent spellings of
    the class test unified"""
    e = ast.parse(ast.unparse(expr), mode="eval").body
    gens = [g.target.id for n in ast.walk(e) if isinstance(n, (ast.GeneratorExp, ast.ListComp)) for g in n.generators
            if isinstance(g.target, ast.Name)]
    ren = {cache_name: "cache"}
    if gens:
        ren[gens[0]] = "f"
    for n in ast.walk(e):
        if isinstance(n, ast.Name) and n.id in ren:
            n.id = ren[n.id]
    txt = ast.unparse(e)
    txt = txt.replace("type(cache)", "cache.__class__").replace("isinstance(cache, f)", "issubclass(cache.__class__, f)")
    txt = txt.replace("any([", "any((").replace("])", "))")
    return txt


def check_delay_rule(sq, cls_node):
    """the delay handed to register_task must be: cache.timeout_delay, replaced by self._timeout_override exactly when
    CANON_COND holds (inline, or in a helper method that returns one or the other)"""
    cache = sq.params[1]
    name = sq.delay_local
    seen = set()
    while name not in seen:
        seen.add(name)
        d = sq.local_defs.get(name, [])
        if len(d) == 1 and isinstance(d[0], ast.Name) and d[0].id in sq.local_defs and name not in sq.cond_defs:
            name = d[0].id                                      # plain alias
            continue
        break
    defs, conds = sq.local_defs.get(name, []), sq.cond_defs.get(name, [])
    if len(defs) != 1:
        _fail(f"add: the local delay `{name}` is assigned {len(defs)} times")
    base = ast.unparse(defs[0])
    if base == f"{cache}.timeout_delay":
        if len(conds) != 1:
            _fail("add: expected exactly one conditional override of the delay")
        test, val = conds[0]
        if ast.unparse(val) != "self._timeout_override":
            _fail("add: the override value is not self._timeout_override")
        if _canon(test, cache) != CANON_COND:
            _fail("add: the passthrough condition differs from `override is not None and (filters is None or any("
                  "issubclass(cache.__class__, f) for f in filters))`: " + _canon(test, cache)[:160])
        return
    c = defs[0]
    if isinstance(c, ast.Call) and (_call_name(c.func) or "").startswith("self.") and not conds \
            and [ast.unparse(a) for a in c.args] == [cache] and not c.keywords:
        h = [f for f in cls_node.body if isinstance(f, ast.FunctionDef) and "self." + f.name == _call_name(c.func)]
        if len(h) == 1:
            hb = _strip_doc(h[0].body)
            hp = h[0].args.args[1].arg
            if len(hb) == 2 and isinstance(hb[0], ast.If) and not hb[0].orelse and len(hb[0].body) == 1 \
                    and isinstance(hb[0].body[0], ast.Return) and isinstance(hb[1], ast.Return) \
                    and ast.unparse(hb[0].body[0].value) == "self._timeout_override" \
                    and ast.unparse(hb[1].value) == f"{hp}.timeout_delay" and _canon(hb[0].test, hp) == CANON_COND:
                return
            # the inline block moved verbatim:  x = cache.timeout_delay; if COND: x = self._timeout_override; return x
            if len(hb) == 3 and isinstance(hb[0], ast.Assign) and len(hb[0].targets) == 1 \
                    and isinstance(hb[0].targets[0], ast.Name) and ast.unparse(hb[0].value) == f"{hp}.timeout_delay" \
                    and isinstance(hb[1], ast.If) and not hb[1].orelse and len(hb[1].body) == 1 \
                    and isinstance(hb[1].body[0], ast.Assign) and len(hb[1].body[0].targets) == 1 \
                    and ast.unparse(hb[1].body[0].targets[0]) == hb[0].targets[0].id \
                    and ast.unparse(hb[1].body[0].value) == "self._timeout_override" \
                    and _canon(hb[1].test, hp) == CANON_COND \
                    and isinstance(hb[2], ast.Return) and ast.unparse(hb[2].value) == hb[0].targets[0].id:
                return
    _fail("add: cannot recognise how the delay handed to register_task is computed: " + base[:120])


PRIMS = ["assertDelay", "shutdownGate", "dupGuard", "registerTask", "storeIdent", "resolveWaiter", "returnAdded",
         "popIdent", "cancelTask", "returnClaimed", "removeIdent", "callOnTimeout", "completeFutures",
         "cancelAllTasks", "clearIdents", "returnTasks", "setShutdown", "cancelRegisteredFutures", "awaitTasks",
         "superShutdown", "tableContains", "tableLookup", "raiseIfHas"]


def extract_ops(src: str) -> dict:
    tree = ast.parse(src)
    out = {}
    CLS_NODE[:] = [_find(tree.body, "RequestCache")]
    CREATE_ID_PARAMS[:] = [a.arg for a in _find(tree.body, "RequestCache", "_create_identifier").args.args[1:]]
    # names that a refactor may change: the identifier table attribute and the timeout method
    has = _find(tree.body, "RequestCache", "has")
    tabs = [c.comparators[0].attr for c in ast.walk(has) if isinstance(c, ast.Compare) and len(c.ops) == 1
            and isinstance(c.ops[0], ast.In) and _is_self_attr(c.comparators[0])]
    if not tabs:                                                # has() written through get(): look at get() instead
        g = _find(tree.body, "RequestCache", "get")
        tabs = [c.func.value.attr for c in ast.walk(g) if isinstance(c, ast.Call) and isinstance(c.func, ast.Attribute)
                and c.func.attr == "get" and _is_self_attr(c.func.value)]
    if len(set(tabs)) != 1:
        _fail("has()/get(): cannot tell which attribute holds the identifier table")
    TABLE_ATTR[0] = tabs[0]
    regs = [c for c in ast.walk(_find(tree.body, "RequestCache", "add")) if isinstance(c, ast.Call)
            and _call_name(c.func) == "self.register_task"]
    if len(regs) != 1 or len(regs[0].args) < 2 or not _is_self_attr(regs[0].args[1]):
        _fail("add(): expected exactly one self.register_task(cache, self.<timeout method>, cache, delay=…)")
    TIMEOUT_METHOD[0] = regs[0].args[1].attr
    PURE_HELPERS.clear()
    PURE_HELPERS.update(_pure_helpers(_find(tree.body, "RequestCache")) - {"self._create_identifier"})
    for m in ("add", "pop", "_on_timeout", "clear", "shutdown"):
        fn = _find(tree.body, "RequestCache", TIMEOUT_METHOD[0] if m == "_on_timeout" else m)
        sq = _Seq(m, fn)
        sq.walk(fn.body)
        out[m] = sq.ops
        if m == "add":
            check_delay_rule(sq, _find(tree.body, "RequestCache"))
        if m == "_on_timeout":
            out["_on_timeout_abort"] = sq.abort_ops
    cls_node = _find(tree.body, "RequestCache")
    ov = [f for f in cls_node.body if isinstance(f, ast.AsyncFunctionDef) and f.name == "shutdown_task_manager"]
    if ov:
        sq = _Seq("shutdown_task_manager", ov[0])
        sq.walk(ov[0].body)
        out["shutdown_task_manager"] = sq.ops
    else:
        out["shutdown_task_manager"] = ["superShutdown"]       # inherited unchanged from TaskManager
    if out["_on_timeout"].count("callOnTimeout") != 1:
        _fail("_on_timeout does not call cache.on_timeout() exactly once")
    return out


def extract_done_cb(src: str) -> bool:
    """taskmanager.py, register_task.done_cb: does the callback forget the name only if it still maps to this future?"""
    tree = ast.parse(src)
    reg = _find(tree.body, "TaskManager", "register_task")
    cbs = [n for n in ast.walk(reg) if isinstance(n, ast.FunctionDef) and n.name == "done_cb"]
    if len(cbs) != 1:
        _fail("register_task: expected exactly one nested done_cb")
    cb = cbs[0]
    fut = cb.args.args[0].arg

    def is_pop(st):
        if isinstance(st, ast.Delete) and len(st.targets) == 1 and ast.unparse(st.targets[0]) == "self._pending_tasks[name]":
            return True
        return (isinstance(st, ast.Expr) and isinstance(st.value, ast.Call)
                and _call_name(st.value.func) == "self._pending_tasks.pop" and st.value.args
                and isinstance(st.value.args[0], ast.Name) and st.value.args[0].id == "name")
    for st in _strip_doc(cb.body):
        if is_pop(st):
            return False
        if isinstance(st, ast.If) and not st.orelse and len(st.body) == 1 and is_pop(st.body[0]):
            t = st.test
            if (isinstance(t, ast.Compare) and len(t.ops) == 1 and isinstance(t.ops[0], ast.Is)
                    and isinstance(t.left, ast.Call) and _call_name(t.left.func) == "self._pending_tasks.get"
                    and isinstance(t.left.args[0], ast.Name) and t.left.args[0].id == "name"
                    and isinstance(t.comparators[0], ast.Name) and t.comparators[0].id == fut):
                return True
            _fail("done_cb: the guard of the name removal is not `self._pending_tasks.get(name…) is future`")
        if isinstance(st, ast.Try):
            break
    _fail("done_cb does not remove the name from _pending_tasks before reading the result")


def extract_lookup_ops(tree) -> dict:
    """has / get (str branch + class-form delegation) and the duplicate guard of NumberCache.__init__ as primitive lists:
       has  -> [tableContains]   `return self._create_identifier(number, prefix) in <table>`   (or `self.get(…) is not None`)
       get  -> [tableLookup]     `return <table>.get(self._create_identifier(number, prefix))`
       ctor -> [raiseIfHas]      `if request_cache.has(prefix, number): raise RuntimeError(…)` before the fields are set"""
    out = {}
    tab = "self." + TABLE_ATTR[0]

    def str_branch(fn, name):
        body = _strip_doc(fn.body)
        if len(body) == 2 and isinstance(body[0], ast.If) and not body[0].orelse \
                and ast.unparse(body[0].test) in ("isinstance(prefix, str)",) and isinstance(body[1], ast.Return) \
                and ast.unparse(body[1].value) == f"self.{name}(prefix.name, number)":
            return body[0].body
        if len(body) == 2 and isinstance(body[0], ast.If) and not body[0].orelse \
                and ast.unparse(body[0].test) == "not isinstance(prefix, str)" and len(body[0].body) == 1 \
                and isinstance(body[0].body[0], ast.Return) \
                and ast.unparse(body[0].body[0].value) == f"self.{name}(prefix.name, number)":
            return body[1:]
        _fail(f"{name}: expected the str branch plus the class-form delegation self.{name}(prefix.name, number)")

    def ident_call(node):
        sq = _Seq("has", _find(tree.body, "RequestCache", "has"))
        return sq.is_create_identifier(node)
    # has
    hb = _strip_doc(_find(tree.body, "RequestCache", "has").body)
    if len(hb) == 1 and isinstance(hb[0], ast.Return) and ast.unparse(hb[0].value) == "self.get(prefix, number) is not None":
        b = []                                                  # both forms through get(): membership all the same
        ok = True
    else:
        b = str_branch(_find(tree.body, "RequestCache", "has"), "has")
        ok = False
    if len(b) == 1 and isinstance(b[0], ast.Return):
        v = b[0].value
        if isinstance(v, ast.Compare) and len(v.ops) == 1 and isinstance(v.ops[0], ast.In) and ident_call(v.left) \
                and ast.unparse(v.comparators[0]) == tab:
            ok = True
        if ast.unparse(v) in ("self.get(prefix, number) is not None",):
            ok = True
    if not ok:
        _fail("has: the str branch is not a membership test of the identifier in the table")
    out["has"] = ["tableContains"]
    # get
    b = str_branch(_find(tree.body, "RequestCache", "get"), "get")
    ok = False
    if len(b) == 1 and isinstance(b[0], ast.Return):
        v = b[0].value
        if isinstance(v, ast.Call) and _call_name(v.func) == tab + ".get" and len(v.args) in (1, 2) and ident_call(v.args[0]) \
                and (len(v.args) == 1 or ast.unparse(v.args[1]) == "None"):
            ok = True
    if not ok:
        _fail("get: the str branch is not a lookup of the identifier in the table")
    out["get"] = ["tableLookup"]
    # NumberCache.__init__
    ctor = _find(tree.body, "NumberCache", "__init__")
    params = [a.arg for a in ctor.args.args]            # self, request_cache, prefix, number
    ops, fields = [], {}
    for st in _strip_doc(ctor.body):
        if isinstance(st, ast.Expr) and ast.unparse(st.value) == "super().__init__()":
            continue
        if isinstance(st, (ast.Assign, ast.AnnAssign)):
            tgt = st.targets[0] if isinstance(st, ast.Assign) else st.target
            if _is_self_attr(tgt):
                fields[tgt.attr] = ast.unparse(st.value)
                continue
        if isinstance(st, ast.If) and not st.orelse and isinstance(st.test, ast.Call) \
                and ast.unparse(st.test) == f"{params[1]}.has({params[2]}, {params[3]})" \
                and isinstance(st.body[-1], ast.Raise) and "RuntimeError" in ast.unparse(st.body[-1]):
            if "_prefix" in fields or "_number" in fields:
                _fail("NumberCache.__init__: the duplicate guard comes after the identity fields are set")
            ops.append("raiseIfHas")
            continue
        _fail("NumberCache.__init__: statement outside the translator's subset: " + ast.unparse(st)[:80])
    if fields.get("_prefix") != params[2] or fields.get("_number") != params[3] or fields.get("_managed_futures") != "[]":
        _fail("NumberCache.__init__: does not store prefix / number / an empty list of managed futures")
    out["ctor"] = ops
    return out


def translate():
    src = (vlib.REPO / "ipv8" / "requestcache.py").read_text()
    c = extract(src)
    c["doneCbGuarded"] = extract_done_cb((vlib.REPO / "ipv8" / "taskmanager.py").read_text())
    ops = extract_ops(src)
    ops.update(extract_lookup_ops(ast.parse(src)))
    c["ops"] = ops

    def lst(name):
        return "[" + ", ".join("." + o for o in ops[name]) + "]"
    sep = c["identSeparator"].replace("\\", "\\\\").replace('"', '\\"')
    lean = f"""/-
  GENERATED by tools/gen_rc.py from ipv8/requestcache.py — do not edit.
  Constants of the request cache that the model and the theorems are parameterised by.
-/
namespace Ipv8.C10.Gen

/-- `for _ in range({c['findTries']})` in RandomNumberCache.find_unclaimed_identifier -/
def findTries : Nat := {c['findTries']}
/-- `int(random() * {c['numberSpace']})` -/
def numberSpace : Nat := {c['numberSpace']}
/-- NumberCache.timeout_delay default, in milliseconds -/
def defaultDelayMs : Nat := {c['defaultDelayMs']}
/-- RequestCache.passthrough(timeout=…) default, in milliseconds -/
def passthroughDefaultMs : Nat := {c['passthroughDefaultMs']}
/-- RequestCache.add asserts `cache.timeout_delay > this` (milliseconds) -/
def minDelayExclusiveMs : Nat := {c['minDelayExclusiveMs']}
/-- separator of `_create_identifier`: f"{{prefix}}{sep}{{number}}" -/
def identSeparator : String := "{sep}"

/-- taskmanager.py `register_task.done_cb` forgets the name only if `_pending_tasks[name]` is still this future -/
def doneCbGuarded : Bool := {"true" if c["doneCbGuarded"] else "false"}

/-- primitive state operations the bodies of RequestCache.add / pop / _on_timeout / clear / shutdown are made of
    (their meaning is fixed in Ipv8/C10/Source.lean; logging, isinstance asserts and pure locals are not listed) -/
inductive Prim
  | {" | ".join(PRIMS)}
  deriving DecidableEq, Repr

/-- RequestCache.add, in source order -/
def addOps : List Prim := {lst("add")}
/-- RequestCache.pop (str branch), in source order -/
def popOps : List Prim := {lst("pop")}
/-- RequestCache._on_timeout, in source order -/
def onTimeoutOps : List Prim := {lst("_on_timeout")}
/-- what of RequestCache._on_timeout still runs when cache.on_timeout() raises (the `finally` blocks around the call) -/
def onTimeoutAbortOps : List Prim := {lst("_on_timeout_abort")}
/-- RequestCache.has (str branch) -/
def hasOps : List Prim := {lst("has")}
/-- RequestCache.get (str branch) -/
def getOps : List Prim := {lst("get")}
/-- NumberCache.__init__: what happens before the identity fields are stored -/
def ctorOps : List Prim := {lst("ctor")}
/-- RequestCache.clear, in source order -/
def clearOps : List Prim := {lst("clear")}
/-- RequestCache.shutdown_task_manager (the override; `[.superShutdown]` if the method is inherited unchanged) -/
def tmShutdownOps : List Prim := {lst("shutdown_task_manager")}
/-- RequestCache.shutdown, in source order -/
def shutdownOps : List Prim := {lst("shutdown")}

end Ipv8.C10.Gen
"""
    return lean, c


if __name__ == "__main__":
    print(translate()[0])
