"""
Translator (part of tools/gen_c02.py): bodies of to_pack_list / from_unpack_list / __init__ of every shipped payload class
-> the expression language of lean/Ipv8/C02/Code.lean (`ClassCode`).

  * hand-written (old-style) classes: Python AST of the three methods as defined in the class or inherited; `super().__init__`
    and `super().to_pack_list()` are inlined;
  * compiled VariablePayloads: the source text that vp_compile generated, read back from the live code objects
    (`code.co_filename` is that text), so what is translated is what runs.
Anything outside the subset documented in Code.lean raises TranslatorError.
"""
from __future__ import annotations

import ast
import inspect
import textwrap

from vlib import TranslatorError


def _src_of(func) -> ast.FunctionDef:
    f = getattr(func, "__func__", func)
    code = f.__code__
    src = code.co_filename if code.co_filename.lstrip().startswith("def ") else None
    if src is None:
        try:
            src = textwrap.dedent(inspect.getsource(f))
        except (OSError, TypeError) as e:
            raise TranslatorError(f"no source for {f.__qualname__}: {e}") from e
    tree = ast.parse(textwrap.dedent(src))
    fn = next((n for n in ast.walk(tree) if isinstance(n, ast.FunctionDef)), None)
    if fn is None:
        raise TranslatorError(f"no function definition in the source of {f.__qualname__}")
    return fn


def _body(fn: ast.FunctionDef):
    return [st for st in fn.body
            if not (isinstance(st, ast.Expr) and isinstance(st.value, ast.Constant) and isinstance(st.value.value, str))]


def _is_self_attr(e) -> str | None:
    if isinstance(e, ast.Attribute) and isinstance(e.value, ast.Name) and e.value.id == "self":
        return e.attr
    return None


def _defining_class(cls, name):
    for k in cls.__mro__:
        if name in k.__dict__:
            return k
    raise TranslatorError(f"{cls.__qualname__} has no {name}")


def _const_int(e):
    if isinstance(e, ast.Constant) and isinstance(e.value, bool):
        return 1 if e.value else 0
    if isinstance(e, ast.Constant) and isinstance(e.value, int):
        return e.value
    return None


class ClassTranslator:
    def __init__(self, cls, attrs: list[str] | None):
        self.cls = cls
        self.where = f"{cls.__module__}.{cls.__qualname__}"
        self.attrs = attrs

    def err(self, what, node=None):
        txt = ast.unparse(node)[:100] if node is not None else ""
        return TranslatorError(f"{self.where}: {what} {txt}")

    # ---- __init__ -----------------------------------------------------------------------------------------------
    def init_of(self, k) -> tuple[list[str], dict[str, tuple], dict[str, int]]:
        """-> (parameter names, {attr: expr over parameters}, {param: literal default})"""
        owner = _defining_class(k, "__init__")
        if owner is object or owner.__module__.endswith("serialization"):
            return [], {}, {}
        fn = _src_of(owner.__dict__["__init__"])
        params = [a.arg for a in fn.args.args][1:]
        defaults = {}
        for a, d in zip(reversed(fn.args.args), reversed(fn.args.defaults)):
            c = _const_int(d)
            if c is None:
                # compiled classes bind default OBJECTS: `a=defaults['a']`; no shipped class has one
                raise self.err("non-literal constructor default", d)
            defaults[a.arg] = c
        assigns: dict[str, tuple] = {}
        for st in _body(fn):
            if isinstance(st, ast.Expr) and isinstance(st.value, ast.Call):
                call = st.value
                f = call.func
                is_super = (isinstance(f, ast.Attribute) and f.attr == "__init__" and isinstance(f.value, ast.Call)
                            and isinstance(f.value.func, ast.Name) and f.value.func.id == "super")
                is_payload = (isinstance(f, ast.Attribute) and f.attr == "__init__" and isinstance(f.value, ast.Name)
                              and f.value.id == "Payload")
                if is_payload:
                    continue
                if not is_super or call.keywords:
                    raise self.err("unsupported call in __init__:", st)
                parent = owner.__mro__[owner.__mro__.index(owner) + 1]
                pparams, passigns, pdefaults = self.init_of(parent)
                if not pparams and not passigns:
                    if call.args:
                        raise self.err("arguments passed to a base __init__ without parameters:", st)
                    continue
                bound = {}
                for pn, arg in zip(pparams, call.args):
                    bound[pn] = self.iexpr(arg, params)
                for pn in pparams[len(call.args):]:
                    if pn not in pdefaults:
                        raise self.err(f"base constructor parameter {pn} neither passed nor defaulted:", st)
                    bound[pn] = ("nat", pdefaults[pn])
                for attr, e in passigns.items():
                    assigns[attr] = self.subst(e, pparams, bound)
                continue
            if isinstance(st, ast.Assign) and len(st.targets) == 1 and _is_self_attr(st.targets[0]):
                assigns[_is_self_attr(st.targets[0])] = self.iexpr(st.value, params)
                continue
            raise self.err("unsupported statement in __init__:", st)
        return params, assigns, defaults

    def iexpr(self, e, params):
        if isinstance(e, ast.Name) and e.id in params:
            return ("param", params.index(e.id))
        if isinstance(e, ast.BinOp) and isinstance(e.op, ast.Mod) and isinstance(e.left, ast.Name) and e.left.id in params \
                and _const_int(e.right) is not None:
            return ("modParam", params.index(e.left.id), _const_int(e.right))
        c = _const_int(e)
        if c is not None:
            return ("nat", c)
        raise self.err("unsupported expression in __init__:", e)

    @staticmethod
    def subst(e, pparams, bound):
        if e[0] == "param":
            return bound[pparams[e[1]]]
        if e[0] == "modParam":
            inner = bound[pparams[e[1]]]
            if inner[0] == "param":
                return ("modParam", inner[1], e[2])
            if inner[0] == "nat":
                return ("nat", inner[1] % e[2])
            raise TranslatorError("nested reduction in __init__")
        return e

    # ---- to_pack_list ---------------------------------------------------------------------------------------------
    def pack_of(self, k) -> list[tuple[str, list]]:
        owner = _defining_class(k, "to_pack_list")
        fn = _src_of(owner.__dict__["to_pack_list"])
        env: dict[str, tuple] = {}
        data_var = None
        entries: list = []
        for st in _body(fn):
            if isinstance(st, ast.Assign) and len(st.targets) == 1 and isinstance(st.targets[0], ast.Name):
                name, v = st.targets[0].id, st.value
                # data = super().to_pack_list()
                if (isinstance(v, ast.Call) and isinstance(v.func, ast.Attribute) and v.func.attr == "to_pack_list"
                        and isinstance(v.func.value, ast.Call) and isinstance(v.func.value.func, ast.Name)
                        and v.func.value.func.id == "super"):
                    parent = owner.__mro__[owner.__mro__.index(owner) + 1]
                    entries = self.pack_of(parent)
                    data_var = name
                    continue
                # x = encode_connection_type(self.attr)
                if isinstance(v, ast.Call) and isinstance(v.func, ast.Name) and v.func.id == "encode_connection_type" \
                        and len(v.args) == 1 and _is_self_attr(v.args[0]):
                    env[name] = ("conn", _is_self_attr(v.args[0]))
                    continue
                # x = [pack(">20sI", *t) for t in self.attr]
                if isinstance(v, ast.ListComp) and len(v.generators) == 1 and _is_self_attr(v.generators[0].iter) \
                        and isinstance(v.elt, ast.Call) and isinstance(v.elt.func, ast.Name) and v.elt.func.id == "pack" \
                        and len(v.elt.args) == 2 and isinstance(v.elt.args[0], ast.Constant) and v.elt.args[0].value == ">20sI" \
                        and isinstance(v.elt.args[1], ast.Starred):
                    env[name] = ("tbrecords", _is_self_attr(v.generators[0].iter))
                    continue
                raise self.err("unsupported assignment in to_pack_list:", st)
            # a, b = encode_connection_type(self.attr)
            if isinstance(st, ast.Assign) and len(st.targets) == 1 and isinstance(st.targets[0], ast.Tuple) \
                    and len(st.targets[0].elts) == 2 and all(isinstance(x, ast.Name) for x in st.targets[0].elts) \
                    and isinstance(st.value, ast.Call) and isinstance(st.value.func, ast.Name) \
                    and st.value.func.id == "encode_connection_type" and len(st.value.args) == 1 and _is_self_attr(st.value.args[0]):
                for k, x in enumerate(st.targets[0].elts):
                    env[x.id] = ("connbit", _is_self_attr(st.value.args[0]), k)
                continue
            if isinstance(st, ast.Expr) and isinstance(st.value, ast.Call) and isinstance(st.value.func, ast.Attribute) \
                    and st.value.func.attr == "insert" and isinstance(st.value.func.value, ast.Name) \
                    and st.value.func.value.id == data_var and len(st.value.args) == 2 and _const_int(st.value.args[0]) == 0:
                entries = [self.pentry(st.value.args[1], env)] + entries
                continue
            if isinstance(st, ast.Return):
                if isinstance(st.value, ast.Name) and st.value.id == data_var:
                    return entries
                if isinstance(st.value, ast.List):
                    return [self.pentry(t, env) for t in st.value.elts]
            raise self.err("unsupported statement in to_pack_list:", st)
        raise self.err("to_pack_list does not return")

    def pentry(self, t, env):
        if not (isinstance(t, ast.Tuple) and t.elts and isinstance(t.elts[0], ast.Constant) and isinstance(t.elts[0].value, str)):
            raise self.err("pack-list entry is not a (format, values…) tuple:", t)
        return (t.elts[0].value, [self.pexpr(a, env) for a in t.elts[1:]])

    def pexpr(self, e, env):
        a = _is_self_attr(e)
        if a is not None:
            return ("attr", a)
        c = _const_int(e)
        if c is not None:
            return ("nat", c)
        if isinstance(e, ast.Constant) and isinstance(e.value, bytes):
            return ("bytes", e.value)
        if isinstance(e, ast.Name) and env.get(e.id, ("",))[0] == "connbit":
            return ("connBit", env[e.id][1], env[e.id][2])
        if isinstance(e, ast.Subscript) and isinstance(e.value, ast.Name) and env.get(e.value.id, ("",))[0] == "conn" \
                and _const_int(e.slice) in (0, 1):
            return ("connBit", env[e.value.id][1], _const_int(e.slice))
        if isinstance(e, ast.Call) and isinstance(e.func, ast.Attribute) and e.func.attr == "join" \
                and isinstance(e.func.value, ast.Constant) and e.func.value.value == b"" and len(e.args) == 1:
            arg = e.args[0]
            if _is_self_attr(arg):
                return ("joinBytes", _is_self_attr(arg))
            if isinstance(arg, ast.Name) and env.get(arg.id, ("",))[0] == "tbrecords":
                return ("joinTb", env[arg.id][1])
        raise self.err("unsupported pack-list value:", e)

    # ---- from_unpack_list -------------------------------------------------------------------------------------------
    def unpack_of(self, k, ctor_params, ctor_defaults):
        owner = _defining_class(k, "from_unpack_list")
        fn = _src_of(owner.__dict__["from_unpack_list"])
        if fn.args.vararg or fn.args.kwarg:
            raise self.err("from_unpack_list takes *args")
        params = [a.arg for a in fn.args.args][1:]
        body = _body(fn)
        if len(body) != 1 or not isinstance(body[0], ast.Return) or not isinstance(body[0].value, ast.Call):
            raise self.err("from_unpack_list is not a single `return Class(…)`")
        call = body[0].value
        if not isinstance(call.func, ast.Name):
            raise self.err("unsupported constructor call in from_unpack_list:", call)
        built = k if call.func.id == "cls" else owner if call.func.id == owner.__name__ else None
        if built is None:
            raise self.err("from_unpack_list builds an unknown class:", call)
        args = [self.uexpr(a, params) for a in call.args]
        if call.keywords:       # keyword arguments are put at the position of the constructor parameter they name
            bparams = ctor_params if built is k else self.init_of(built)[0]
            bdefaults = ctor_defaults if built is k else self.init_of(built)[2]
            byname = {}
            for kw in call.keywords:
                if kw.arg is None or kw.arg not in bparams or bparams.index(kw.arg) < len(args):
                    raise self.err("unsupported keyword argument in from_unpack_list:", call)
                byname[kw.arg] = self.uexpr(kw.value, params)
            for pn in bparams[len(args):]:
                if pn in byname:
                    args.append(byname[pn])
                elif pn in bdefaults:
                    args.append(("nat", bdefaults[pn]))
                else:
                    raise self.err(f"constructor parameter {pn} not passed in from_unpack_list:", call)
        return params, args, built

    def uexpr(self, e, params):
        def p(n):
            return params.index(n.id) if isinstance(n, ast.Name) and n.id in params else None
        if p(e) is not None:
            return ("param", p(e))
        if isinstance(e, ast.Call) and isinstance(e.func, ast.Name) and e.func.id == "bool" and len(e.args) == 1 and p(e.args[0]) is not None:
            return ("truth", p(e.args[0]))
        if isinstance(e, ast.Subscript) and isinstance(e.value, ast.List) and ast.unparse(e.value) == "[True, False]" \
                and p(e.slice) is not None:
            return ("negTruth", p(e.slice))
        if isinstance(e, ast.Subscript) and isinstance(e.value, ast.List) and ast.unparse(e.value) == "[False, True]" \
                and p(e.slice) is not None:
            return ("truth", p(e.slice))
        if isinstance(e, ast.Call) and isinstance(e.func, ast.Name) and e.func.id == "decode_connection_type" and len(e.args) == 2 \
                and p(e.args[0]) is not None and p(e.args[1]) is not None:
            return ("decConn", p(e.args[0]), p(e.args[1]))
        if isinstance(e, ast.Subscript) and p(e.value) is not None and _const_int(e.slice) is not None:
            return ("index", p(e.value), _const_int(e.slice))
        if isinstance(e, ast.ListComp) and len(e.generators) == 1:
            g = e.generators[0]
            txt = ast.unparse(e).replace(" ", "")
            for name in params:
                for size in (20,):
                    if txt == f"[{name}[i:i+{size}]foriinrange(0,len({name}),{size})]":
                        return ("chunks", params.index(name), size)
                if txt == f"[({name}[i:i+20],unpack('>I',{name}[i+20:i+24])[0])foriinrange(0,len({name}),24)]":
                    return ("splitTb", params.index(name))
            del g
        raise self.err("unsupported constructor argument in from_unpack_list:", e)

    # ---- all together -------------------------------------------------------------------------------------------------
    def translate(self) -> dict:
        cparams, assigns, cdefaults = self.init_of(self.cls)
        attrs = self.attrs if self.attrs is not None else cparams
        if set(assigns) != set(attrs):
            raise self.err(f"__init__ assigns {sorted(assigns)} but the model lists {sorted(attrs)}")
        pack = []
        for fmt, args in self.pack_of(self.cls):
            out = []
            for a in args:
                if a[0] in ("attr", "joinBytes", "joinTb"):
                    if a[1] not in attrs:
                        raise self.err(f"to_pack_list reads the unknown attribute {a[1]}")
                    out.append((a[0], attrs.index(a[1])))
                elif a[0] == "connBit":
                    out.append(("connBit", attrs.index(a[1]), a[2]))
                else:
                    out.append(a)
            pack.append((fmt, out))
        uparams, uargs, built = self.unpack_of(self.cls, cparams, cdefaults)
        bparams, bassigns, bdefaults = (cparams, assigns, cdefaults) if built is self.cls else self.init_of(built)
        if len(uargs) > len(bparams):
            raise self.err("from_unpack_list passes more arguments than the constructor takes")
        for pn in bparams[len(uargs):]:
            if pn not in bdefaults:
                raise self.err(f"constructor parameter {pn} neither passed by from_unpack_list nor defaulted")
            uargs.append(("nat", bdefaults[pn]))
        battrs = attrs if built is self.cls else None
        if battrs is None:
            # decoded as another (base) class with the same attributes: frozen pair, see spec.decodes_as
            if set(bassigns) != set(attrs):
                raise self.err(f"from_unpack_list builds {built.__qualname__} whose attributes differ")
        return {"name": self.where, "attrs": attrs, "pack": pack, "unpackParams": len(uparams), "ctorArgs": uargs,
                "ctorParams": len(bparams), "init": [bassigns[a] for a in attrs],
                "built": f"{built.__module__}.{built.__qualname__}"}


def collect_code(payloads: list[dict], load_class, old_attr_order: dict) -> list[dict]:
    out = []
    for p in payloads:
        cls = load_class(p["name"])
        attrs = old_attr_order.get(p["name"]) if p["kind"] == "old" else list(p["names"])
        if p["kind"] == "old" and attrs is None:
            continue      # a hand-written class the model does not know: no code is emitted, the harness counts it
        out.append(ClassTranslator(cls, attrs).translate())
    return out


# ---- Lean rendering ---------------------------------------------------------------------------------------------------
def _bytes_lean(b: bytes) -> str:
    return "[" + ", ".join(str(x) for x in b) + "]"


def pexpr_lean(e) -> str:
    if e[0] == "bytes":
        return f".bytes {_bytes_lean(e[1])}"
    return "." + " ".join(str(x) for x in e)


def code_lean(c: dict, ident: str) -> str:
    import json
    pack = ", ".join("{ fmt := %s, args := [%s] }" % (json.dumps(f), ", ".join(pexpr_lean(a) for a in args)) for f, args in c["pack"])
    return (f"def {ident} : Code.ClassCode := {{\n"
            f"  name := {json.dumps(c['name'])},\n"
            f"  attrs := [{', '.join(json.dumps(a) for a in c['attrs'])}],\n"
            f"  pack := [{pack}],\n"
            f"  unpackParams := {c['unpackParams']},\n"
            f"  ctorArgs := [{', '.join(pexpr_lean(a) for a in c['ctorArgs'])}],\n"
            f"  ctorParams := {c['ctorParams']},\n"
            f"  init := [{', '.join(pexpr_lean(a) for a in c['init'])}] }}")
