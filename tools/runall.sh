#!/bin/bash
# run every claimed check: tools/runall.sh [quick|thorough] [seed]
cd "$(dirname "$0")/.."
tier="${1:-quick}"; seed="${2:-0}"
rc_all=0
for id in $(python3 -c "import json;print(' '.join(c['property_id'] for c in json.load(open('MANIFEST.json'))['checks']))"); do
  s=$(date +%s)
  VERIF_SEED=$seed ./check "$id" "$tier" > /tmp/runall_$id.log 2>&1; rc=$?
  e=$(( $(date +%s) - s ))
  echo "$id $tier seed=$seed rc=$rc ${e}s $(grep -c VIOLATION /tmp/runall_$id.log) violation-lines"
  [ $rc -ne 0 ] && { rc_all=1; tail -5 /tmp/runall_$id.log | sed 's/^/    /'; }
done
exit $rc_all
