"""
Translator for C06: the exit-policy decision code of ipv8/messaging/anonymization/exit_socket.py  ->  Lean.

What is translated (from the CURRENT working tree named by VERIF_REPO, on every run):
  * every @staticmethod of `DataChecker` (could_be_utp / could_be_udp_tracker / could_be_dht / could_be_bt / could_be_ipv8),
  * `TunnelExitSocket.is_allowed`,
  * the constants PEER_FLAG_* of tunnel.py and the `deque(maxlen=N)` bound of the exit socket's queue.

Subset (anything else raises vlib.TranslatorError):
  statements : docstring, `return e`, `if c: … [else: …]`, `x = e`, `a, b = unpack_from(…)`, `pass`, calls of `self.logger.*`
               (dropped), `try: <body that cannot raise> except …: pass` (transparent);
  expressions: int >= 0 / bytes / bool constants, names, `len(x)`, `bool(x)`, `unpack_from("!"|">" + B/H/I/Q…, buf[, off])`,
               `<tuple>[k]`, `buf[k]`, `buf[a:b]` with constant (possibly negative / missing) bounds, comparison chains
               (<, <=, >, >=, ==, !=, in / not in a list of bytes constants, FLAG in self.overlay.settings.peer_flags),
               and / or / not, >>, <<, &, |, +, `DataChecker.f(x)`, `self.overlay.get_prefix()`.
The target vocabulary is lean/Ipv8/C06/Py.lean (Option = "raised"; short-circuit and/or).
"""
from __future__ import annotations

import ast
import hashlib

from vlib import REPO, TranslatorError

SRC = "ipv8/messaging/anonymization/exit_socket.py"
TUNNEL = "ipv8/messaging/anonymization/tunnel.py"
WIDTH = {"B": 1, "H": 2, "I": 4, "L": 4, "Q": 8}


def err(node, msg):
    raise TranslatorError(f"{SRC}:{getattr(node, 'lineno', '?')}: {msg}")


def lean_bytes(b: bytes) -> str:
    return "[" + ", ".join(str(x) for x in b) + "]"


class Fn:
    def __init__(self, name: str, params: dict, consts: dict, funcs: set, is_method: bool):
        self.name = name
        self.env = dict(params)      # python name -> (lean name, type)
        self.consts = consts
        self.funcs = funcs
        self.is_method = is_method
        self.raising = 0             # number of primitives translated so far that can raise

    # ---- expressions ----------------------------------------------------------------------------
    def const_int(self, node):
        if isinstance(node, ast.Constant) and type(node.value) is int:
            return node.value
        if isinstance(node, ast.UnaryOp) and isinstance(node.op, ast.USub) and isinstance(node.operand, ast.Constant) \
                and type(node.operand.value) is int:
            return -node.operand.value
        err(node, "constant integer expected")

    def is_self_attr(self, node, path):
        cur = node
        for name in reversed(path):
            if not (isinstance(cur, ast.Attribute) and cur.attr == name):
                return False
            cur = cur.value
        return isinstance(cur, ast.Name) and cur.id == "self" and self.is_method

    def expr(self, n):
        if isinstance(n, ast.Constant):
            v = n.value
            if type(v) is bool:
                return f"(some {'true' if v else 'false'})", "bool"
            if type(v) is int and v >= 0:
                return f"(some {v})", "nat"
            if type(v) is bytes:
                return f"(some {lean_bytes(v)})", "bytes"
            err(n, f"constant {v!r} outside the subset")
        if isinstance(n, ast.Name):
            if n.id in self.env:
                ln, ty = self.env[n.id]
                return f"(some {ln})", ty
            if n.id in self.consts:
                return f"(some {n.id})", "nat"
            err(n, f"unknown name {n.id}")
        if isinstance(n, ast.Call):
            return self.call(n)
        if isinstance(n, ast.Compare):
            return self.compare(n)
        if isinstance(n, ast.BoolOp):
            parts = [self.typed(v, "bool") for v in n.values]
            f = "vAnd" if isinstance(n.op, ast.And) else "vOr"
            out = parts[-1]
            for p in reversed(parts[:-1]):
                out = f"({f} {p} {out})"
            return out, "bool"
        if isinstance(n, ast.UnaryOp) and isinstance(n.op, ast.Not):
            return f"(vNot {self.typed(n.operand, 'bool')})", "bool"
        if isinstance(n, ast.BinOp):
            ops = {ast.RShift: "vShr", ast.LShift: "vShl", ast.BitAnd: "vBand", ast.BitOr: "vBor", ast.Add: "vAdd"}
            if type(n.op) not in ops:
                err(n, f"operator {type(n.op).__name__} outside the subset")
            return f"({ops[type(n.op)]} {self.typed(n.left, 'nat')} {self.typed(n.right, 'nat')})", "nat"
        if isinstance(n, ast.Subscript):
            val, ty = self.expr(n.value)
            if ty == "bytes" and isinstance(n.slice, ast.Slice):
                if n.slice.step is not None:
                    err(n, "slice step")
                lo = "none" if n.slice.lower is None else f"(some ({self.const_int(n.slice.lower)} : Int))"
                hi = "none" if n.slice.upper is None else f"(some ({self.const_int(n.slice.upper)} : Int))"
                return f"(vSlice {val} {lo} {hi})", "bytes"
            k = self.const_int(n.slice) if not isinstance(n.slice, ast.Slice) else err(n, "slice of a non-bytes value")
            if k < 0:
                err(n, "negative index")
            if ty == "bytes":
                self.raising += 1
                return f"(vByteAt {val} {k})", "nat"
            if isinstance(ty, tuple) and ty[0] == "tuple":
                if k >= ty[1]:
                    err(n, "tuple index out of range")
                return f"(vIdx {val} {k})", "nat"
            err(n, f"subscript of a {ty} value")
        err(n, f"expression {type(n).__name__} outside the subset")

    def typed(self, n, want):
        s, ty = self.expr(n)
        if ty != want:
            err(n, f"expected a {want} expression, found {ty}")
        return s

    def call(self, n):
        f = n.func
        if n.keywords:
            err(n, "keyword arguments")
        if isinstance(f, ast.Name) and f.id == "len" and len(n.args) == 1:
            return f"(vLen {self.typed(n.args[0], 'bytes')})", "nat"
        if isinstance(f, ast.Name) and f.id == "bool" and len(n.args) == 1:
            return self.typed(n.args[0], "bool"), "bool"
        if isinstance(f, ast.Name) and f.id == "unpack_from" and len(n.args) in (2, 3):
            fmt = n.args[0]
            if not (isinstance(fmt, ast.Constant) and isinstance(fmt.value, str) and fmt.value[:1] in ("!", ">")):
                err(n, "unpack_from format must be a big-endian literal")
            ws = []
            for ch in fmt.value[1:]:
                if ch not in WIDTH:
                    err(n, f"format character {ch!r} outside the subset")
                ws.append(WIDTH[ch])
            off = self.const_int(n.args[2]) if len(n.args) == 3 else 0
            if off < 0:
                err(n, "negative offset")
            self.raising += 1
            return f"(vUnpack {ws} {self.typed(n.args[1], 'bytes')} {off})", ("tuple", len(ws))
        if isinstance(f, ast.Attribute) and isinstance(f.value, ast.Name) and f.value.id == "DataChecker" \
                and f.attr in self.funcs and len(n.args) == 1:
            a = n.args[0]
            if isinstance(a, ast.Name) and a.id in self.env and self.env[a.id][1] == "bytes":
                return f"({f.attr} {self.env[a.id][0]})", "bool"
            return f"(vLet1 {self.typed(a, 'bytes')} (fun t => {f.attr} t))", "bool"
        if self.is_self_attr(f, ["overlay", "get_prefix"]) and not n.args:
            return "(some pfx)", "bytes"
        err(n, "call outside the subset")

    def compare(self, n):
        operands = [n.left] + list(n.comparators)
        parts = []
        for lhs, op, rhs in zip(operands, n.ops, operands[1:]):
            if isinstance(op, (ast.In, ast.NotIn)):
                if self.is_self_attr(rhs, ["overlay", "settings", "peer_flags"]):
                    s = f"(vInN {self.typed(lhs, 'nat')} peer_flags)"
                elif isinstance(rhs, (ast.List, ast.Tuple)) and all(
                        isinstance(e, ast.Constant) and type(e.value) is bytes for e in rhs.elts):
                    s = f"(vInB {self.typed(lhs, 'bytes')} [{', '.join(lean_bytes(e.value) for e in rhs.elts)}])"
                else:
                    err(n, "`in` with this right operand is outside the subset")
                if isinstance(op, ast.NotIn):
                    s = f"(vNot {s})"
                parts.append(s)
                continue
            ls, lt = self.expr(lhs)
            rs, rt = self.expr(rhs)
            if lt != rt:
                err(n, f"comparison of {lt} with {rt}")
            if lt == "nat":
                tab = {ast.LtE: "vLe", ast.Lt: "vLt", ast.GtE: "vGe", ast.Gt: "vGt", ast.Eq: "vEqN", ast.NotEq: "vNeN"}
            elif lt == "bytes":
                tab = {ast.Eq: "vEqB", ast.NotEq: "vNeB"}
            else:
                err(n, f"comparison of {lt} values")
            if type(op) not in tab:
                err(n, f"comparison operator {type(op).__name__} on {lt}")
            parts.append(f"({tab[type(op)]} {ls} {rs})")
        out = parts[-1]
        for p in reversed(parts[:-1]):
            out = f"(vAnd {p} {out})"
        return out, "bool"

    # ---- statements -----------------------------------------------------------------------------
    def block(self, stmts, cont, ind):
        """Lean term (type V Bool) for: run `stmts`, then `cont` (None = falling off the end, which returns None)."""
        pad = "  " * ind
        if not stmts:
            if cont is None:
                raise TranslatorError(f"{SRC}: {self.name}: a path falls off the end of the function")
            return cont(ind)
        s, rest = stmts[0], stmts[1:]
        nxt = lambda i: self.block(rest, cont, i)  # noqa: E731
        if isinstance(s, ast.Expr) and isinstance(s.value, ast.Constant) and isinstance(s.value.value, str):
            return nxt(ind)
        if isinstance(s, ast.Pass):
            return nxt(ind)
        if isinstance(s, ast.Expr) and isinstance(s.value, ast.Call) and isinstance(s.value.func, ast.Attribute) \
                and self.is_self_attr(s.value.func.value, ["logger"]):
            return nxt(ind)
        if isinstance(s, ast.Return):
            if s.value is None:
                err(s, "bare return")
            return pad + self.typed(s.value, "bool")
        if isinstance(s, ast.If):
            c = self.typed(s.test, "bool")
            t = self.block(s.body, nxt, ind + 1)
            e = self.block(s.orelse, nxt, ind + 1) if s.orelse else nxt(ind + 1)
            return f"{pad}vIf {c}\n{pad}  (\n{t}\n{pad}  ) (\n{e}\n{pad}  )"
        if isinstance(s, ast.Assign) and len(s.targets) == 1:
            tgt = s.targets[0]
            if isinstance(tgt, ast.Name):
                v, ty = self.expr(s.value)
                if ty not in ("nat", "bytes", "bool"):
                    err(s, "assignment of a tuple to a single name")
                self.env[tgt.id] = (tgt.id, ty)
                return f"{pad}vLet1 {v} fun {tgt.id} =>\n{nxt(ind)}"
            if isinstance(tgt, ast.Tuple) and len(tgt.elts) == 2 and all(isinstance(e, ast.Name) for e in tgt.elts):
                v, ty = self.expr(s.value)
                if ty != ("tuple", 2):
                    err(s, "tuple assignment needs a 2-field unpack_from")
                a, b = tgt.elts[0].id, tgt.elts[1].id
                self.env[a] = (a, "nat")
                self.env[b] = (b, "nat")
                return f"{pad}vLet2 {v} fun {a} {b} =>\n{nxt(ind)}"
            err(s, "assignment target outside the subset")
        if isinstance(s, ast.Try):
            if s.orelse or s.finalbody or not all(
                    len(h.body) == 1 and isinstance(h.body[0], ast.Pass) for h in s.handlers):
                err(s, "try statement outside the subset")
            before = self.raising
            out = self.block(s.body, nxt, ind)
            # NB: `out` includes the continuation; raising primitives of the continuation would be counted too, which
            # only makes the check stricter.
            if self.raising != before:
                err(s, "try body (or what follows it) contains a primitive that can raise; exception flow is not translated")
            return out
        err(s, f"statement {type(s).__name__} outside the subset")


def module_consts(tree) -> dict:
    out = {}
    for s in tree.body:
        if isinstance(s, ast.Assign) and len(s.targets) == 1 and isinstance(s.targets[0], ast.Name) \
                and s.targets[0].id.startswith("PEER_FLAG_") and isinstance(s.value, ast.Constant) \
                and type(s.value.value) is int:
            out[s.targets[0].id] = s.value.value
    return out


def find_class(tree, name):
    for s in tree.body:
        if isinstance(s, ast.ClassDef) and s.name == name:
            return s
    raise TranslatorError(f"{SRC}: class {name} not found")


def queue_maxlen(cls) -> int:
    for f in cls.body:
        if isinstance(f, ast.FunctionDef) and f.name == "__init__":
            for n in ast.walk(f):
                if isinstance(n, ast.Call) and isinstance(n.func, ast.Name) and n.func.id == "deque":
                    for kw in n.keywords:
                        if kw.arg == "maxlen" and isinstance(kw.value, ast.Constant) and type(kw.value.value) is int:
                            return kw.value.value
                    raise TranslatorError(f"{SRC}:{n.lineno}: exit socket queue has no constant maxlen (unbounded queue)")
    raise TranslatorError(f"{SRC}: TunnelExitSocket.__init__ creates no deque")


def translate():
    src = (REPO / SRC).read_text()
    tree = ast.parse(src)
    consts = module_consts(ast.parse((REPO / TUNNEL).read_text()))
    for need in ("PEER_FLAG_RELAY", "PEER_FLAG_EXIT_BT", "PEER_FLAG_EXIT_IPV8"):
        if need not in consts:
            raise TranslatorError(f"{TUNNEL}: constant {need} not found")
    dc = find_class(tree, "DataChecker")
    sock = find_class(tree, "TunnelExitSocket")
    fns = [f for f in dc.body if isinstance(f, ast.FunctionDef)]
    names = set()
    out = []
    meta = {"functions": [], "consts": consts}
    for f in fns:
        if not any(isinstance(d, ast.Name) and d.id == "staticmethod" for d in f.decorator_list):
            err(f, f"DataChecker.{f.name} is not a staticmethod")
        if [a.arg for a in f.args.args] != ["data"]:
            err(f, f"DataChecker.{f.name}: unexpected parameters")
        t = Fn(f.name, {"data": ("data", "bytes")}, consts, set(names), False)
        body = t.block(f.body, None, 1)
        out.append(f"/-- exit_socket.py l.{f.lineno}: DataChecker.{f.name} -/\ndef {f.name} (data : Bytes) : V Bool :=\n{body}\n")
        names.add(f.name)
        meta["functions"].append(f.name)
    for need in ("could_be_utp", "could_be_udp_tracker", "could_be_dht", "could_be_bt", "could_be_ipv8"):
        if need not in names:
            raise TranslatorError(f"{SRC}: DataChecker.{need} not found")
    ia = [f for f in sock.body if isinstance(f, ast.FunctionDef) and f.name == "is_allowed"]
    if len(ia) != 1 or [a.arg for a in ia[0].args.args] != ["self", "data"]:
        raise TranslatorError(f"{SRC}: TunnelExitSocket.is_allowed(self, data) not found")
    t = Fn("is_allowed", {"data": ("data", "bytes")}, consts, set(names), True)
    body = t.block(ia[0].body, None, 1)
    out.append(f"/-- exit_socket.py l.{ia[0].lineno}: TunnelExitSocket.is_allowed; `peer_flags` = overlay.settings.peer_flags, "
               f"`pfx` = overlay.get_prefix() -/\n"
               f"def is_allowed (peer_flags : List Nat) (pfx : Bytes) (data : Bytes) : V Bool :=\n{body}\n")
    meta["functions"].append("is_allowed")
    maxlen = queue_maxlen(sock)
    meta["queue_maxlen"] = maxlen
    funcs_src = "".join(ast.get_source_segment(src, f) or "" for f in fns + ia)
    head = ("/-\n  GENERATED by tools/gen_exitpolicy.py from ipv8/messaging/anonymization/exit_socket.py and tunnel.py — do not edit.\n"
            f"  sha1 of the translated function sources: {hashlib.sha1(funcs_src.encode()).hexdigest()[:16]}\n-/\n"
            "import Ipv8.C06.Py\n\nnamespace Ipv8.C06.Gen\nopen Ipv8 Ipv8.C06.Py\n\n")
    cs = "".join(f"def {k} : Nat := {v}\n" for k, v in sorted(consts.items()))
    cs += f"/-- `deque(maxlen=…)` of TunnelExitSocket.queue -/\ndef QUEUE_MAXLEN : Nat := {maxlen}\n\n"
    return head + cs + "\n".join(out) + "\nend Ipv8.C06.Gen\n", meta


if __name__ == "__main__":
    print(translate()[0])
