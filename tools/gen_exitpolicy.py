"""
Translator for C06: the exit-policy decision code of ipv8/messaging/anonymization/exit_socket.py  ->  Lean.

What is translated (from the CURRENT working tree named by VERIF_REPO, on every run):
  * every @staticmethod of `DataChecker` (could_be_utp / could_be_udp_tracker / could_be_dht / could_be_bt / could_be_ipv8),
  * `TunnelExitSocket.is_allowed`,
  * the constants PEER_FLAG_* of tunnel.py and the `deque(maxlen=N)` bound of the exit socket's queue.

Subset (anything else raises vlib.TranslatorError):
  statements : docstring, `return e`, `if c: … [else: …]`, `x = e`, `a, b = unpack_from(…)`, `pass`, calls of `self.logger.*`
               (dropped), `try: <body that cannot raise> except …: pass` (transparent);
  expressions: int >= 0 / bytes / bool constants, names, `len(x)`, `bool(x)`, `unpack_from("!"|">" + B/H/I/Q…, buf[, off])`,
               `<tuple>[k]`, `buf[k]`, `buf[a:b]` with constant (possibly negative / missing) bounds, comparison chains
               (<, <=, >, >=, ==, !=, in / not in a list of bytes constants, FLAG in self.overlay.settings.peer_flags),
               and / or / not, >>, <<, &, |, +, `DataChecker.f(x)`, `self.overlay.get_prefix()`.
The target vocabulary is lean/Ipv8/C06/Py.lean (Option = "raised"; short-circuit and/or).
"""
from __future__ import annotations

import ast
import hashlib

from vlib import REPO, TranslatorError

SRC = "ipv8/messaging/anonymization/exit_socket.py"
TUNNEL = "ipv8/messaging/anonymization/tunnel.py"
WIDTH = {"B": 1, "H": 2, "I": 4, "L": 4, "Q": 8}


def err(node, msg):
    raise TranslatorError(f"{SRC}:{getattr(node, 'lineno', '?')}: {msg}")


def lean_bytes(b: bytes) -> str:
    return "[" + ", ".join(str(x) for x in b) + "]"


class Fn:
    def __init__(self, name: str, params: dict, consts: dict, funcs: set, is_method: bool):
        self.name = name
        self.env = dict(params)      # python name -> (lean name, type)
        self.consts = consts
        self.funcs = funcs
        self.is_method = is_method
        self.raising = 0             # number of primitives translated so far that can raise

    # ---- expressions ----------------------------------------------------------------------------
    def const_int(self, node):
        if isinstance(node, ast.Name) and node.id in getattr(self, "int_consts", {}) and node.id not in self.env:
            return self.int_consts[node.id]
        if isinstance(node, ast.Constant) and type(node.value) is int:
            return node.value
        if isinstance(node, ast.UnaryOp) and isinstance(node.op, ast.USub) and isinstance(node.operand, ast.Constant) \
                and type(node.operand.value) is int:
            return -node.operand.value
        err(node, "constant integer expected")

    def is_self_attr(self, node, path):
        cur = node
        for name in reversed(path):
            if not (isinstance(cur, ast.Attribute) and cur.attr == name):
                return False
            cur = cur.value
        return isinstance(cur, ast.Name) and cur.id == "self" and self.is_method

    def expr(self, n):
        if isinstance(n, ast.Constant):
            v = n.value
            if type(v) is bool:
                return f"(some {'true' if v else 'false'})", "bool"
            if type(v) is int and v >= 0:
                return f"(some {v})", "nat"
            if type(v) is bytes:
                return f"(some {lean_bytes(v)})", "bytes"
            err(n, f"constant {v!r} outside the subset")
        if isinstance(n, ast.Name):
            if n.id in getattr(self, "pure_locals", {}):
                return self.pure_locals[n.id]                        # a local bound to an expression that cannot raise
            if n.id in self.env:
                ln, ty = self.env[n.id]
                return f"(some {ln})", ty
            if n.id in self.consts:
                return f"(some {n.id})", "nat"
            if n.id in getattr(self, "int_consts", {}) and self.int_consts[n.id] >= 0:
                return f"(some {self.int_consts[n.id]})", "nat"          # module-level named constant = its literal value
            err(n, f"unknown name {n.id}")
        if isinstance(n, ast.Call):
            return self.call(n)
        if isinstance(n, ast.Compare):
            return self.compare(n)
        if isinstance(n, ast.BoolOp):
            parts = [self.typed(v, "bool") for v in n.values]
            f = "vAnd" if isinstance(n.op, ast.And) else "vOr"
            out = parts[-1]
            for p in reversed(parts[:-1]):
                out = f"({f} {p} {out})"
            return out, "bool"
        if isinstance(n, ast.UnaryOp) and isinstance(n.op, ast.Not):
            return f"(vNot {self.typed(n.operand, 'bool')})", "bool"
        if isinstance(n, ast.BinOp):
            ops = {ast.RShift: "vShr", ast.LShift: "vShl", ast.BitAnd: "vBand", ast.BitOr: "vBor", ast.Add: "vAdd"}
            if type(n.op) not in ops:
                err(n, f"operator {type(n.op).__name__} outside the subset")
            return f"({ops[type(n.op)]} {self.typed(n.left, 'nat')} {self.typed(n.right, 'nat')})", "nat"
        if isinstance(n, ast.Subscript):
            val, ty = self.expr(n.value)
            if ty == "bytes" and isinstance(n.slice, ast.Slice):
                if n.slice.step is not None:
                    err(n, "slice step")
                lo = "none" if n.slice.lower is None else f"(some ({self.const_int(n.slice.lower)} : Int))"
                hi = "none" if n.slice.upper is None else f"(some ({self.const_int(n.slice.upper)} : Int))"
                return f"(vSlice {val} {lo} {hi})", "bytes"
            k = self.const_int(n.slice) if not isinstance(n.slice, ast.Slice) else err(n, "slice of a non-bytes value")
            if k < 0:
                err(n, "negative index")
            if ty == "bytes":
                self.raising += 1
                return f"(vByteAt {val} {k})", "nat"
            if isinstance(ty, tuple) and ty[0] == "tuple":
                if k >= ty[1]:
                    err(n, "tuple index out of range")
                return f"(vIdx {val} {k})", "nat"
            err(n, f"subscript of a {ty} value")
        err(n, f"expression {type(n).__name__} outside the subset")

    def typed(self, n, want):
        s, ty = self.expr(n)
        if ty != want:
            err(n, f"expected a {want} expression, found {ty}")
        return s

    def call(self, n):
        f = n.func
        if n.keywords:
            err(n, "keyword arguments")
        if isinstance(f, ast.Name) and f.id == "len" and len(n.args) == 1:
            return f"(vLen {self.typed(n.args[0], 'bytes')})", "nat"
        if isinstance(f, ast.Name) and f.id in ("any", "all") and len(n.args) == 1 \
                and isinstance(n.args[0], (ast.GeneratorExp, ast.ListComp)) and len(n.args[0].generators) == 1:
            g = n.args[0].generators[0]
            it = g.iter
            fns_ = None
            if isinstance(it, ast.Name) and it.id in getattr(self, "checker_tuples", {}):
                fns_ = self.checker_tuples[it.id]
            elif isinstance(it, (ast.Tuple, ast.List)) and it.elts and all(
                    isinstance(e, ast.Attribute) and isinstance(e.value, ast.Name) and e.value.id == "DataChecker"
                    and e.attr in self.funcs for e in it.elts):
                fns_ = [e.attr for e in it.elts]
            elt = n.args[0].elt
            if fns_ and not g.ifs and not g.is_async and isinstance(g.target, ast.Name) and isinstance(elt, ast.Call) \
                    and isinstance(elt.func, ast.Name) and elt.func.id == g.target.id and not elt.keywords and len(elt.args) == 1 \
                    and isinstance(elt.args[0], ast.Name) and self.env.get(elt.args[0].id, (None, None))[1] == "bytes":
                # any(c(x) for c in (f1, f2, …)) evaluates f1(x), f2(x), … in order and stops at the first true one: the or-chain
                arg = self.env[elt.args[0].id][0]
                op = "vOr" if f.id == "any" else "vAnd"
                out = f"({fns_[-1]} {arg})"
                for fn_ in reversed(fns_[:-1]):
                    out = f"({op} ({fn_} {arg}) {out})"
                return out, "bool"
            err(n, f"{f.id}() over this iterable is outside the subset")
        if isinstance(f, ast.Name) and f.id == "bool" and len(n.args) == 1:
            return self.typed(n.args[0], "bool"), "bool"
        if isinstance(f, ast.Name) and f.id == "unpack_from" and len(n.args) in (2, 3):
            fmt = n.args[0]
            if not (isinstance(fmt, ast.Constant) and isinstance(fmt.value, str) and fmt.value[:1] in ("!", ">")):
                err(n, "unpack_from format must be a big-endian literal")
            ws = []
            for ch in fmt.value[1:]:
                if ch not in WIDTH:
                    err(n, f"format character {ch!r} outside the subset")
                ws.append(WIDTH[ch])
            off = self.const_int(n.args[2]) if len(n.args) == 3 else 0
            if off < 0:
                err(n, "negative offset")
            self.raising += 1
            return f"(vUnpack {ws} {self.typed(n.args[1], 'bytes')} {off})", ("tuple", len(ws))
        if isinstance(f, ast.Attribute) and isinstance(f.value, ast.Name) and f.value.id == "DataChecker" \
                and f.attr in self.funcs and len(n.args) == 1:
            a = n.args[0]
            if isinstance(a, ast.Name) and a.id in self.env and self.env[a.id][1] == "bytes":
                return f"({f.attr} {self.env[a.id][0]})", "bool"
            return f"(vLet1 {self.typed(a, 'bytes')} (fun t => {f.attr} t))", "bool"
        if self.is_self_attr(f, ["overlay", "get_prefix"]) and not n.args:
            return "(some pfx)", "bytes"
        err(n, "call outside the subset")

    def compare(self, n):
        operands = [n.left] + list(n.comparators)
        parts = []
        for lhs, op, rhs in zip(operands, n.ops, operands[1:]):
            if isinstance(op, (ast.In, ast.NotIn)):
                if self.is_self_attr(rhs, ["overlay", "settings", "peer_flags"]) or \
                        (isinstance(rhs, ast.Name) and self.env.get(rhs.id, (None, None))[1] == "flags"):
                    s = f"(vInN {self.typed(lhs, 'nat')} peer_flags)"
                elif isinstance(rhs, (ast.List, ast.Tuple)) and all(
                        isinstance(e, ast.Constant) and type(e.value) is bytes for e in rhs.elts):
                    s = f"(vInB {self.typed(lhs, 'bytes')} [{', '.join(lean_bytes(e.value) for e in rhs.elts)}])"
                else:
                    err(n, "`in` with this right operand is outside the subset")
                if isinstance(op, ast.NotIn):
                    s = f"(vNot {s})"
                parts.append(s)
                continue
            ls, lt = self.expr(lhs)
            rs, rt = self.expr(rhs)
            if lt != rt:
                err(n, f"comparison of {lt} with {rt}")
            if lt == "nat":
                tab = {ast.LtE: "vLe", ast.Lt: "vLt", ast.GtE: "vGe", ast.Gt: "vGt", ast.Eq: "vEqN", ast.NotEq: "vNeN"}
            elif lt == "bytes":
                tab = {ast.Eq: "vEqB", ast.NotEq: "vNeB"}
            else:
                err(n, f"comparison of {lt} values")
            if type(op) not in tab:
                err(n, f"comparison operator {type(op).__name__} on {lt}")
            parts.append(f"({tab[type(op)]} {ls} {rs})")
        out = parts[-1]
        for p in reversed(parts[:-1]):
            out = f"(vAnd {p} {out})"
        return out, "bool"

    # ---- statements -----------------------------------------------------------------------------
    def block(self, stmts, cont, ind):
        """Lean term (type V Bool) for: run `stmts`, then `cont` (None = falling off the end, which returns None)."""
        pad = "  " * ind
        if not stmts:
            if cont is None:
                raise TranslatorError(f"{SRC}: {self.name}: a path falls off the end of the function")
            return cont(ind)
        s, rest = stmts[0], stmts[1:]
        nxt = lambda i: self.block(rest, cont, i)  # noqa: E731
        if isinstance(s, ast.Expr) and isinstance(s.value, ast.Constant) and isinstance(s.value.value, str):
            return nxt(ind)
        if isinstance(s, ast.Pass):
            return nxt(ind)
        if isinstance(s, ast.Expr) and isinstance(s.value, ast.Call) and isinstance(s.value.func, ast.Attribute) \
                and self.is_self_attr(s.value.func.value, ["logger"]):
            return nxt(ind)
        if isinstance(s, ast.Return):
            if s.value is None:
                err(s, "bare return")
            return pad + self.typed(s.value, "bool")
        if isinstance(s, ast.If):
            c = self.typed(s.test, "bool")
            t = self.block(s.body, nxt, ind + 1)
            e = self.block(s.orelse, nxt, ind + 1) if s.orelse else nxt(ind + 1)
            return f"{pad}vIf {c}\n{pad}  (\n{t}\n{pad}  ) (\n{e}\n{pad}  )"
        if isinstance(s, ast.Assign) and len(s.targets) == 1:
            tgt = s.targets[0]
            if isinstance(tgt, ast.Name) and self.is_self_attr(s.value, ["overlay", "settings", "peer_flags"]):
                self.env[tgt.id] = ("peer_flags", "flags")          # local alias of the configured flag set
                return nxt(ind)
            if isinstance(tgt, ast.Name) and isinstance(s.value, (ast.Tuple, ast.List)) and s.value.elts and all(
                    isinstance(e, ast.Attribute) and isinstance(e.value, ast.Name) and e.value.id == "DataChecker"
                    and e.attr in self.funcs for e in s.value.elts):
                if not hasattr(self, "checker_tuples"):
                    self.checker_tuples = {}
                self.checker_tuples[tgt.id] = [e.attr for e in s.value.elts]     # a local tuple of classifier functions
                return nxt(ind)
            if isinstance(tgt, ast.Name):
                before = self.raising
                v, ty = self.expr(s.value)
                if ty not in ("nat", "bytes", "bool"):
                    err(s, "assignment of a tuple to a single name")
                assigned_once = sum(1 for x in ast.walk(self.fn_node) if isinstance(x, ast.Name) and x.id == tgt.id
                                    and isinstance(x.ctx, ast.Store)) == 1 if getattr(self, "fn_node", None) is not None else False
                operands_stable = all(sum(1 for y in ast.walk(self.fn_node) if isinstance(y, ast.Name) and y.id == x.id
                                          and isinstance(y.ctx, ast.Store)) <= 1
                                      for x in ast.walk(s.value) if isinstance(x, ast.Name)) if assigned_once else False
                if self.raising == before and "could_be_" not in v and assigned_once and operands_stable and tgt.id not in self.env:
                    # pure (no unpack / index / classifier call inside, so it cannot raise and has no effect): using the name
                    # means the expression; evaluating it earlier or more often changes nothing
                    if not hasattr(self, "pure_locals"):
                        self.pure_locals = {}
                    self.pure_locals[tgt.id] = (v, ty)
                    return nxt(ind)
                self.env[tgt.id] = (tgt.id, ty)
                return f"{pad}vLet1 {v} fun {tgt.id} =>\n{nxt(ind)}"
            if isinstance(tgt, ast.Tuple) and len(tgt.elts) == 2 and all(isinstance(e, ast.Name) for e in tgt.elts):
                v, ty = self.expr(s.value)
                if ty != ("tuple", 2):
                    err(s, "tuple assignment needs a 2-field unpack_from")
                a, b = tgt.elts[0].id, tgt.elts[1].id
                self.env[a] = (a, "nat")
                self.env[b] = (b, "nat")
                return f"{pad}vLet2 {v} fun {a} {b} =>\n{nxt(ind)}"
            err(s, "assignment target outside the subset")
        if isinstance(s, ast.Try):
            if s.orelse or s.finalbody or not all(
                    len(h.body) == 1 and isinstance(h.body[0], ast.Pass) for h in s.handlers):
                err(s, "try statement outside the subset")
            before = self.raising
            out = self.block(s.body, nxt, ind)
            # NB: `out` includes the continuation; raising primitives of the continuation would be counted too, which
            # only makes the check stricter.
            if self.raising != before:
                err(s, "try body (or what follows it) contains a primitive that can raise; exception flow is not translated")
            return out
        err(s, f"statement {type(s).__name__} outside the subset")


def module_consts(tree) -> dict:
    out = {}
    for s in tree.body:
        if isinstance(s, ast.Assign) and len(s.targets) == 1 and isinstance(s.targets[0], ast.Name) \
                and s.targets[0].id.startswith("PEER_FLAG_") and isinstance(s.value, ast.Constant) \
                and type(s.value.value) is int:
            out[s.targets[0].id] = s.value.value
    return out


def module_int_consts(tree) -> dict:
    """module-level names bound exactly once (in the whole module) to an integer literal or to +,-,* of such names/literals:
    a use of the name means the literal value"""
    stores = {}
    for n in ast.walk(tree):
        if isinstance(n, ast.Name) and isinstance(n.ctx, (ast.Store, ast.Del)):
            stores[n.id] = stores.get(n.id, 0) + 1
        if isinstance(n, (ast.Global, ast.Nonlocal)):
            for nm in n.names:
                stores[nm] = stores.get(nm, 0) + 2
    out = {}

    def ev(e):
        if isinstance(e, ast.Constant) and type(e.value) is int:
            return e.value
        if isinstance(e, ast.Name) and e.id in out:
            return out[e.id]
        if isinstance(e, ast.BinOp) and isinstance(e.op, (ast.Add, ast.Sub, ast.Mult)):
            a, b = ev(e.left), ev(e.right)
            if a is None or b is None:
                return None
            return a + b if isinstance(e.op, ast.Add) else a - b if isinstance(e.op, ast.Sub) else a * b
        return None
    for st in tree.body:
        tgt = val = None
        if isinstance(st, ast.Assign) and len(st.targets) == 1 and isinstance(st.targets[0], ast.Name):
            tgt, val = st.targets[0].id, st.value
        elif isinstance(st, ast.AnnAssign) and isinstance(st.target, ast.Name) and st.value is not None:
            tgt, val = st.target.id, st.value
        if tgt is not None and stores.get(tgt) == 1:
            v = ev(val)
            if v is not None:
                out[tgt] = v
    return out


def find_class(tree, name):
    for s in tree.body:
        if isinstance(s, ast.ClassDef) and s.name == name:
            return s
    raise TranslatorError(f"{SRC}: class {name} not found")


def queue_maxlen(cls) -> int:
    for f in cls.body:
        if isinstance(f, ast.FunctionDef) and f.name == "__init__":
            for n in ast.walk(f):
                if isinstance(n, ast.Call) and isinstance(n.func, ast.Name) and n.func.id == "deque":
                    for kw in n.keywords:
                        if kw.arg == "maxlen" and isinstance(kw.value, ast.Constant) and type(kw.value.value) is int:
                            return kw.value.value
                    raise TranslatorError(f"{SRC}:{n.lineno}: exit socket queue has no constant maxlen (unbounded queue)")
    raise TranslatorError(f"{SRC}: TunnelExitSocket.__init__ creates no deque")


def translate():
    src = (REPO / SRC).read_text()
    tree = ast.parse(src)
    consts = module_consts(ast.parse((REPO / TUNNEL).read_text()))
    for need in ("PEER_FLAG_RELAY", "PEER_FLAG_EXIT_BT", "PEER_FLAG_EXIT_IPV8"):
        if need not in consts:
            raise TranslatorError(f"{TUNNEL}: constant {need} not found")
    dc = find_class(tree, "DataChecker")
    sock = find_class(tree, "TunnelExitSocket")
    int_consts = module_int_consts(tree)
    fns = [f for f in dc.body if isinstance(f, ast.FunctionDef)]
    names = set()
    out = []
    meta = {"functions": [], "consts": consts}
    for f in fns:
        if not any(isinstance(d, ast.Name) and d.id == "staticmethod" for d in f.decorator_list):
            err(f, f"DataChecker.{f.name} is not a staticmethod")
        if [a.arg for a in f.args.args] != ["data"]:
            err(f, f"DataChecker.{f.name}: unexpected parameters")
        t = Fn(f.name, {"data": ("data", "bytes")}, consts, set(names), False)
        t.int_consts = int_consts
        t.fn_node = f
        body = t.block(f.body, None, 1)
        out.append(f"/-- exit_socket.py l.{f.lineno}: DataChecker.{f.name} -/\ndef {f.name} (data : Bytes) : V Bool :=\n{body}\n")
        names.add(f.name)
        meta["functions"].append(f.name)
    for need in ("could_be_utp", "could_be_udp_tracker", "could_be_dht", "could_be_bt", "could_be_ipv8"):
        if need not in names:
            raise TranslatorError(f"{SRC}: DataChecker.{need} not found")
    ia = [f for f in sock.body if isinstance(f, ast.FunctionDef) and f.name == "is_allowed"]
    if len(ia) != 1 or [a.arg for a in ia[0].args.args] != ["self", "data"]:
        raise TranslatorError(f"{SRC}: TunnelExitSocket.is_allowed(self, data) not found")
    t = Fn("is_allowed", {"data": ("data", "bytes")}, consts, set(names), True)
    t.int_consts = int_consts
    t.fn_node = ia[0]
    body = t.block(ia[0].body, None, 1)
    out.append(f"/-- exit_socket.py l.{ia[0].lineno}: TunnelExitSocket.is_allowed; `peer_flags` = overlay.settings.peer_flags, "
               f"`pfx` = overlay.get_prefix() -/\n"
               f"def is_allowed (peer_flags : List Nat) (pfx : Bytes) (data : Bytes) : V Bool :=\n{body}\n")
    meta["functions"].append("is_allowed")
    maxlen = queue_maxlen(sock)
    meta["queue_maxlen"] = maxlen
    funcs_src = "".join(ast.get_source_segment(src, f) or "" for f in fns + ia)
    head = ("/-\n  GENERATED by tools/gen_exitpolicy.py from ipv8/messaging/anonymization/exit_socket.py and tunnel.py — do not edit.\n"
            f"  sha1 of the translated function sources: {hashlib.sha1(funcs_src.encode()).hexdigest()[:16]}\n-/\n"
            "import Ipv8.C06.Py\n\nnamespace Ipv8.C06.Gen\nopen Ipv8 Ipv8.C06.Py\n\n")
    cs = "".join(f"def {k} : Nat := {v}\n" for k, v in sorted(consts.items()))
    cs += f"/-- `deque(maxlen=…)` of TunnelExitSocket.queue -/\ndef QUEUE_MAXLEN : Nat := {maxlen}\n\n"
    return head + cs + "\n".join(out) + "\nend Ipv8.C06.Gen\n", meta


if __name__ == "__main__":
    print(translate()[0])


# =====================================================================================================================
# Part 2 — the emission paths as decision trees (lean/Ipv8/C06/IR.lean):  TunnelExitSocket.sendto / datagram_received /
# tunnel_data, TunnelCommunity.exit_data and the dispatch tail of TunnelCommunity.on_data  ->  GenPaths.lean
#
# Recognition is by the canonical text (ast.unparse) of small expressions after substituting local aliases
# (`exit_socket = self.exit_sockets[circuit_id]`, `destination = payload.dest_address`, …), so renamed locals, extracted
# aliases, reordered conjuncts, `not`/`!=`/`else` re-arrangements and re-ordered independent tests translate to an
# equivalent tree or to a different tree that still passes the safety check proved sound in Lemmas.lean.
# =====================================================================================================================
COMM = "ipv8/messaging/anonymization/community.py"
NULL_TXT = "('0.0.0.0', 0)"


class _Subst(ast.NodeTransformer):
    def __init__(self, aliases):
        self.aliases = aliases

    def visit_Name(self, node):
        if isinstance(node.ctx, ast.Load) and node.id in self.aliases:
            return ast.parse(self.aliases[node.id], mode="eval").body
        return node


class PathFn:
    """translate one method body into a Prog tree: ('done',) | ('act', name, k) | ('ite', atom, t, e)"""

    def __init__(self, file, name, atoms, acts, skip_calls=(), aliasable=(), opaque_if=None):
        self.file, self.name = file, name
        self.atoms = atoms            # canonical text -> Cond constructor
        self.acts = acts              # canonical text -> Act constructor
        self.skip_calls = skip_calls  # canonical text prefixes of statements that are dropped
        self.aliasable = aliasable    # predicates on canonical text: `x = <text>` becomes an alias
        self.aliases = {}
        self.callbacks = {}           # local function name -> validated as "re-enters self.sendto"
        self.tasks = set()            # local names bound to ensure_future(self.resolve(destination))
        self.transport_names = set()  # local names bound to the family-selected transport
        self.opaque_if = opaque_if    # (atom, act): an `if <atom>:` whose body is replaced by one hand-modelled action
        self.facts = {}
        self.int_consts = {}          # module-level named integer constants of the file (resolved to their literal value)
        self.cls = None               # ClassDef the method lives in: private helpers called once are inlined
        self.call_counts = {}         # helper name -> number of call sites in the scanned files
        self.ret_stack = []           # continuations of the calls being inlined (`return` in a helper returns to the caller)
        self.inlined = []

    def err(self, node, msg):
        raise TranslatorError(f"{self.file}:{getattr(node, 'lineno', '?')}: {self.name}: {msg}")

    def canon(self, node) -> str:
        import copy
        al = dict({k: str(v) for k, v in self.int_consts.items() if k not in self.aliases}, **self.aliases)
        n = _Subst(al).visit(copy.deepcopy(node))
        return ast.unparse(ast.fix_missing_locations(n))

    def try_inline(self, call, nxt):
        """`self._helper(a, b, …)` as a statement: a method of the same class, called from exactly one place, positional
        arguments only, no defaults/varargs/decorators -> its body is translated in place with its parameters bound to the
        canonical texts of the arguments; a `return` inside it continues after the call"""
        f = call.func
        if not (isinstance(f, ast.Attribute) and isinstance(f.value, ast.Name) and f.value.id == "self" and self.cls is not None):
            return None
        cands = [m for m in self.cls.body if isinstance(m, ast.FunctionDef) and m.name == f.attr]
        if len(cands) != 1 or call.keywords or self.call_counts.get(f.attr) != 1 or f.attr == self.name:
            return None
        m = cands[0]
        a = m.args
        if m.decorator_list or a.vararg or a.kwarg or a.kwonlyargs or a.defaults or a.posonlyargs \
                or len(a.args) != len(call.args) + 1 or a.args[0].arg != "self" or len(self.ret_stack) > 2:
            return None
        saved = (dict(self.aliases), set(self.transport_names))
        bound = {p.arg: self.canon(arg) for p, arg in zip(a.args[1:], call.args)}
        for k in bound:
            self.aliases.pop(k, None)
        self.aliases.update(bound)
        depth = len(self.ret_stack)

        def caller_cont():
            # the rest of the CALLER is translated in the caller's environment
            cur = (self.aliases, self.transport_names, self.ret_stack)
            self.aliases, self.transport_names, self.ret_stack = dict(saved[0]), set(saved[1]), self.ret_stack[:depth]
            try:
                return nxt()
            finally:
                self.aliases, self.transport_names, self.ret_stack = cur
        self.ret_stack.append(caller_cont)
        try:
            out = self.block(m.body, caller_cont)
        finally:
            self.ret_stack = self.ret_stack[:depth]
            self.aliases, self.transport_names = dict(saved[0]), set(saved[1])
        self.inlined.append(f"{f.attr} (l.{m.lineno})")
        return out

    # ---- conditions -> nested ite --------------------------------------------------------------------------
    def cond(self, n):
        if isinstance(n, ast.UnaryOp) and isinstance(n.op, ast.Not):
            return ("not", self.cond(n.operand))
        if isinstance(n, ast.BoolOp):
            txts = sorted(self.canon(v) for v in n.values)
            key = (" and " if isinstance(n.op, ast.And) else " or ").join(txts)
            if key in self.atoms:                      # a conjunction recognised as a whole, in any order
                return ("atom", self.atoms[key])
            return ("and" if isinstance(n.op, ast.And) else "or", [self.cond(v) for v in n.values])
        if isinstance(n, ast.Name) and n.id in self.transport_names:
            return ("atom", "hasTransport")
        txt = self.canon(n)
        if txt in self.atoms:
            return ("atom", self.atoms[txt])
        if isinstance(n, ast.Compare) and len(n.ops) == 1:
            l, r = self.canon(n.left), self.canon(n.comparators[0])
            op = n.ops[0]
            if isinstance(op, (ast.Eq, ast.NotEq)):
                for a, b in ((l, r), (r, l)):
                    key = f"{a} == {b}"
                    if key in self.atoms:
                        c = ("atom", self.atoms[key])
                        return ("not", c) if isinstance(op, ast.NotEq) else c
            if isinstance(op, (ast.In, ast.NotIn)):
                key = f"{l} in {r}"
                if key in self.atoms:
                    c = ("atom", self.atoms[key])
                    return ("not", c) if isinstance(op, ast.NotIn) else c
            if isinstance(op, (ast.Is, ast.IsNot)) and r == "None" and isinstance(n.left, ast.Name) \
                    and n.left.id in self.transport_names:
                c = ("atom", "hasTransport")
                return c if isinstance(op, ast.IsNot) else ("not", c)
            if isinstance(op, (ast.Is, ast.IsNot)) and r == "None" and l in self.atoms:
                c = ("atom", self.atoms[l])            # `x is not None` for an atom that is an object-or-None
                return c if isinstance(op, ast.IsNot) else ("not", c)
        self.err(n, f"condition `{txt}` outside the subset")

    def ite(self, c, t, e):
        k = c[0]
        if k == "atom":
            return ("ite", c[1], t, e)
        if k == "not":
            return self.ite(c[1], e, t)
        if k == "and":
            out = t
            for sub in reversed(c[1]):
                out = self.ite(sub, out, e)
            return out
        out = e
        for sub in reversed(c[1]):
            out = self.ite(sub, t, out)
        return out

    # ---- statements ----------------------------------------------------------------------------------------
    def only_logging(self, stmts) -> bool:
        for s in stmts:
            if isinstance(s, ast.Pass):
                continue
            if isinstance(s, ast.Expr) and isinstance(s.value, ast.Call) and ast.unparse(s.value.func).startswith("self.logger."):
                continue
            return False
        return True

    def check_on_address(self, f: ast.FunctionDef):
        """`def on_address(future)`: result fetched in a try whose handlers log and return; then self.sendto(data, <result>)"""
        body = [s for s in f.body if not (isinstance(s, ast.Expr) and isinstance(s.value, ast.Constant))]
        res = None
        ok = len(body) == 2 and isinstance(body[0], ast.Try) and not body[0].orelse and not body[0].finalbody
        if ok:
            tb = body[0].body
            ok = len(tb) == 1 and isinstance(tb[0], ast.Assign) and isinstance(tb[0].targets[0], ast.Name) \
                and ast.unparse(tb[0].value) == f"{f.args.args[0].arg}.result()"
            if ok:
                res = tb[0].targets[0].id
            for h in body[0].handlers:
                ok = ok and len(h.body) >= 1 and isinstance(h.body[-1], ast.Return) and h.body[-1].value is None \
                    and self.only_logging(h.body[:-1])
        ok = ok and isinstance(body[1], ast.Expr) and self.canon(body[1].value) == f"self.sendto(data, {res})"
        if not ok:
            self.err(f, f"resolution callback `{f.name}` does not have the shape `try: ip = future.result() except …: log; return` "
                        "followed by `self.sendto(data, ip)` (the resolved packet must re-enter sendto)")
        self.callbacks[f.name] = True

    def block(self, stmts, cont):
        if not stmts:
            return cont()
        s, rest = stmts[0], stmts[1:]
        nxt = lambda: self.block(rest, cont)  # noqa: E731
        if isinstance(s, ast.Expr) and isinstance(s.value, ast.Constant) and isinstance(s.value.value, str):
            return nxt()
        if isinstance(s, ast.Pass):
            return nxt()
        if isinstance(s, ast.Return):
            if s.value is not None and ast.unparse(s.value) != "None":
                self.err(s, "return with a value")
            if self.ret_stack:
                return self.ret_stack[-1]()      # returning from an inlined helper: the caller goes on
            return ("done",)
        if isinstance(s, ast.AugAssign) and ast.unparse(s.target) in ("self.bytes_up", "self.bytes_down"):
            return nxt()
        if isinstance(s, ast.FunctionDef):
            self.check_on_address(s)
            return nxt()
        if isinstance(s, ast.If):
            c = self.cond(s.test)
            t = self.block(s.body, nxt)
            e = self.block(s.orelse, nxt) if s.orelse else nxt()
            return self.ite(c, t, e)
        if isinstance(s, ast.Try):
            if s.orelse or s.finalbody or not all(self.only_logging(h.body) for h in s.handlers):
                self.err(s, "try statement whose handlers do more than log")
            return self.block(s.body, nxt)
        if isinstance(s, ast.Assign) and len(s.targets) == 1:
            tgt, txt = s.targets[0], self.canon(s.value)
            if isinstance(tgt, ast.Name):
                if txt == "self.transport_ipv6 if isinstance(destination, UDPv6Address) else self.transport_ipv4":
                    self.transport_names.add(tgt.id)
                    return nxt()
                if txt == "ensure_future(self.resolve(destination))":
                    self.tasks.add(tgt.id)
                    return nxt()
                if any(p(txt) for p in self.aliasable):
                    self.aliases[tgt.id] = txt
                    self.facts.setdefault("aliases", {})[tgt.id] = txt
                    return nxt()
            if isinstance(tgt, ast.Tuple) and txt in self.skip_calls:
                self.facts["decoded"] = [ast.unparse(e) for e in tgt.elts]
                for e in tgt.elts:
                    if isinstance(e, ast.Name) and e.id != "_":
                        self.aliases.pop(e.id, None)
                return nxt()
            self.err(s, f"assignment `{ast.unparse(s)}` outside the subset")
        if isinstance(s, ast.Expr) and isinstance(s.value, ast.Call):
            call = s.value
            ftxt = ast.unparse(call.func)
            if ftxt.startswith("self.logger.") or ftxt in ("self.beat_heart", "circuit.beat_heart"):
                return nxt()
            # transport.sendto(data, destination)
            if isinstance(call.func, ast.Attribute) and call.func.attr == "sendto" and isinstance(call.func.value, ast.Name) \
                    and call.func.value.id in self.transport_names and not call.keywords \
                    and [self.canon(a) for a in call.args] == ["data", "destination"]:
                return ("act", "transportSend", nxt())
            # self.register_anonymous_task(…, task, …).add_done_callback(on_address)
            if isinstance(call.func, ast.Attribute) and call.func.attr == "add_done_callback" and len(call.args) == 1 \
                    and isinstance(call.args[0], ast.Name) and call.args[0].id in self.callbacks \
                    and isinstance(call.func.value, ast.Call) \
                    and ast.unparse(call.func.value.func) == "self.register_anonymous_task":
                inner = call.func.value
                args = list(inner.args) + [k.value for k in inner.keywords]
                if any((isinstance(a, ast.Name) and a.id in self.tasks)
                       or self.canon(a) == "ensure_future(self.resolve(destination))" for a in args):
                    return ("act", "startResolve", nxt())
            txt = self.canon(call)
            if txt in self.acts:
                return ("act", self.acts[txt], nxt())
            inl = self.try_inline(call, nxt)
            if inl is not None:
                return inl
            self.err(s, f"call `{txt}` outside the subset")
        self.err(s, f"statement {type(s).__name__} outside the subset")


def _method(cls, name, params, file):
    fs = [f for f in cls.body if isinstance(f, ast.FunctionDef) and f.name == name]
    if len(fs) != 1 or [a.arg for a in fs[0].args.args] != params or fs[0].args.kwonlyargs or fs[0].args.vararg:
        raise TranslatorError(f"{file}: method {cls.name}.{name}({', '.join(params)}) not found")
    return fs[0]


def lean_prog(t, ind=1) -> str:
    pad = "  " * ind
    if t[0] == "done":
        return pad + ".done"
    if t[0] == "act":
        return f"{pad}(.act .{t[1]}\n{lean_prog(t[2], ind + 1)})"
    return f"{pad}(.ite .{t[1]}\n{lean_prog(t[2], ind + 1)}\n{lean_prog(t[3], ind + 1)})"


def translate_paths():
    es_src = (REPO / SRC).read_text()
    cm_src = (REPO / COMM).read_text()
    sock = find_class(ast.parse(es_src), "TunnelExitSocket")
    comm = None
    for s in ast.parse(cm_src).body:
        if isinstance(s, ast.ClassDef) and s.name == "TunnelCommunity":
            comm = s
    if comm is None:
        raise TranslatorError(f"{COMM}: class TunnelCommunity not found")
    meta, progs, srcs = {}, [], []
    es_consts = module_int_consts(ast.parse(es_src))
    cm_consts = module_int_consts(ast.parse(cm_src))
    call_counts = {}
    for src_ in (es_src, cm_src, (REPO / "ipv8/messaging/anonymization/hidden_services.py").read_text()):
        for n in ast.walk(ast.parse(src_)):
            if isinstance(n, ast.Attribute) and isinstance(n.value, ast.Name) and n.value.id == "self":
                call_counts[n.attr] = call_counts.get(n.attr, 0) + 1       # any reference counts (call, callback, getattr-free)
    inlined = []

    def wire(p_, cls_, consts_):
        p_.cls, p_.int_consts, p_.call_counts, p_.inlined = cls_, consts_, call_counts, inlined
        return p_

    # --- TunnelExitSocket.sendto(self, data, destination)
    f = _method(sock, "sendto", ["self", "data", "destination"], SRC)
    p = PathFn(SRC, "sendto",
               atoms={"self.is_allowed(data)": "allowed", "isinstance(destination, DomainAddress)": "isDomain",
                      f"destination == {NULL_TXT}": "destIsNull",
                      "self.transport_ipv6 if isinstance(destination, UDPv6Address) else self.transport_ipv4": "hasTransport"},
               acts={"self.queue.append((data, destination))": "queueAppend"})
    wire(p, sock, es_consts)
    progs.append(("sendto_prog", f"exit_socket.py l.{f.lineno}: TunnelExitSocket.sendto", p.block(f.body, lambda: ("done",))))
    srcs.append(f)
    # --- the flush loop of enable(): while self.queue: self.sendto(*self.queue.popleft())
    en = _method(sock, "enable", ["self"], SRC)
    loops = [n for n in ast.walk(en) if isinstance(n, ast.While)]
    if len(loops) != 1 or ast.unparse(loops[0].test) != "self.queue" or loops[0].orelse or len(loops[0].body) != 1 \
            or ast.unparse(loops[0].body[0]) != "self.sendto(*self.queue.popleft())":
        raise TranslatorError(f"{SRC}:{en.lineno}: enable(): the queue is not flushed by `while self.queue: self.sendto(*self.queue.popleft())` "
                              "(queued packets must re-enter sendto)")
    meta["flush"] = "via sendto"
    srcs.append(en)
    # --- TunnelExitSocket.datagram_received(self, data, source) and tunnel_data
    f = _method(sock, "datagram_received", ["self", "data", "source"], SRC)
    p = PathFn(SRC, "datagram_received", atoms={"self.is_allowed(data)": "allowed"},
               acts={"self.tunnel_data(source, data)": "tunnelData"})
    wire(p, sock, es_consts)
    progs.append(("datagram_received_prog", f"exit_socket.py l.{f.lineno}: TunnelExitSocket.datagram_received",
                  p.block(f.body, lambda: ("done",))))
    srcs.append(f)
    td = _method(sock, "tunnel_data", ["self", "source", "data"], SRC)
    body = [s for s in td.body if not (isinstance(s, ast.Expr) and (isinstance(s.value, ast.Constant) or
                                                                    ast.unparse(s.value).startswith("self.logger.")))]
    want = f"self.overlay.send_data(self.hop.address, self.circuit_id, {NULL_TXT}, source, data)"
    if len(body) != 1 or not isinstance(body[0], ast.Expr) or ast.unparse(body[0].value) != want:
        raise TranslatorError(f"{SRC}:{td.lineno}: tunnel_data is not `{want}`")
    srcs.append(td)
    # --- TunnelCommunity.exit_data(self, circuit_id, sock_addr, destination, data)
    f = _method(comm, "exit_data", ["self", "circuit_id", "sock_addr", "destination", "data"], COMM)
    ES = "self.exit_sockets[circuit_id]"
    p = PathFn(COMM, "exit_data",
               atoms={"circuit_id in self.exit_sockets": "knownCircuit", f"{ES}.enabled": "sockEnabled",
                      f"sock_addr[0] == {ES}.hop.address[0]": "srcIpIsHopIp", f"destination == {NULL_TXT}": "destIsNull"},
               acts={f"{ES}.enable()": "enable", f"{ES}.sendto(data, destination)": "sendto"},
               aliasable=[lambda t: t == ES, lambda t: t == f"{ES}.hop", lambda t: t == f"{ES}.hop.address",
                          lambda t: t in ("sock_addr[0]", f"{ES}.hop.address[0]")])
    wire(p, comm, cm_consts)
    p.atoms["self.exit_sockets.get(circuit_id)"] = "knownCircuit"          # object-or-None used as a truth value
    p.aliasable.append(lambda t: t == "self.exit_sockets.get(circuit_id)")
    oc = p.canon
    p.canon = lambda n: oc(n).replace("self.exit_sockets.get(circuit_id).", ES + ".")
    progs.append(("exit_data_prog", f"community.py l.{f.lineno}: TunnelCommunity.exit_data", p.block(f.body, lambda: ("done",))))
    meta["exit_data_aliases"] = p.facts.get("aliases", {})
    srcs_c = [f]
    # --- TunnelCommunity.on_data(self, sock_addr, data, _)
    f = _method(comm, "on_data", ["self", "sock_addr", "data", "_"], COMM)
    f_on_data_fn = f
    CIRC = "self.circuits.get(payload.circuit_id, None)"
    E2E = f"{CIRC}.ctype in [CIRCUIT_TYPE_RP_DOWNLOADER, CIRCUIT_TYPE_RP_SEEDER]"
    unpack = "self.serializer.unpack_serializable(DataPayload, data, offset=23)"
    own = " and ".join(sorted([CIRC, "payload.org_address", f"sock_addr == {CIRC}.hop.address"]))
    p = PathFn(COMM, "on_data",
               atoms={own: "ownCircuit", f"payload.dest_address == {NULL_TXT}": "destIsNull",
                      "DataChecker.could_be_ipv8(payload.data)": "ipv8Payload", E2E: "e2eCircuit",
                      "self._prefix == payload.data[:22]": "ownPrefix", "self.get_prefix() == payload.data[:22]": "ownPrefix",
                      "payload.data[22] in self.exit_msg_ids": "exitMessage",
                      "isinstance(self.endpoint, TunnelEndpoint)": "tunnelEndpoint"},
               acts={"self.exit_data(payload.circuit_id, sock_addr, payload.dest_address, payload.data)": "exitData",
                     "self.on_packet_from_circuit(payload.org_address, payload.data, payload.circuit_id)": "deliverOwn",
                     "self.endpoint.notify_listeners((payload.org_address, payload.data), from_tunnel=True)": "deliverOther",
                     f"self.on_raw_data({CIRC}, payload.org_address, payload.data)": "deliverRaw"},
               skip_calls=(unpack,),
               aliasable=[lambda t: t in ("payload.circuit_id", "payload.dest_address", "payload.org_address", "payload.data"),
                          lambda t: t in (CIRC, "self.circuits.get(payload.circuit_id)"), lambda t: t == E2E])
    wire(p, comm, cm_consts)
    # `.get(x)` and `.get(x, None)` are the same lookup
    orig_canon = p.canon
    p.canon = lambda n: orig_canon(n).replace("self.circuits.get(payload.circuit_id)", CIRC)
    tree = p.block(f.body, lambda: ("done",))
    if p.facts.get("decoded", [None])[0] != "payload":
        raise TranslatorError(f"{COMM}:{f.lineno}: on_data does not decode `payload, _ = {unpack}`")
    progs.append(("on_data_prog", f"community.py l.{f.lineno}: TunnelCommunity.on_data (after decoding the DataPayload)", tree))
    meta["on_data_aliases"] = p.facts.get("aliases", {})
    meta["helpers_inlined"] = inlined
    srcs_c.append(f)
    # --- who can reach the exit path: exit_data is called from on_data only; on_data is the cell handler of DataPayload only,
    #     so the re-dispatch `on_packet_from_circuit` (deliverOwn) reaches on_data exactly for a nested DataPayload
    def callers_of(pred):
        out_ = set()
        for file, tree_ in ((COMM, ast.parse(cm_src)), ("hidden_services.py", ast.parse((REPO / "ipv8/messaging/anonymization/hidden_services.py").read_text()))):
            for fn in ast.walk(tree_):
                if isinstance(fn, (ast.FunctionDef, ast.AsyncFunctionDef)):
                    for n in ast.walk(fn):
                        if pred(n):
                            out_.add(f"{file.rsplit('/', 1)[-1]}:{fn.name}")
        return out_
    callers = callers_of(lambda n: isinstance(n, ast.Attribute) and n.attr == "exit_data")
    if callers != {"community.py:on_data", "community.py:exit_data"} and callers != {"community.py:on_data"}:
        raise TranslatorError(f"exit_data is referenced from {sorted(callers)}, expected only TunnelCommunity.on_data")
    # who opens an exit socket: `.enable()` on anything, in both files, only inside exit_data
    enablers = callers_of(lambda n: isinstance(n, ast.Call) and isinstance(n.func, ast.Attribute) and n.func.attr == "enable")
    if enablers != {"community.py:exit_data"}:
        raise TranslatorError(f".enable() is called from {sorted(enablers)}, expected only TunnelCommunity.exit_data")
    # who creates exit sockets: assignments into exit_sockets[...] only in join_circuit
    makers = callers_of(lambda n: isinstance(n, ast.Assign) and any(
        isinstance(t, ast.Subscript) and ast.unparse(t.value).endswith("exit_sockets") for t in n.targets))
    if makers != {"community.py:join_circuit"}:
        raise TranslatorError(f"exit_sockets[...] is assigned in {sorted(makers)}, expected only TunnelCommunity.join_circuit")
    # who writes to the outside transports / tunnels outside data back: only TunnelExitSocket.sendto / datagram_received
    es_tree = ast.parse(es_src)
    senders = {fn.name for fn in ast.walk(es_tree) if isinstance(fn, (ast.FunctionDef, ast.AsyncFunctionDef)) for n in ast.walk(fn)
               if isinstance(n, ast.Call) and isinstance(n.func, ast.Attribute) and n.func.attr == "sendto"
               and not ast.unparse(n.func.value) == "self"}
    if senders - {"sendto"}:
        raise TranslatorError(f"{SRC}: a transport's sendto is called from {sorted(senders)}, expected only TunnelExitSocket.sendto")
    tunnellers = {fn.name for fn in ast.walk(es_tree) if isinstance(fn, (ast.FunctionDef, ast.AsyncFunctionDef)) for n in ast.walk(fn)
                  if isinstance(n, ast.Call) and ast.unparse(n.func) == "self.tunnel_data"}
    if tunnellers != {"datagram_received"}:
        raise TranslatorError(f"{SRC}: tunnel_data is called from {sorted(tunnellers)}, expected only datagram_received")
    regs = [ast.unparse(n) for n in ast.walk(comm) if isinstance(n, ast.Call) and ast.unparse(n.func) == "self.add_cell_handler"
            and "self.on_data" in [ast.unparse(a) for a in n.args]]
    other_refs = [n for fn in comm.body if isinstance(fn, ast.FunctionDef) for n in ast.walk(fn)
                  if isinstance(n, ast.Attribute) and ast.unparse(n) == "self.on_data"]
    if regs != ["self.add_cell_handler(DataPayload, self.on_data)"] or len(other_refs) != 1:
        raise TranslatorError(f"{COMM}: on_data must be registered exactly once, as the cell handler of DataPayload (found {regs}, "
                              f"{len(other_refs)} references)")
    opfc = _method(comm, "on_packet_from_circuit", ["self", "source_address", "data", "circuit_id"], COMM)
    otxt = ast.unparse(opfc)
    for need in ("data[22]", "self.decode_map_private[", "(source_address, data, circuit_id)"):
        if need not in otxt:
            raise TranslatorError(f"{COMM}:{opfc.lineno}: on_packet_from_circuit no longer dispatches by data[22] through decode_map_private")
    srcs_c.append(opfc)
    pay = ast.parse((REPO / "ipv8/messaging/anonymization/payload.py").read_text())
    msg_ids = {}
    for c in pay.body:
        if isinstance(c, ast.ClassDef):
            for st in c.body:
                if isinstance(st, ast.Assign) and ast.unparse(st.targets[0]) == "msg_id" and isinstance(st.value, ast.Constant) \
                        and type(st.value.value) is int:
                    msg_ids[c.name] = st.value.value
    mid = msg_ids.get("DataPayload")
    if type(mid) is not int:
        raise TranslatorError("payload.py: DataPayload.msg_id not found")
    # --- which message types may come back through an exit: add_cell_handler(<Payload>, <handler>, from_exit=True)
    ach = _method(comm, "add_cell_handler", ["self", "payload_cls", "handler", "from_exit"], COMM)
    abody = [x for x in ach.body if not (isinstance(x, ast.Expr) and isinstance(x.value, ast.Constant))]
    atxt = "\n".join(ast.unparse(x) for x in abody)
    if "if from_exit:\n    self.exit_msg_ids.add(payload_cls.msg_id)" not in atxt or atxt.count("exit_msg_ids") != 1 \
            or ast.unparse(ach.args.defaults[-1]) != "False":
        raise TranslatorError(f"{COMM}:{ach.lineno}: add_cell_handler no longer fills exit_msg_ids exactly for from_exit=True (default False)")
    HS = "ipv8/messaging/anonymization/hidden_services.py"
    hs_tree = ast.parse((REPO / HS).read_text())
    MUTATORS = ("add", "update", "discard", "remove", "clear", "pop", "difference_update", "intersection_update",
                "symmetric_difference_update", "__ior__", "__iand__", "__isub__")

    def scan_writes(file, tree_, attr, allowed):
        """every write to / mutation / escape of `self.<attr>` must sit in one of the `allowed` functions"""
        for fn in ast.walk(tree_):
            if not isinstance(fn, (ast.FunctionDef, ast.AsyncFunctionDef)):
                continue
            parents = {}
            for n in ast.walk(fn):
                for ch in ast.iter_child_nodes(n):
                    parents[ch] = n
            for n in ast.walk(fn):
                if isinstance(n, ast.Attribute) and n.attr == attr:
                    par = parents.get(n)
                    write = not isinstance(n.ctx, ast.Load) or isinstance(par, ast.AugAssign) \
                        or (isinstance(par, ast.Attribute) and par.attr in MUTATORS) \
                        or (isinstance(par, ast.Assign) and n is par.value) \
                        or (isinstance(par, (ast.Call, ast.Return, ast.keyword)) and not (
                            isinstance(par, ast.Call) and isinstance(par.func, ast.Name) and par.func.id in ("len", "sorted", "list", "set", "frozenset", "tuple")))
                    if write and fn.name not in allowed:
                        raise TranslatorError(f"{file}:{n.lineno}: `{attr}` is written / mutated / handed out in {fn.name} "
                                              f"(only {sorted(allowed)} may)")
    scan_writes(COMM, ast.parse(cm_src), "exit_msg_ids", {"__init__", "add_cell_handler"})
    scan_writes(HS, hs_tree, "exit_msg_ids", set())
    declared = []
    HS = "ipv8/messaging/anonymization/hidden_services.py"
    for file, tree_ in ((COMM, ast.parse(cm_src)), (HS, hs_tree)):
        for n in ast.walk(tree_):
            if isinstance(n, ast.Call) and ast.unparse(n.func) == "self.add_cell_handler":
                fe = [k for k in n.keywords if k.arg == "from_exit"] + ([n.args[2]] if len(n.args) > 2 else [])
                if not fe:
                    continue
                v = fe[0].value if isinstance(fe[0], ast.keyword) else fe[0]
                if not (isinstance(v, ast.Constant) and v.value in (True, False)):
                    raise TranslatorError(f"{file}:{n.lineno}: from_exit is not a literal")
                if v.value:
                    cls = ast.unparse(n.args[0])
                    if cls not in msg_ids:
                        raise TranslatorError(f"{file}:{n.lineno}: message id of {cls} unknown")
                    declared.append((cls, msg_ids[cls], file.rsplit("/", 1)[1]))
    meta["exit_messages_declared"] = declared
    meta["data_msg_id"] = mid

    # --- how an exit socket comes into being: join_circuit(create_payload, previous_node_address)   (model: Ev.join / joinSock)
    jc = _method(comm, "join_circuit", ["self", "create_payload", "previous_node_address"], COMM)
    assigns = {}
    for n in ast.walk(jc):
        if isinstance(n, ast.Assign) and len(n.targets) == 1:
            assigns.setdefault(ast.unparse(n.targets[0]), []).append(ast.unparse(n.value))
        if isinstance(n, (ast.AugAssign, ast.AnnAssign, ast.NamedExpr)):
            raise TranslatorError(f"{COMM}:{n.lineno}: join_circuit: assignment form outside the subset")
    want = {"circuit_id": ["create_payload.circuit_id"],
            "peer": ["Peer(create_payload.node_public_key, previous_node_address)"],
            "self.exit_sockets[circuit_id]": ["TunnelExitSocket(circuit_id, Hop(peer, session_keys), self)"]}
    for k, v in want.items():
        if assigns.get(k) != v:
            raise TranslatorError(f"{COMM}:{jc.lineno}: join_circuit: `{k}` is assigned {assigns.get(k)}, expected exactly {v} "
                                  "(the new exit socket's hop must be a Peer at the address the CREATE came from)")
    # the hop's Peer object must not escape: besides the request cache and the Hop it is handed to nobody (in particular not
    # to the Network, whose Peer objects learn new addresses from every signed message of that key)
    def walk_no_comp(node):
        yield node
        for ch in ast.iter_child_nodes(node):
            if not isinstance(ch, (ast.ListComp, ast.DictComp, ast.SetComp, ast.GeneratorExp, ast.Lambda)):
                yield from walk_no_comp(ch)
    uses = []
    for n in walk_no_comp(jc):
        if isinstance(n, ast.Call):
            for a in list(n.args) + [k.value for k in n.keywords]:
                if isinstance(a, ast.Name) and a.id == "peer":
                    uses.append(ast.unparse(n.func))
    loads = sum(1 for n in walk_no_comp(jc) if isinstance(n, ast.Name) and n.id == "peer" and isinstance(n.ctx, ast.Load))
    if sorted(uses) != ["CreatedRequestCache", "Hop"] or loads != 2:
        raise TranslatorError(f"{COMM}:{jc.lineno}: join_circuit: the hop's Peer object is used by {sorted(uses)} ({loads} uses), expected "
                              "exactly CreatedRequestCache(...) and Hop(...)")
    oc_ = [f for f in comm.body if isinstance(f, ast.AsyncFunctionDef) and f.name == "on_create"]
    if len(oc_) != 1 or "self.join_circuit(payload, source_address)" not in ast.unparse(oc_[0]):
        raise TranslatorError(f"{COMM}: on_create no longer calls self.join_circuit(payload, source_address)")
    for n in ast.walk(oc_[0]):
        if isinstance(n, ast.Attribute) and n.attr in ("exit_sockets",) and not isinstance(n.ctx, ast.Load):
            raise TranslatorError(f"{COMM}:{n.lineno}: on_create writes exit_sockets")
    init = _method(sock, "__init__", ["self", "circuit_id", "hop", "overlay"], SRC)
    inits = {}
    for n in ast.walk(init):
        tg, val = [], None
        if isinstance(n, ast.Assign):
            tg, val = n.targets, n.value
        elif isinstance(n, ast.AnnAssign) and n.value is not None:
            tg, val = [n.target], n.value
        for t in tg:
            inits[ast.unparse(t)] = ast.unparse(val)
    for k, v in (("self.hop", "hop"), ("self.enabled", "False"), ("self.transport_ipv4", "None"), ("self.transport_ipv6", "None")):
        if inits.get(k) != v:
            raise TranslatorError(f"{SRC}:{init.lineno}: TunnelExitSocket.__init__ sets {k} = {inits.get(k)}, expected {v}")
    tun = ast.parse((REPO / TUNNEL).read_text())
    hop_cls = find_class(tun, "Hop")
    addr = [f for f in hop_cls.body if isinstance(f, ast.FunctionDef) and f.name == "address"]
    body_ = [x for x in (addr[0].body if addr else []) if not (isinstance(x, ast.Expr) and isinstance(x.value, ast.Constant))]
    if len(addr) != 1 or len(body_) != 1 or ast.unparse(body_[0]) != "return self.peer.address":
        raise TranslatorError(f"{TUNNEL}: Hop.address is not `return self.peer.address`")
    meta["join_circuit"] = "hop = Peer(node_public_key, previous_node_address); socket starts closed"
    srcs_c.append(jc)

    # --- the hand-modelled pieces around the translated methods: their statement lists (docstrings, comments and logging
    #     ignored) must be what Model.lean's `pickAddr`, `sockStep .outside/.open4/.open6` and `joinStep` were written from
    def stmts(fn):
        """statement texts with docstrings / logging dropped and local variable names made canonical (v0, v1, … in order of
        first binding), so that renamed locals and lambda parameters do not matter"""
        import copy
        fn = copy.deepcopy(fn)
        params = {a.arg for a in fn.args.args}
        names = {}
        for n in ast.walk(fn):
            if isinstance(n, ast.Name) and isinstance(n.ctx, ast.Store) and n.id not in params and n.id not in names:
                names[n.id] = f"v{len(names)}"
            if isinstance(n, ast.Lambda):
                for a in n.args.args:
                    if a.arg not in names:
                        names[a.arg] = f"v{len(names)}"
        for n in ast.walk(fn):
            if isinstance(n, ast.Name) and n.id in names:
                n.id = names[n.id]
            if isinstance(n, ast.arg) and n.arg in names:
                n.arg = names[n.arg]
            if isinstance(n, (ast.FunctionDef, ast.AsyncFunctionDef)) and n is not fn and n.name in names:
                n.name = names[n.name]
        out_ = []
        for x in fn.body:
            if isinstance(x, ast.Expr) and (isinstance(x.value, ast.Constant) or ast.unparse(x.value).startswith("self.logger.")):
                continue
            out_.append(ast.unparse(x))
        return out_

    def expect(fn, want, what):
        got = stmts(fn)
        if got != want:
            raise TranslatorError(f"{SRC}:{fn.lineno}: {fn.name} is no longer what the model's `{what}` mirrors: {got}")
    rs = [f for f in sock.body if isinstance(f, ast.AsyncFunctionDef) and f.name == "resolve"]
    if len(rs) != 1:
        raise TranslatorError(f"{SRC}: TunnelExitSocket.resolve not found")
    expect(rs[0], ["v0 = await get_running_loop().getaddrinfo(address[0], 0)", "v0.sort(key=lambda v3: v3[0])",
                   "v1 = v0[0][-1][0]", "v2 = v0[0][0]",
                   "if v2 == socket.AF_INET6:\n    return UDPv6Address(v1, address[1])", "return UDPv4Address(v1, address[1])"],
           "pickAddr")
    expect(_method(sock, "datagram_received_ipv4", ["self", "data", "source"], SRC),
           ["self.datagram_received(data, UDPv4Address(*source))"], "sockStep .outside (IPv4)")
    w6 = _method(sock, "datagram_received_ipv6", ["self", "data", "source"], SRC)
    got6 = stmts(w6)
    if len(got6) != 2 or not got6[0].startswith("if source[0][:7] == '::ffff:':") or not got6[0].rstrip().endswith("return") \
            or got6[1] != "self.datagram_received(data, UDPv6Address(*source[:2]))":
        raise TranslatorError(f"{SRC}:{w6.lineno}: datagram_received_ipv6 is no longer what the model's `sockStep .outside (IPv6)` mirrors: {got6}")
    en_body = stmts(en)
    ct = [x for x in ast.walk(en) if isinstance(x, ast.AsyncFunctionDef) and x.name == "create_transports"]
    if len(en_body) != 1 or not en_body[0].startswith("if not self.enabled:\n    self.enabled = True\n") \
            or not en_body[0].rstrip().endswith("self.register_task('create_transports', create_transports)") or len(ct) != 1:
        raise TranslatorError(f"{SRC}:{en.lineno}: enable() is no longer `if not self.enabled: self.enabled = True; …; register_task(create_transports)`")
    expect(ct[0], ["self.transport_ipv4 = await TunnelProtocol(self.datagram_received_ipv4, ('0.0.0.0', 0)).open()",
                   "self.transport_ipv6 = await TunnelProtocol(self.datagram_received_ipv6, ('::', 0)).open()",
                   "while self.queue:\n    self.sendto(*self.queue.popleft())"], "sockStep .open4/.open6 + flush")
    tp = find_class(ast.parse(es_src), "TunnelProtocol")
    dr = _method(tp, "datagram_received", ["self", "data", "addr"], SRC)
    expect(dr, ["self.received_cb(data, addr)"], "TunnelProtocol.datagram_received -> received_cb")
    guards = [ast.unparse(x.test) for x in oc_[0].body if isinstance(x, ast.If) and x.body and isinstance(x.body[-1], ast.Return)]
    if "not self.settings.peer_flags" not in guards or not any(
            "payload.circuit_id in self.circuits" in g and "payload.circuit_id in self.exit_sockets" in g for g in guards):
        raise TranslatorError(f"{COMM}:{oc_[0].lineno}: on_create lost a guard the model's `joinStep` mirrors (no peer flags / circuit id in use): {guards}")
    pos = [i for i, x in enumerate(oc_[0].body) if "self.join_circuit(payload, source_address)" in ast.unparse(x)]
    gpos = [i for i, x in enumerate(oc_[0].body) if isinstance(x, ast.If) and x.body and isinstance(x.body[-1], ast.Return)]
    if not pos or not gpos or min(pos) < max(gpos):
        raise TranslatorError(f"{COMM}:{oc_[0].lineno}: on_create calls join_circuit before its guards")
    meta["hand_modelled_shapes_checked"] = ["resolve", "datagram_received_ipv4", "datagram_received_ipv6", "enable/create_transports",
                                            "TunnelProtocol.datagram_received", "on_create guards"]

    # --- nobody re-points a hop: no assignment to `<…>.hop`, `<…>.peer` or `<…>.hop.peer.address` / `<…>.peer.address`, and no
    #     add_address on a hop's peer, outside the constructors (community.py, hidden_services.py, exit_socket.py)
    for file, src_ in ((COMM, cm_src), ("ipv8/messaging/anonymization/hidden_services.py",
                                        (REPO / "ipv8/messaging/anonymization/hidden_services.py").read_text()), (SRC, es_src)):
        for fn in ast.walk(ast.parse(src_)):
            if not isinstance(fn, (ast.FunctionDef, ast.AsyncFunctionDef)) or fn.name == "__init__":
                continue
            for n in ast.walk(fn):
                tgts = n.targets if isinstance(n, ast.Assign) else [n.target] if isinstance(n, (ast.AugAssign, ast.AnnAssign)) else []
                for t in tgts:
                    txt_ = ast.unparse(t)
                    if isinstance(t, ast.Attribute) and (t.attr in ("hop", "peer") or (t.attr == "address" and (".hop" in txt_ or ".peer" in txt_))):
                        raise TranslatorError(f"{file}:{n.lineno}: {fn.name} assigns `{txt_}` (the hop of a circuit / exit socket must keep "
                                              "the address the circuit was created from)")
                if isinstance(n, ast.Call) and isinstance(n.func, ast.Attribute) and n.func.attr == "add_address" \
                        and ".hop" in ast.unparse(n.func.value):
                    raise TranslatorError(f"{file}:{n.lineno}: {fn.name} adds an address to a hop's peer")

    # --- the source address on_data sees must be the datagram's: nothing between the endpoint and on_data may rebind it
    CR = "ipv8/messaging/anonymization/crypto.py"
    pce = find_class(ast.parse((REPO / CR).read_text()), "PythonCryptoEndpoint")

    def no_rebind(file, fn, name, must_contain):
        stores = [n for n in ast.walk(fn) if isinstance(n, ast.Name) and n.id == name and isinstance(n.ctx, ast.Store)]
        if len(stores) > (1 if fn.name == "on_packet" else 0):
            raise TranslatorError(f"{file}:{fn.lineno}: {fn.name} rebinds `{name}` (the address a cell came from must reach on_data unchanged)")
        txt_ = ast.unparse(fn)
        for need in must_contain:
            if need not in txt_:
                raise TranslatorError(f"{file}:{fn.lineno}: {fn.name} no longer contains `{need}`")
    no_rebind(CR, _method(pce, "on_packet", ["self", "packet", "warn_unknown"], CR), "source_address",
              ["source_address, datagram = packet", "self.process_cell(source_address, datagram)"])
    no_rebind(CR, _method(pce, "process_cell", ["self", "source_address", "data"], CR), "source_address",
              ["self.tunnel_community.on_packet((source_address, cell.to_bin(self.prefix)))"])
    no_rebind(COMM, _method(comm, "on_cell", ["self", "source_address", "data"], COMM), "source_address",
              ["self.on_packet_from_circuit(source_address, cell.unwrap(self._prefix), cell.circuit_id)"])
    no_rebind(COMM, opfc, "source_address", [])
    for n in ast.walk(f_on_data_fn):
        if isinstance(n, ast.Name) and n.id == "sock_addr" and isinstance(n.ctx, ast.Store):
            raise TranslatorError(f"{COMM}:{n.lineno}: on_data rebinds sock_addr")
    for n in ast.walk(_method(comm, "exit_data", ["self", "circuit_id", "sock_addr", "destination", "data"], COMM)):
        if isinstance(n, ast.Name) and n.id == "sock_addr" and isinstance(n.ctx, ast.Store):
            raise TranslatorError(f"{COMM}:{n.lineno}: exit_data rebinds sock_addr")
    meta["source_address_path_checked"] = ["PythonCryptoEndpoint.on_packet", "process_cell", "TunnelCommunity.on_cell",
                                           "on_packet_from_circuit", "on_data", "exit_data"]

    txt = "".join(ast.get_source_segment(es_src, f) or "" for f in srcs) + "".join(ast.get_source_segment(cm_src, f) or "" for f in srcs_c)
    head = ("/-\n  GENERATED by tools/gen_exitpolicy.py (part 2) from exit_socket.py and community.py — do not edit.\n"
            f"  sha1 of the translated method sources: {hashlib.sha1(txt.encode()).hexdigest()[:16]}\n"
            "  Also checked structurally (TranslatorError otherwise): enable() flushes the queue through self.sendto; the resolution\n"
            "  callback re-enters self.sendto; tunnel_data = overlay.send_data(hop.address, circuit_id, (\"0.0.0.0\", 0), source, data);\n"
            "  self.exit_data is referenced from on_data only; on_data is registered once, as the cell handler of DataPayload;\n"
            "  on_packet_from_circuit dispatches by data[22] through decode_map_private; exit_msg_ids is filled only by\n"
            "  add_cell_handler(..., from_exit=True) and read only by on_data; join_circuit creates the exit socket with\n"
            "  hop = Peer(create_payload.node_public_key, previous_node_address), closed.\n-/\n"
            "import Ipv8.C06.IR\n\nnamespace Ipv8.C06.Gen\nopen Ipv8.C06\n\n")
    body = f"/-- DataPayload.msg_id (payload.py) -/\ndef DATA_MSG_ID : Nat := {mid}\n\n"
    body += ("/-- the message types registered with `add_cell_handler(..., from_exit=True)` in community.py / hidden_services.py: "
             + ", ".join(f"{c} ({f})" for c, _, f in declared) + " -/\n"
             f"def EXIT_MSG_IDS_DECLARED : List Nat := {[i for _, i, _ in declared]}\n\n")
    body += "\n".join(f"/-- {doc} -/\ndef {name} : Prog :=\n{lean_prog(tree)}\n" for name, doc, tree in progs)
    meta["programs"] = {name: tree for name, _, tree in progs}
    return head + body + "\nend Ipv8.C06.Gen\n", meta
