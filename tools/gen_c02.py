"""
Translator for C02: the live serializer registry and every shipped Serializable  ->  lean/Ipv8/C02/Gen.lean
                    the frozen documented wire format (spec/doc_wire_format.json) ->  lean/Ipv8/C02/GenSpec.lean

It IMPORTS the working tree named by vlib.REPO (already first on sys.path when run through ./check) and reads

  * `Serializer()._packers` plus the packers every `Overlay` subclass adds in its own `get_serializer`
    (called on an un-initialised instance: the shipped overrides only call `super().get_serializer()` and `add_packer`);
    each packer OBJECT is translated by its exact class and constructor state
      DefaultStruct.format_str ('>' + codes from ? B H I L Q l q c f d Ns), VarLen/VarLenUtf8.length_format/base,
      ListOf.packer/length_format, DefaultArray.format_str/length_format, Address.ip_only, Flags.format, NodePacker,
      Bits, IPv4, Raw, NestedPayload;
  * every `Serializable` subclass with a non-empty `format_list`: kind (old-style / VariablePayload / compiled /
    dataclass), `format_list` (names, nested classes, [class] lists), `names`, `msg_id`, `fix_pack_*/fix_unpack_*` hooks.

Anything outside this subset (an unknown packer class, a native-endian or unknown struct code, an overlay whose
get_serializer needs a constructed instance, a format_list entry that is neither a registered name nor a Serializable)
raises TranslatorError, which the runner treats like a broken proof.
"""
from __future__ import annotations

import dataclasses
import importlib
import json
import pkgutil
import re
import sys

from vlib import REPO, VERIF, TranslatorError

SKIP_MODULES = ("ipv8.messaging.interfaces.lan_addresses.any_os.netifaces",
                "ipv8.messaging.interfaces.lan_addresses.windows.GetAdaptersAddresses")
SPEC_JSON = VERIF / "spec" / "doc_wire_format.json"

UINT = {"B": 1, "H": 2, "I": 4, "L": 4, "Q": 8}
SINT = {"l": 4, "q": 8}
FLOAT = {"f": 4, "d": 8}
LENW = {">B": 1, ">H": 2, ">I": 4}


def lstr(s: str) -> str:
    return json.dumps(s)


def import_all():
    """import every non-test module of the ipv8 package of the tree under test"""
    if str(REPO) not in sys.path:
        sys.path.insert(0, str(REPO))
    import ipv8
    root = str(REPO.resolve())
    if not str(ipv8.__file__).startswith(root):
        raise TranslatorError(f"ipv8 was imported from {ipv8.__file__}, not from {root}")
    failed, skipped = [], []
    needed = needed_modules()
    for m in pkgutil.walk_packages(ipv8.__path__, "ipv8.", onerror=lambda name: skipped.append(name)):
        if ".test" in m.name or m.name.startswith("ipv8.test") or m.name in SKIP_MODULES:
            continue
        try:
            importlib.import_module(m.name)
        except Exception as e:
            # only a module that is known to define wire formats / payload classes / overlay serializers is a translator
            # failure; an optional or platform-specific module that does not import here is recorded and skipped
            (failed if m.name in needed else skipped).append(f"{m.name}: {type(e).__name__}: {e}")
    IMPORT_SKIPPED[:] = skipped
    if failed:
        raise TranslatorError("modules failed to import: " + "; ".join(failed)[:600])
    return ipv8


IMPORT_SKIPPED: list = []
TOLERANT_CODE = False


def needed_modules() -> set:
    """modules that define a frozen payload class, the serializer, or an overlay with its own serializer"""
    out = {"ipv8.messaging.serialization", "ipv8.messaging.lazy_payload", "ipv8.messaging.payload_dataclass",
           "ipv8.overlay", "ipv8.dht.community", "ipv8.messaging.anonymization.community"}
    try:
        for e in json.loads(SPEC_JSON.read_text())["layouts"]:
            out.add(e["name"].rpartition(".")[0])
    except Exception:
        pass
    return out


def allsubs(c):
    out = []
    for s in c.__subclasses__():
        if s not in out:
            out.append(s)
        for t in allsubs(s):
            if t not in out:
                out.append(t)
    return out


# ---------------------------------------------------------------------------------------------------------------------
def struct_fields(fmt: str, where: str) -> list[tuple[str, int]]:
    if not fmt.startswith(">") and not fmt.startswith("!"):
        raise TranslatorError(f"{where}: struct format {fmt!r} is not explicitly big-endian")
    out = []
    for cnt, code in re.findall(r"(\d*)([A-Za-z?])", fmt[1:]):
        if "".join(c + k for c, k in re.findall(r"(\d*)([A-Za-z?])", fmt[1:])) != fmt[1:]:
            raise TranslatorError(f"{where}: cannot parse struct format {fmt!r}")
        if code == "s":
            out.append(("fixed", int(cnt or 1)))
            continue
        n = int(cnt or 1)
        for _ in range(n):
            if code in UINT:
                out.append(("uint", UINT[code]))
            elif code in SINT:
                out.append(("sint", SINT[code]))
            elif code in FLOAT:
                out.append(("float", FLOAT[code]))
            elif code == "?":
                out.append(("bool", 0))
            elif code == "c":
                out.append(("char", 0))
            else:
                raise TranslatorError(f"{where}: unsupported struct code {code!r} in {fmt!r}")
    if not out:
        raise TranslatorError(f"{where}: empty struct format {fmt!r}")
    return out


def sfield_lean(f) -> str:
    k, n = f
    return {"uint": f".uint {n}", "sint": f".sint {n}", "float": f".float {n}", "fixed": f".fixed {n}",
            "bool": ".bool", "char": ".char"}[k]


def lenw(fmt: str, where: str) -> int:
    if fmt not in LENW:
        raise TranslatorError(f"{where}: length format {fmt!r} is not one of >B >H >I (big-endian)")
    return LENW[fmt]


def packer_to_desc(p, where: str) -> dict:
    """neutral description (dict) of a live packer object"""
    from ipv8.messaging import serialization as S
    from ipv8.messaging.anonymization.payload import Flags
    from ipv8.dht.payload import NodePacker
    import struct
    t = type(p)
    if t is S.DefaultStruct:
        fs = struct_fields(p.format_str, where)
        if struct.calcsize(p.format_str) != p.size:
            raise TranslatorError(f"{where}: DefaultStruct.size {p.size} != calcsize({p.format_str!r})")
        return {"kind": "struct", "fields": [list(f) for f in fs]}
    if t is S.Bits:
        return {"kind": "bits"}
    if t is S.IPv4:
        return {"kind": "ipv4"}
    if t is S.Address:
        return {"kind": "address", "ip_only": bool(p.ip_only)}
    if t is S.Raw:
        return {"kind": "raw"}
    if t in (S.VarLen, S.VarLenUtf8):
        w = lenw(p.length_format, where)
        if p.length_size != w:
            raise TranslatorError(f"{where}: length_size {p.length_size} != size of {p.length_format!r}")
        if not isinstance(p.base, int) or p.base < 1:
            raise TranslatorError(f"{where}: base {p.base!r}")
        return {"kind": "varlen" if t is S.VarLen else "varlenUtf8", "len_width": w, "unit": p.base}
    if t is S.ListOf:
        w = lenw(p.length_format, where)
        if p.length_size != w:
            raise TranslatorError(f"{where}: length_size {p.length_size} != size of {p.length_format!r}")
        if type(p.packer) is S.NestedPayload:
            return {"kind": "payloadList", "len_width": w}
        return {"kind": "listOf", "len_width": w, "elem": packer_to_desc(p.packer, where + "[elem]")}
    if t is S.DefaultArray:
        w = lenw(p.length_format, where)
        if p.length_size != w:
            raise TranslatorError(f"{where}: length_size {p.length_size} != size of {p.length_format!r}")
        kinds = {"?": ("bool", "B", 1), "q": ("q", "q", 8), "d": ("d", "d", 8)}
        if p.format_str not in kinds:
            raise TranslatorError(f"{where}: unsupported array element format {p.format_str!r}")
        k, real, size = kinds[p.format_str]
        if p.real_format_str != real or p.base != size:
            raise TranslatorError(f"{where}: array element {p.format_str!r} stored as {p.real_format_str!r}/{p.base}")
        return {"kind": "array", "len_width": w, "elem": k}
    if t is S.NestedPayload:
        return {"kind": "payload"}
    if t is Flags:
        fs = struct_fields(p.format, where)
        if len(fs) != 1 or fs[0][0] != "uint" or p.size != fs[0][1]:
            raise TranslatorError(f"{where}: Flags format {p.format!r} / size {p.size}")
        return {"kind": "flags", "width": fs[0][1]}
    if t is NodePacker:
        return {"kind": "node"}
    raise TranslatorError(f"{where}: unknown packer class {t.__module__}.{t.__name__}")


def desc_to_lean(d: dict) -> str:
    """Lean `Fmt` term of a description (payload / payloadList have none)"""
    k = d["kind"]
    if k == "struct":
        return "(.struct [" + ", ".join(sfield_lean(tuple(f)) for f in d["fields"]) + "])"
    if k in ("bits", "ipv4", "raw", "node"):
        return "." + k
    if k == "address":
        return f"(.address {'true' if d['ip_only'] else 'false'})"
    if k in ("varlen", "varlenUtf8"):
        return f"(.{k} {d['len_width']} {d['unit']})"
    if k == "listOf":
        return f"(.listOf {d['len_width']} {desc_to_lean(d['elem'])})"
    if k == "array":
        return f"(.array {d['len_width']} .{d['elem']})"
    if k == "flags":
        return f"(.flags {d['width']})"
    raise TranslatorError(f"no Fmt term for {d}")


def pk_lean(d: dict) -> str:
    if d["kind"] == "payload":
        return ".payload"
    if d["kind"] == "payloadList":
        return f".payloadList {d['len_width']}"
    return ".fmt " + desc_to_lean(d)


# ---------------------------------------------------------------------------------------------------------------------
def collect() -> dict:
    import_all()
    from ipv8.messaging.lazy_payload import VariablePayload
    from ipv8.messaging.serialization import Serializable, Serializer
    from ipv8.overlay import Overlay

    # --- registry ----------------------------------------------------------------------------------------------------
    registry: dict[str, dict] = {}
    origin: dict[str, str] = {}
    for name, p in Serializer()._packers.items():
        registry[name] = packer_to_desc(p, f"Serializer[{name!r}]")
        origin[name] = "Serializer"
    overlays = []
    for cls in sorted(allsubs(Overlay), key=lambda c: (c.__module__, c.__qualname__)):
        if ".test" in cls.__module__ or "get_serializer" not in cls.__dict__:
            continue
        try:
            inst = object.__new__(cls)
            ser = inst.get_serializer()
        except Exception as e:
            raise TranslatorError(f"{cls.__qualname__}.get_serializer cannot be evaluated on a bare instance: "
                                  f"{type(e).__name__}: {e}") from e
        overlays.append(f"{cls.__module__}.{cls.__qualname__}")
        for name, p in ser._packers.items():
            d = packer_to_desc(p, f"{cls.__qualname__}.serializer[{name!r}]")
            if name in registry and registry[name] != d:
                raise TranslatorError(f"packer {name!r} is registered differently by {cls.__qualname__} "
                                      f"({d}) and by {origin[name]} ({registry[name]})")
            if name not in registry:
                registry[name] = d
                origin[name] = cls.__qualname__

    # --- payload classes ---------------------------------------------------------------------------------------------
    classes = [c for c in allsubs(Serializable) if ".test" not in c.__module__ and c.__module__.startswith("ipv8.")]
    classes.sort(key=lambda c: (c.__module__, c.__qualname__))
    shortnames = {}
    payloads = []
    for c in classes:
        fl = list(c.format_list)
        if not fl:
            continue
        qn = f"{c.__module__}.{c.__qualname__}"
        if dataclasses.is_dataclass(c):
            kind = "dataclass"
        elif issubclass(c, VariablePayload):
            kind = "vp" if c.to_pack_list is VariablePayload.to_pack_list else "compiled"
        else:
            kind = "old"
        refs = []
        for f in fl:
            if isinstance(f, str):
                refs.append(("name", f))
            elif isinstance(f, list) and len(f) == 1 and isinstance(f[0], type) and issubclass(f[0], Serializable):
                refs.append(("clsList", f"{f[0].__module__}.{f[0].__qualname__}"))
            elif isinstance(f, type) and issubclass(f, Serializable):
                refs.append(("cls", f"{f.__module__}.{f.__qualname__}"))
            else:
                raise TranslatorError(f"{qn}: format_list entry {f!r} is neither a name nor a Serializable")
        names = list(getattr(c, "names", [])) if kind != "old" else []
        hooks = sorted(a for a in dir(c) if a.startswith(("fix_pack_", "fix_unpack_")))
        msg_id = getattr(c, "msg_id", None)
        if msg_id is not None and not (isinstance(msg_id, int) and 0 <= msg_id <= 255):
            raise TranslatorError(f"{qn}: msg_id {msg_id!r} is not a byte")
        payloads.append({"name": qn, "kind": kind, "msg_id": msg_id, "refs": refs, "names": names, "hooks": hooks})
        shortnames[qn] = c

    # --- resolve format lists to Fmt terms (nested classes inlined) -------------------------------------------------
    by_name = {p["name"]: p for p in payloads}

    def resolve(qn: str, stack: tuple) -> list[str]:
        if qn in stack:
            raise TranslatorError(f"recursive payload nesting through {qn}")
        if qn not in by_name:
            raise TranslatorError(f"nested payload class {qn} is not a shipped Serializable with a format_list")
        out = []
        for kind, ref in by_name[qn]["refs"]:
            if kind == "name":
                if ref not in registry:
                    raise TranslatorError(f"{qn}: format {ref!r} is not registered by any serializer")
                d = registry[ref]
                if d["kind"] in ("payload", "payloadList"):
                    raise TranslatorError(f"{qn}: bare {ref!r} in a format_list (needs a class)")
                out.append(desc_to_lean(d))
            elif kind == "cls":
                out.append("(.nested " + fmtlist_lean(resolve(ref, stack + (qn,))) + ")")
            else:
                w = registry["payload-list"]["len_width"]
                out.append(f"(.listOf {w} (.nested " + fmtlist_lean(resolve(ref, stack + (qn,))) + "))")
        return out

    for p in payloads:
        p["fmts"] = resolve(p["name"], ())

    # --- payload_dataclass.type_map: annotation -> format name ----------------------------------------------------
    from ipv8.messaging import payload_dataclass as PD
    probes = {"bool": bool, "int": int, "float": float, "bytes": bytes, "str": str,
              "list[bool]": list[bool], "list[int]": list[int], "list[float]": list[float],
              "tuple[int]": tuple[int], "set[int]": set[int], "tuple[bool]": tuple[bool], "tuple[float]": tuple[float]}
    type_map = {}
    for key, t in probes.items():
        try:
            f = PD.type_map(t)
        except Exception as e:
            raise TranslatorError(f"payload_dataclass.type_map({key}) raises {type(e).__name__}: {e}") from e
        if not isinstance(f, str):
            raise TranslatorError(f"payload_dataclass.type_map({key}) = {f!r} is not a format name")
        type_map[key] = f
    # --- bodies of to_pack_list / from_unpack_list / __init__ of every class, translated (see gen_c02_code.py) ----------
    import gen_c02_code
    try:
        codes = gen_c02_code.collect_code(payloads, lambda qn: shortnames[qn], load_spec().get("old_attr_order", {}))
    except TranslatorError:
        if not TOLERANT_CODE:
            raise
        codes = []      # the harness' fallback after a translator failure: classes and registry are still usable
    return {"registry": registry, "origin": origin, "overlays": overlays, "payloads": payloads, "type_map": type_map,
            "import_skipped": list(IMPORT_SKIPPED), "codes": codes}


def fmtlist_lean(items: list[str]) -> str:
    out = ".nil"
    for it in reversed(items):
        out = f"(.cons {it} {out})"
    return out


def gen_lean(info: dict) -> str:
    o = ["/- GENERATED by tools/gen_c02.py from the live ipv8 package (Serializer registry, overlay serializers, every",
         "   Serializable subclass) — do not edit -/",
         "import Ipv8.C02.Code",
         "namespace Ipv8.C02.Gen",
         "open Ipv8.C02",
         "",
         "/-- what a registered name stands for -/",
         "inductive PK where",
         "  | fmt (f : Fmt)",
         "  | payload",
         "  | payloadList (lenW : Nat)",
         "deriving DecidableEq, Repr",
         "",
         "/-- a `format_list` entry -/",
         "inductive FRef where",
         "  | name (s : String)",
         "  | cls (c : String)",
         "  | clsList (c : String)",
         "deriving DecidableEq, Repr",
         "",
         "structure PayloadDef where",
         "  name : String",
         "  kind : String",
         "  msgId : Option Nat",
         "  refs : List FRef",
         "  names : List String",
         "  hooks : List String",
         "  fmts : FmtList",
         "deriving DecidableEq, Repr",
         "",
         "/-- overlays whose own get_serializer was evaluated: " + ", ".join(info["overlays"]) + " -/",
         "def packers : List (String × PK) := ["]
    items = [f"  ({lstr(n)}, {pk_lean(d)})" for n, d in info["registry"].items()]
    o.append(",\n".join(items))
    o.append("]")
    o.append("")
    defs = []
    for i, p in enumerate(info["payloads"]):
        refs = ", ".join(f".{k} {lstr(r)}" for k, r in p["refs"])
        o.append(f"def p{i} : PayloadDef := {{")
        o.append(f"  name := {lstr(p['name'])}, kind := {lstr(p['kind'])}, "
                 f"msgId := {'none' if p['msg_id'] is None else 'some ' + str(p['msg_id'])},")
        o.append(f"  refs := [{refs}],")
        o.append(f"  names := [{', '.join(lstr(n) for n in p['names'])}],")
        o.append(f"  hooks := [{', '.join(lstr(n) for n in p['hooks'])}],")
        o.append(f"  fmts := {fmtlist_lean(p['fmts'])} }}")
        defs.append(f"p{i}")
    o.append("")
    o.append("def payloads : List PayloadDef := [" + ", ".join(defs) + "]")
    o.append("")
    o.append("/-- payload_dataclass.type_map evaluated on the live module: annotation -> format name -/")
    o.append("def typeMap : List (String × String) := ["
             + ", ".join(f"({lstr(k)}, {lstr(v)})" for k, v in info["type_map"].items()) + "]")
    o.append("")
    import gen_c02_code
    o.append("/-! ### method bodies (to_pack_list / from_unpack_list / __init__) translated from the source of every class -/")
    o.append("")
    idents = []
    for i, c in enumerate(info.get("codes", [])):
        o.append(gen_c02_code.code_lean(c, f"cc{i}"))
        idents.append(f"cc{i}")
    o.append("")
    kinds = {p["name"]: p["kind"] for p in info["payloads"]}
    for i, c in enumerate(info.get("codes", [])):
        if kinds.get(c["name"]) == "old":
            o.append(f"abbrev codeOld_{c['name'].rpartition('.')[2]} : Code.ClassCode := cc{i}")
    o.append("")
    o.append("def classCodes : List Code.ClassCode := [" + ", ".join(idents) + "]")
    o.append("")
    o.append("/-- the translated code of a class by qualified name (an empty class if it is not shipped any more) -/")
    o.append("def codeOf (n : String) : Code.ClassCode :=")
    o.append("  (classCodes.find? (fun c => c.name == n)).getD "
             "{ name := n, attrs := [], pack := [], unpackParams := 0, ctorArgs := [], ctorParams := 0, init := [] }")
    o.append("")
    o.append("end Ipv8.C02.Gen")
    o.append("")
    return "\n".join(o)


# ---------------------------------------------------------------------------------------------------------------------
def load_spec() -> dict:
    try:
        return json.loads(SPEC_JSON.read_text())
    except Exception as e:
        raise TranslatorError(f"cannot read {SPEC_JSON}: {e}") from e


def gen_spec_lean(spec: dict) -> str:
    o = ["/- GENERATED by tools/gen_c02.py from spec/doc_wire_format.json (frozen transcription of the Datatypes table of",
         "   doc/reference/serialization.rst, plus the frozen layouts of the undocumented names) — do not edit -/",
         "import Ipv8.C02.Gen",
         "namespace Ipv8.C02.Spec",
         "open Ipv8.C02 Ipv8.C02.Gen",
         "",
         "/-- documented data types (member column of the table), normalised to format terms -/",
         "def docTable : List (String × PK) := ["]
    o.append(",\n".join(f"  ({lstr(e['name'])}, {pk_lean(e['layout'])})" for e in spec["documented"]))
    o.append("]")
    o.append("")
    o.append("/-- names registered by shipped code that the table does not list; layouts frozen at the pinned commit -/")
    o.append("def frozenTable : List (String × PK) := [")
    o.append(",\n".join(f"  ({lstr(e['name'])}, {pk_lean(e['layout'])})" for e in spec["frozen_undocumented"]))
    o.append("]")
    o.append("")
    o.append("/-- message ids frozen at the pinned commit (class name, msg_id) -/")
    o.append("def frozenMsgIds : List (String × Option Nat) := [")
    o.append(",\n".join(f"  ({lstr(n)}, {'none' if m is None else 'some ' + str(m)})" for n, m in spec["msg_ids"]))
    o.append("]")
    o.append("")
    o.append("/-- payload_dataclass.type_map frozen at the pinned commit -/")
    o.append("def frozenTypeMap : List (String × String) := ["
             + ", ".join(f"({lstr(k)}, {lstr(v)})" for k, v in spec["dataclass_type_map"].items()) + "]")
    o.append("")
    o.append("/-- format_list / names of every shipped class, frozen at the pinned commit -/")
    o.append("def frozenLayouts : List (String × List FRef × List String) := [")
    o.append(",\n".join(
        f"  ({lstr(e['name'])}, [{', '.join('.' + k + ' ' + lstr(r) for k, r in e['refs'])}], "
        f"[{', '.join(lstr(n) for n in e['names'])}])" for e in spec["layouts"]))
    o.append("]")
    o.append("")
    o.append("end Ipv8.C02.Spec")
    o.append("")
    return "\n".join(o)


def translate():
    info = collect()
    spec = load_spec()
    return [("Ipv8/C02/Gen.lean", gen_lean(info)), ("Ipv8/C02/GenSpec.lean", gen_spec_lean(spec))], info, spec


if __name__ == "__main__":
    files, info, _ = translate()
    if "--json" in sys.argv:
        print(json.dumps(info, indent=1, default=str))
    else:
        for rel, src in files:
            print("-- " + rel)
            print(src)
