"""
Translator (C14): ipv8/dht/routing.py (constants and constant-like literals of the routing table)  ->  lean/Ipv8/C14/GenConst.lean

Extracted from the AST of the *current* source (anything else raises TranslatorError and is handled like a broken proof):
  * module constants  MAX_BUCKET_SIZE, NODE_STATUS_GOOD / UNKNOWN / BAD            (integer literals)
  * the identifier width: the "0<W>b" format literal of id_to_binary_string; Bucket.generate_id must use the same W in
    every integer literal that denotes a width (`160 - len(...)`, "0160b") and "0<W/4>X" for the hex form
  * Node.status: the whole decision list in source order (`if <test>: return CODE` statements and a final return that may be
    a conditional expression); each test is classified as the failure-count test `self.failed >= T` or a contact-time test;
    the model evaluates this generated list, so the ORDER of the tests is taken from the source
  * closest_nodes: the default of max_nodes
  * clause-deciding guards as generated booleans that the MODEL consumes (so the theorems are re-proved against them):
    splitGuardOwnId (every split() in RoutingTable.add is dominated by `owns(self.my_node_id)`), splitChildrenInheritCap
    (both Bucket(...) in split get self.max_size), closestFiltersBad / closestExcludesById / closestWalkFromRoot /
    closestSortDistanceFirst, refreshFromOwnGroup (node_maintenance generates the id from `<group>[i]`)
  * Bucket.generate_id: the one random draw that produces the suffix (getrandbits(n), randrange(2**n), randint(0, 2**n - 1),
    randint(0, 2**n), choice('01') per bit) with n = <width> - len(self.prefix_id); its range becomes `genIdDrawBound`
  * Bucket.add: the literal R of `n.rtt / node.rtt >= R` (must be integral), and that the insertion guard is
    `len(self.nodes) < self.max_size` / the eviction guard `len(self.nodes) >= self.max_size`
  * Bucket.split: the refusal test is `len(self.nodes) < self.max_size`
  * Bucket.__init__: default of max_size is MAX_BUCKET_SIZE
  * RoutingTable.closest_nodes: the break test is `len(nodes) > max_nodes` (Gt) or `>=` (GtE) — recorded as a Bool
The theorems in Props.lean that mention the code's constants quantify over these generated definitions.
"""
from __future__ import annotations

import ast
import re

from vlib import REPO, TranslatorError

SRC = "ipv8/dht/routing.py"


def _const_int(node, what):
    if isinstance(node, ast.Constant) and isinstance(node.value, int) and not isinstance(node.value, bool):
        return node.value
    raise TranslatorError(f"{what}: expected an integer literal, got {ast.dump(node)[:80]}")


def _fn(body, name, what):
    for n in body:
        if isinstance(n, (ast.FunctionDef, ast.AsyncFunctionDef)) and n.name == name:
            return n
    raise TranslatorError(f"{what}.{name} not found")


def _cls(tree, name):
    for n in tree.body:
        if isinstance(n, ast.ClassDef) and n.name == name:
            return n
    raise TranslatorError(f"class {name} not found")


def _is_len_self_nodes(e):
    return (isinstance(e, ast.Call) and isinstance(e.func, ast.Name) and e.func.id == "len" and len(e.args) == 1
            and isinstance(e.args[0], ast.Attribute) and e.args[0].attr == "nodes"
            and isinstance(e.args[0].value, ast.Name) and e.args[0].value.id == "self")


def _is_self_attr(e, attr):
    return isinstance(e, ast.Attribute) and e.attr == attr and isinstance(e.value, ast.Name) and e.value.id == "self"


PROTECTED_NAMES = {"NODE_STATUS_GOOD", "NODE_STATUS_UNKNOWN", "NODE_STATUS_BAD", "MAX_BUCKET_SIZE"}


def _module_int_constants(tree) -> dict:
    """module-level `NAME = <integer expression over literals and earlier such names>` (never re-assigned at module level)"""
    env, seen = {}, {}

    def ev(e):
        if isinstance(e, ast.Constant) and isinstance(e.value, int) and not isinstance(e.value, bool):
            return e.value
        if isinstance(e, ast.Name) and e.id in env:
            return env[e.id]
        if isinstance(e, ast.UnaryOp) and isinstance(e.op, ast.USub):
            return -ev(e.operand)
        if isinstance(e, ast.BinOp) and type(e.op) in (ast.Add, ast.Sub, ast.Mult, ast.FloorDiv, ast.Pow):
            a, b = ev(e.left), ev(e.right)
            return {ast.Add: lambda: a + b, ast.Sub: lambda: a - b, ast.Mult: lambda: a * b,
                    ast.FloorDiv: lambda: a // b, ast.Pow: lambda: a ** b if 0 <= b <= 64 else 1 // 0}[type(e.op)]()
        raise ValueError
    for n in tree.body:
        targets = n.targets if isinstance(n, ast.Assign) else [n.target] if isinstance(n, ast.AnnAssign) and n.value else []
        for t in targets:
            if isinstance(t, ast.Name):
                seen[t.id] = seen.get(t.id, 0) + 1
                try:
                    env[t.id] = ev(n.value)
                except (ValueError, ZeroDivisionError, KeyError):
                    env.pop(t.id, None)
    return {k: v for k, v in env.items() if seen.get(k) == 1 and k not in PROTECTED_NAMES}


class _Normalise(ast.NodeTransformer):
    """equivalent rewrites that the extraction below should not care about: named module-level integer constants are
    replaced by their values inside functions (unless a local or parameter shadows them), and f-strings / str.format-free
    format specs whose pieces are all literals are folded to one string literal (f"0{160}b" -> "0160b")"""

    def __init__(self, consts):
        self.consts = consts
        self.shadow = [set()]

    def visit_FunctionDef(self, node):
        local = {a.arg for a in node.args.args + node.args.kwonlyargs + node.args.posonlyargs}
        for x in ast.walk(node):
            if isinstance(x, ast.Name) and isinstance(x.ctx, (ast.Store, ast.Del)):
                local.add(x.id)
            elif isinstance(x, (ast.Global, ast.Nonlocal)):
                local.update(x.names)
        self.shadow.append(local)
        self.generic_visit(node)
        self.shadow.pop()
        return node
    visit_AsyncFunctionDef = visit_FunctionDef

    def visit_Name(self, node):
        if len(self.shadow) > 1 and isinstance(node.ctx, ast.Load) and node.id in self.consts \
                and not any(node.id in sh for sh in self.shadow):
            return ast.copy_location(ast.Constant(self.consts[node.id]), node)
        return node

    def visit_JoinedStr(self, node):
        self.generic_visit(node)
        parts = []
        for v in node.values:
            if isinstance(v, ast.Constant) and isinstance(v.value, str):
                parts.append(v.value)
            elif isinstance(v, ast.FormattedValue) and v.conversion == -1 and v.format_spec is None \
                    and isinstance(v.value, ast.Constant) and isinstance(v.value.value, int) and not isinstance(v.value.value, bool):
                parts.append(str(v.value.value))
            else:
                return node
        return ast.copy_location(ast.Constant("".join(parts)), node)


def _normalise(tree):
    tree = _Normalise(_module_int_constants(tree)).visit(tree)
    ast.fix_missing_locations(tree)
    return tree


def _private_helpers(cls, root):
    """the methods of `cls` reachable from `root` through calls `self._name(...)` / `<Class>._name(...)` / `cls._name(...)`
    (private helpers only), root first"""
    methods = {n.name: n for n in cls.body if isinstance(n, (ast.FunctionDef, ast.AsyncFunctionDef))}
    out, todo = [root], [root]
    while todo:
        f = todo.pop()
        for c in ast.walk(f):
            if isinstance(c, ast.Call) and isinstance(c.func, ast.Attribute) and c.func.attr.startswith("_") \
                    and not c.func.attr.startswith("__") and isinstance(c.func.value, ast.Name) \
                    and c.func.value.id in ("self", "cls", cls.name) and c.func.attr in methods:
                h = methods[c.func.attr]
                if h not in out:
                    out.append(h)
                    todo.append(h)
    return out


def extract() -> dict:
    tree = _normalise(ast.parse((REPO / SRC).read_text()))
    consts = {}
    for n in tree.body:
        if isinstance(n, ast.Assign) and len(n.targets) == 1 and isinstance(n.targets[0], ast.Name):
            name = n.targets[0].id
            if name in ("MAX_BUCKET_SIZE", "NODE_STATUS_GOOD", "NODE_STATUS_UNKNOWN", "NODE_STATUS_BAD"):
                consts[name] = _const_int(n.value, name)
    for k in ("MAX_BUCKET_SIZE", "NODE_STATUS_GOOD", "NODE_STATUS_UNKNOWN", "NODE_STATUS_BAD"):
        if k not in consts:
            raise TranslatorError(f"constant {k} not found")
    if len({consts["NODE_STATUS_GOOD"], consts["NODE_STATUS_UNKNOWN"], consts["NODE_STATUS_BAD"]}) != 3:
        raise TranslatorError("node status codes are not distinct")

    # identifier width
    f = _fn(tree.body, "id_to_binary_string", "module")
    fmts = [c.value for c in ast.walk(f) if isinstance(c, ast.Constant) and isinstance(c.value, str)
            and re.fullmatch(r"0\d+b", c.value)]
    if len(fmts) != 1:
        raise TranslatorError("id_to_binary_string: expected exactly one '0<W>b' format literal")
    width = int(fmts[0][1:-1])
    if width % 8:
        raise TranslatorError("identifier width is not a whole number of bytes")

    bucket = _cls(tree, "Bucket")
    gen = _fn(bucket.body, "generate_id", "Bucket")
    for c in ast.walk(gen):
        if isinstance(c, ast.Constant) and isinstance(c.value, int) and not isinstance(c.value, bool):
            if c.value not in (0, 1, 2, width):
                raise TranslatorError(f"Bucket.generate_id: integer literal {c.value} is not the identifier width {width}")
        if isinstance(c, ast.Constant) and isinstance(c.value, str):
            s = c.value
            if re.fullmatch(r"0\d+b", s) and int(s[1:-1]) != width:
                raise TranslatorError(f"Bucket.generate_id: format {s!r} disagrees with width {width}")
            if re.fullmatch(r"0\d+[xX]", s) and int(s[1:-1]) * 4 != width:
                raise TranslatorError(f"Bucket.generate_id: format {s!r} disagrees with width {width}")

    # Bucket.generate_id: which draw produces the suffix, and its range (exclusive upper bound as a function of n)
    def is_suffix_len(e, names):
        """`W - len(self.prefix_id)` or a local name bound to it"""
        if isinstance(e, ast.Name) and e.id in names:
            return True
        return (isinstance(e, ast.BinOp) and isinstance(e.op, ast.Sub) and isinstance(e.left, ast.Constant)
                and e.left.value == width and isinstance(e.right, ast.Call) and isinstance(e.right.func, ast.Name)
                and e.right.func.id == "len" and len(e.right.args) == 1 and _is_self_attr(e.right.args[0], "prefix_id"))

    def pow2(e, names):
        """2 ** n"""
        return (isinstance(e, ast.BinOp) and isinstance(e.op, ast.Pow) and isinstance(e.left, ast.Constant)
                and e.left.value == 2 and is_suffix_len(e.right, names))

    n_names = set()
    for st in gen.body:
        if isinstance(st, ast.Assign) and len(st.targets) == 1 and isinstance(st.targets[0], ast.Name) \
                and is_suffix_len(st.value, set()):
            n_names.add(st.targets[0].id)
    draws = []
    for c in ast.walk(gen):
        if isinstance(c, ast.Call):
            fn = c.func.attr if isinstance(c.func, ast.Attribute) else c.func.id if isinstance(c.func, ast.Name) else None
            if fn == "getrandbits" and len(c.args) == 1 and is_suffix_len(c.args[0], n_names):
                draws.append(("getrandbits(n)", 0))
            elif fn == "randrange" and len(c.args) == 1 and pow2(c.args[0], n_names):
                draws.append(("randrange(2**n)", 0))
            elif fn == "randint" and len(c.args) == 2 and isinstance(c.args[0], ast.Constant) and c.args[0].value == 0:
                hi = c.args[1]
                if pow2(hi, n_names):
                    draws.append(("randint(0, 2**n)", 1))          # inclusive bound: one value too many
                elif isinstance(hi, ast.BinOp) and isinstance(hi.op, ast.Sub) and pow2(hi.left, n_names) \
                        and isinstance(hi.right, ast.Constant) and hi.right.value == 1:
                    draws.append(("randint(0, 2**n - 1)", 0))
                else:
                    raise TranslatorError("Bucket.generate_id: randint with an upper bound outside the translated shapes")
            elif fn == "choice" and len(c.args) == 1 and isinstance(c.args[0], ast.Constant) and c.args[0].value in ("01", "10"):
                draws.append(("choice('01') per bit", 0))
            elif fn in ("getrandbits", "randrange", "randint", "choice", "choices", "randbytes", "random", "urandom",
                        "randbits", "token_bytes", "sample", "shuffle"):
                raise TranslatorError(f"Bucket.generate_id: random draw `{fn}(...)` outside the translated shapes")
    if len(draws) != 1:
        raise TranslatorError(f"Bucket.generate_id: expected exactly one recognised random draw, found {len(draws)}")
    gen_draw, gen_excess = draws[0]

    # Node.status: decision list in source order
    node_cls = _cls(tree, "Node")
    status = _fn(node_cls.body, "status", "Node")
    codes = {"NODE_STATUS_GOOD": consts["NODE_STATUS_GOOD"], "NODE_STATUS_UNKNOWN": consts["NODE_STATUS_UNKNOWN"],
             "NODE_STATUS_BAD": consts["NODE_STATUS_BAD"]}
    thr_seen = []

    def test_kind(t):
        """True = tests the failure count (`self.failed >= T`), False = a contact-time test (mentions last_response /
        last_query and not `failed`)"""
        if isinstance(t, ast.Compare) and _is_self_attr(t.left, "failed") and len(t.ops) == 1 \
                and isinstance(t.ops[0], ast.GtE):
            thr_seen.append(_const_int(t.comparators[0], "Node.status failed threshold"))
            return True
        if isinstance(t, ast.Compare) and len(t.ops) == 1 and isinstance(t.ops[0], ast.LtE) \
                and _is_self_attr(t.comparators[0], "failed"):
            thr_seen.append(_const_int(t.left, "Node.status failed threshold"))
            return True
        names = {n.attr for n in ast.walk(t) if isinstance(n, ast.Attribute)}
        if "failed" in names:
            raise TranslatorError("Node.status: a test mixes `failed` with other conditions: " + ast.dump(t)[:100])
        if names & {"last_response", "last_query", "last_queries", "last_contact"}:
            return False
        raise TranslatorError("Node.status: unrecognised test " + ast.dump(t)[:100])

    def code_of(e):
        if isinstance(e, ast.Name) and e.id in codes:
            return codes[e.id]
        raise TranslatorError("Node.status: returns something that is not a status constant: " + ast.dump(e)[:80])

    rules, default = [], None

    def ret_expr(e):
        nonlocal default
        while isinstance(e, ast.IfExp):
            rules.append((test_kind(e.test), code_of(e.body)))
            e = e.orelse
        default = code_of(e)

    for st in status.body:
        if isinstance(st, ast.Expr) and isinstance(st.value, ast.Constant):      # docstring
            continue
        if isinstance(st, ast.Assign):                                            # now = time.time()
            continue
        if default is not None:
            raise TranslatorError("Node.status: statements after the final return")
        if isinstance(st, ast.If) and not st.orelse and len(st.body) == 1 and isinstance(st.body[0], ast.Return):
            rules.append((test_kind(st.test), code_of(st.body[0].value)))
        elif isinstance(st, ast.Return):
            ret_expr(st.value)
        else:
            raise TranslatorError("Node.status: unsupported statement " + ast.dump(st)[:100])
    if default is None or not thr_seen or len(set(thr_seen)) != 1:
        raise TranslatorError("Node.status: no single `self.failed >= T` test / no final return")
    thr = thr_seen[0]

    # Bucket.add guards and rtt ratio
    add = _fn(bucket.body, "add", "Bucket")
    ratio = None
    ins_guard = evict_guard = False
    # Bucket.add and the private helpers it calls (an extracted `_make_room(node)` keeps the eviction test where the model expects it)
    for c in [x for f_ in _private_helpers(bucket, add) for x in ast.walk(f_)]:
        if isinstance(c, ast.Compare) and len(c.ops) == 1:
            l, op, r = c.left, c.ops[0], c.comparators[0]
            if isinstance(l, ast.BinOp) and isinstance(l.op, ast.Div) and isinstance(op, ast.GtE) \
                    and isinstance(r, ast.Constant) and isinstance(r.value, (int, float)):
                if isinstance(l.left, ast.Attribute) and l.left.attr == "rtt" and isinstance(l.right, ast.Attribute) \
                        and l.right.attr == "rtt":
                    if float(r.value) != int(r.value):
                        raise TranslatorError("Bucket.add: rtt ratio is not integral")
                    ratio = int(r.value)
            if _is_len_self_nodes(l) and _is_self_attr(r, "max_size"):
                if isinstance(op, ast.Lt):
                    ins_guard = True
                elif isinstance(op, ast.GtE):
                    evict_guard = True
                else:
                    raise TranslatorError(f"Bucket.add: unexpected capacity comparison {type(op).__name__}")
    if ratio is None:
        raise TranslatorError("Bucket.add: `n.rtt / node.rtt >= R` not found")
    if not ins_guard or not evict_guard:
        raise TranslatorError("Bucket.add: capacity guards `len(self.nodes) >= self.max_size` / `< self.max_size` not found")

    # split guard
    split = _fn(bucket.body, "split", "Bucket")
    ok = False
    for c in ast.walk(split):
        if isinstance(c, ast.Compare) and len(c.ops) == 1 and _is_len_self_nodes(c.left) \
                and _is_self_attr(c.comparators[0], "max_size"):
            if not isinstance(c.ops[0], ast.Lt):
                raise TranslatorError("Bucket.split: refusal test is not `len(self.nodes) < self.max_size`")
            ok = True
    if not ok:
        raise TranslatorError("Bucket.split: refusal test not found")

    # Bucket.__init__ default capacity
    init = _fn(bucket.body, "__init__", "Bucket")
    args = [a.arg for a in init.args.args]
    if "max_size" not in args or not init.args.defaults:
        raise TranslatorError("Bucket.__init__: max_size default not found")
    d = init.args.defaults[len(init.args.defaults) - (len(args) - args.index("max_size"))]
    if not (isinstance(d, ast.Name) and d.id == "MAX_BUCKET_SIZE"):
        raise TranslatorError("Bucket.__init__: default of max_size is not MAX_BUCKET_SIZE")

    # closest_nodes break test
    rt = _cls(tree, "RoutingTable")
    cn = _fn(rt.body, "closest_nodes", "RoutingTable")
    strict = None
    for c in ast.walk(cn):
        if isinstance(c, ast.If) and any(isinstance(b, ast.Break) for b in c.body) and isinstance(c.test, ast.Compare):
            t = c.test
            if len(t.ops) == 1 and isinstance(t.comparators[0], ast.Name) and t.comparators[0].id == "max_nodes":
                if isinstance(t.ops[0], ast.Gt):
                    strict = True
                elif isinstance(t.ops[0], ast.GtE):
                    strict = False
    if strict is None:
        raise TranslatorError("closest_nodes: break test `len(nodes) > max_nodes` (or >=) not found")

    # ---- clause-deciding guards, read from the source as booleans that the model CONSUMES (the theorems need them true) ----
    def mentions(e, pred):
        return any(pred(x) for x in ast.walk(e))

    def is_owns_own_id(x):
        return (isinstance(x, ast.Call) and isinstance(x.func, ast.Attribute) and x.func.attr == "owns" and len(x.args) == 1
                and _is_self_attr(x.args[0], "my_node_id"))

    def is_split_call(x):
        return isinstance(x, ast.Call) and isinstance(x.func, ast.Attribute) and x.func.attr == "split" and not x.args

    # RoutingTable.add: every `.split()` is dominated by a test of `<bucket>.owns(self.my_node_id)`
    radd = _fn(rt.body, "add", "RoutingTable")

    def guarded(stmts, under_guard):
        """False as soon as a split() call is reachable without a preceding/enclosing own-id test"""
        g = under_guard
        for st in stmts:
            if isinstance(st, ast.If):
                pos = mentions(st.test, is_owns_own_id) and not (isinstance(st.test, ast.UnaryOp) and isinstance(st.test.op, ast.Not))
                neg = isinstance(st.test, ast.UnaryOp) and isinstance(st.test.op, ast.Not) and mentions(st.test.operand, is_owns_own_id)
                if mentions(st.test, is_split_call) and not g:
                    return False
                if not guarded(st.body, g or pos):
                    return False
                if not guarded(st.orelse, g or neg):
                    return False
                if neg and st.body and isinstance(st.body[-1], (ast.Return, ast.Raise, ast.Break, ast.Continue)):
                    g = True        # `if not owns(own id): return ...` guards what follows
            elif isinstance(st, (ast.With, ast.For, ast.While, ast.Try)):
                inner = list(st.body) + list(getattr(st, "orelse", [])) + list(getattr(st, "finalbody", []))
                for h in getattr(st, "handlers", []):
                    inner += h.body
                if isinstance(st, ast.While) and mentions(st.test, is_split_call) and not g:
                    return False
                if not guarded(inner, g):
                    return False
            else:
                if isinstance(st, ast.Assign) and isinstance(st.value, ast.Call) and is_owns_own_id(st.value):
                    pass    # can_split = bucket.owns(own id): only recognised when tested directly; treated as unguarded
                if mentions(st, is_split_call) and not g:
                    return False
        return True

    # private helpers that (transitively) contain a split(): a call of such a helper counts as a split() call, and the
    # direct split() inside the helper is covered by the guards at ALL of its call sites
    rt_methods = {n.name: n for n in rt.body if isinstance(n, (ast.FunctionDef, ast.AsyncFunctionDef))}
    direct_split = is_split_call
    splitters = {name for name, f in rt_methods.items() if name.startswith("_") and not name.startswith("__")
                 and mentions(f, direct_split)}
    changed = True
    while changed:
        changed = False
        for name, f in rt_methods.items():
            if name.startswith("_") and not name.startswith("__") and name not in splitters and mentions(
                    f, lambda x: isinstance(x, ast.Call) and isinstance(x.func, ast.Attribute) and x.func.attr in splitters
                    and isinstance(x.func.value, ast.Name) and x.func.value.id in ("self", "cls", "RoutingTable")):
                splitters.add(name)
                changed = True

    def is_split_call(x):  # noqa: F811  (from here on: a direct split() or a call of a splitting private helper)
        return direct_split(x) or (isinstance(x, ast.Call) and isinstance(x.func, ast.Attribute) and x.func.attr in splitters
                                   and isinstance(x.func.value, ast.Name) and x.func.value.id in ("self", "cls", "RoutingTable"))
    if not mentions(radd, is_split_call):
        raise TranslatorError("RoutingTable.add: no call of split() (direct or through a private helper) found")
    # every method that can reach a split() must guard it - except inside the splitting helpers themselves, whose own call
    # sites carry the guard
    split_guard = all(guarded(f.body, False) for name, f in rt_methods.items()
                      if name not in splitters and mentions(f, is_split_call))

    # Bucket.split: both children are constructed with the parent's capacity
    kids = [c for c in ast.walk(split) if isinstance(c, ast.Call) and isinstance(c.func, ast.Name) and c.func.id == "Bucket"]
    if len(kids) != 2:
        raise TranslatorError("Bucket.split: expected exactly two Bucket(...) constructions")

    def passes_cap(c):
        return (len(c.args) >= 2 and _is_self_attr(c.args[1], "max_size")) or \
            any(k.arg == "max_size" and _is_self_attr(k.value, "max_size") for k in c.keywords)
    inherit_cap = all(passes_cap(c) for c in kids)

    # closest_nodes: the filter, the range of the level walk, the sort key
    cn_scope = _private_helpers(rt, cn)         # closest_nodes and the private helpers it collects through
    cn_nodes = [x for f in cn_scope for x in ast.walk(f)]
    comp_ifs = [i for c in cn_nodes if isinstance(c, (ast.DictComp, ast.SetComp, ast.ListComp, ast.GeneratorExp))
                for g_ in c.generators for i in g_.ifs]
    all_tests = comp_ifs + [c.test for c in cn_nodes if isinstance(c, ast.If)]

    def is_bad_filter(x):
        return (isinstance(x, ast.Compare) and len(x.ops) == 1 and isinstance(x.ops[0], ast.NotEq)
                and isinstance(x.left, ast.Attribute) and x.left.attr == "status"
                and isinstance(x.comparators[0], ast.Name) and x.comparators[0].id == "NODE_STATUS_BAD")

    def is_id_exclusion(x):
        return (isinstance(x, ast.Compare) and len(x.ops) == 1 and isinstance(x.ops[0], ast.NotEq)
                and isinstance(x.left, ast.Attribute) and x.left.attr == "id"
                and isinstance(x.comparators[0], ast.Attribute) and x.comparators[0].attr == "id")
    # the same filters written as `if <...> == ...: continue` inside the collecting loop
    def skips(c, attr, rhs_ok):
        return (isinstance(c, ast.If) and c.body and isinstance(c.body[-1], ast.Continue) and not c.orelse and mentions(
            c.test, lambda x: isinstance(x, ast.Compare) and len(x.ops) == 1 and isinstance(x.ops[0], ast.Eq)
            and isinstance(x.left, ast.Attribute) and x.left.attr == attr and rhs_ok(x.comparators[0])))
    skip_bad = any(skips(c, "status", lambda r: isinstance(r, ast.Name) and r.id == "NODE_STATUS_BAD") for c in cn_nodes)
    skip_excl = any(skips(c, "id", lambda r: isinstance(r, ast.Attribute) and r.attr == "id") for c in cn_nodes)
    filters_bad = skip_bad or any(mentions(t, is_bad_filter) for t in all_tests)
    excludes_by_id = skip_excl or any(mentions(t, is_id_exclusion) for t in all_tests)
    from_root = None
    for c in ast.walk(cn):
        if isinstance(c, ast.For):
            it = c.iter
            if isinstance(it, ast.Call) and isinstance(it.func, ast.Name) and it.func.id == "reversed" and it.args:
                it = it.args[0]
            if isinstance(it, ast.Call) and isinstance(it.func, ast.Name) and it.func.id == "range" \
                    and mentions(it, lambda x: isinstance(x, ast.Name) and x.id == "prefix"):
                if len(it.args) == 1:
                    from_root = True
                else:
                    from_root = isinstance(it.args[0], ast.Constant) and it.args[0].value == 0
    if from_root is None:
        raise TranslatorError("closest_nodes: the loop over range(len(prefix) + 1) was not found")
    dist_first = None
    for c in ast.walk(cn):
        if isinstance(c, ast.Call) and isinstance(c.func, ast.Name) and c.func.id == "sorted":
            for k in c.keywords:
                if k.arg == "key" and isinstance(k.value, ast.Lambda):
                    body = k.value.body
                    first = body.elts[0] if isinstance(body, ast.Tuple) and body.elts else body
                    dist_first = isinstance(first, ast.Call) and (
                        (isinstance(first.func, ast.Name) and first.func.id == "distance")
                        or (isinstance(first.func, ast.Attribute) and first.func.attr == "distance"))
    if dist_first is None:
        raise TranslatorError("closest_nodes: sorted(..., key=lambda ...) not found")

    # DHTCommunity.node_maintenance: the refresh id is generated from a bucket of the group that is being refreshed
    refresh_own = None
    try:
        ctree = ast.parse((REPO / "ipv8/dht/community.py").read_text())
        nm = _fn(_cls(ctree, "DHTCommunity").body, "node_maintenance", "DHTCommunity")
    except (OSError, TranslatorError) as e:
        raise TranslatorError(f"DHTCommunity.node_maintenance not found: {e}")
    nm = nm if not isinstance(nm, ast.AsyncFunctionDef) else nm
    for c in ast.walk(nm):
        if isinstance(c, (ast.For, ast.AsyncFor)) and isinstance(c.target, ast.Name):
            group = c.target.id
            gens = [x for x in ast.walk(c) if isinstance(x, ast.Call) and isinstance(x.func, ast.Attribute)
                    and x.func.attr == "generate_id"]
            if gens:
                recv = gens[0].func.value
                # `<group>[<index>].generate_id()`, or a loop variable of an enclosing/earlier `for b in <group>` in this body
                if isinstance(recv, ast.Subscript) and isinstance(recv.value, ast.Name) and recv.value.id == group:
                    refresh_own = True
                else:
                    refresh_own = False
    if refresh_own is None:
        raise TranslatorError("DHTCommunity.node_maintenance: the generate_id() call inside the refresh loop was not found")

    # closest_nodes default of max_nodes
    cargs = [a.arg for a in cn.args.args]
    if "max_nodes" not in cargs:
        raise TranslatorError("closest_nodes: parameter max_nodes not found")
    dflt = cn.args.defaults[len(cn.args.defaults) - (len(cargs) - cargs.index("max_nodes"))]
    default_k = _const_int(dflt, "closest_nodes max_nodes default")

    return {"splitGuardOwnId": split_guard, "splitChildrenInheritCap": inherit_cap, "closestFiltersBad": filters_bad,
            "closestExcludesById": excludes_by_id, "closestWalkFromRoot": from_root, "closestSortDistanceFirst": dist_first,
            "refreshFromOwnGroup": refresh_own, "genIdDraw": gen_draw, "genIdDrawExcess": gen_excess, "statusRules": rules, "statusDefault": default, "closestDefaultK": default_k,
            "maxBucketSize": consts["MAX_BUCKET_SIZE"], "idWidth": width, "statusGood": consts["NODE_STATUS_GOOD"],
            "statusUnknown": consts["NODE_STATUS_UNKNOWN"], "statusBad": consts["NODE_STATUS_BAD"],
            "badFailedThreshold": thr, "rttRatio": ratio, "closestBreakStrict": strict}


def translate() -> tuple[str, dict]:
    c = extract()
    lines = ["/- GENERATED by tools/gen_c14.py from ipv8/dht/routing.py — do not edit -/",
             "namespace Ipv8.C14.Gen", ""]
    for k, v in c.items():
        if k == "genIdDraw":
            lines.append(f"-- Bucket.generate_id draws its suffix with {v}")
            continue
        if k == "genIdDrawExcess":
            lines.append("/-- exclusive upper bound of the value the random draw in Bucket.generate_id can return, for a suffix of n bits -/")
            lines.append(f"def genIdDrawBound (n : Nat) : Nat := 2 ^ n + {v}")
            continue
        if isinstance(v, list):
            items = ", ".join(f"({'true' if a else 'false'}, {b})" for a, b in v)
            lines.append(f"def {k} : List (Bool × Nat) := [{items}]")
        elif isinstance(v, bool):
            lines.append(f"def {k} : Bool := {'true' if v else 'false'}")
        else:
            lines.append(f"def {k} : Nat := {v}")
    lines += ["", "end Ipv8.C14.Gen", ""]
    return "\n".join(lines), c


if __name__ == "__main__":
    print(translate()[0])
