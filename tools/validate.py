"""Validate MANIFEST.json and every evidence file against the schemas (run with python3-vt, which has jsonschema)."""
import json
import sys
from pathlib import Path

import jsonschema

V = Path(__file__).resolve().parent.parent
ms = json.load(open("/root/.vp/MANIFEST.schema.json"))
es = json.load(open("/root/.vp/EVIDENCE.schema.json"))
m = json.load(open(V / "MANIFEST.json"))
jsonschema.validate(m, ms)
bad = 0
for c in m["checks"]:
    f = V / c["evidence_file"]
    if not f.exists():
        print("missing evidence", f)
        bad += 1
        continue
    try:
        e = json.load(open(f))
        jsonschema.validate(e, es)
        cov = e["coverage"]
        if e["level"] == "proof" and cov.get("obligations") != cov.get("discharged"):
            print("undischarged", f, cov.get("obligations"), cov.get("discharged"))
            bad += 1
    except Exception as ex:
        print("invalid", f, str(ex)[:200])
        bad += 1
ids = {c["property_id"] for c in m["checks"]} | {n["property_id"] for n in m.get("not_applicable", [])}
print(f"manifest ok: {len(m['checks'])} checks, {len(m.get('not_applicable', []))} n/a, {len(ids)} ids, {bad} evidence problems")
sys.exit(1 if bad else 0)
