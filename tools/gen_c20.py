"""
Translator for C20:  /repo (live classes + AST of payload_dataclass.type_map)  ->  lean/Ipv8/C20/Gen.lean

Generated:
  registeredFormats   names registered in a fresh ipv8.messaging.serialization.Serializer (live object)
  overlayFormats      names added by overlays through add_packer (found by AST search for add_packer("<lit>", ...))
  typeMapTable        what the live type_map returns on bool/int/float/bytes/str (finite domain, so this IS the function
                      there), cross-checked with the literal table in the source when its shape is recognised
  arrayPrefix         type_map(list[int]) minus type_map(int)
  typeVarBranch       whether type_map(type_from_format(x)) == x
  newGuard            how DataClassPayload(.WID).__new__ reach convert_to_payload: always | ifNoFormatList | oncePerClass
                      (AST; for an unrecognised spelling a probe on the live classes) | unknown
  shipped             every VariablePayload subclass defined in the ipv8 package outside ipv8.test:
                      format_list (strings / nested classes / [class]), names, hooks found with dir(), and the
                      `__init__` defined in the class body, if any (parameters must be exactly the field names,
                      optionally followed by **kwargs; anything else raises TranslatorError)
A construct outside this subset raises TranslatorError (handled by the runner like a broken proof).
"""
from __future__ import annotations

import ast
import importlib
import inspect
import pkgutil
import sys

from vlib import REPO, TranslatorError

SKIP_MODULE_PARTS = (".test", "lan_addresses")
IMPORT_FAILURES: dict = {}


def shipped_classes():
    if str(REPO) not in sys.path:
        sys.path.insert(0, str(REPO))
    import ipv8
    from ipv8.messaging.lazy_payload import VariablePayload
    for m in pkgutil.walk_packages(ipv8.__path__, "ipv8."):
        if any(p in m.name for p in SKIP_MODULE_PARTS):
            continue
        try:
            importlib.import_module(m.name)
        except ImportError as e:   # optional dependencies (netifaces, WinDLL): recorded in the evidence
            IMPORT_FAILURES[m.name] = f"{type(e).__name__}: {e}"[:120]
        except Exception as e:  # noqa: BLE001  a module of the package that no longer imports would hide its payloads
            raise TranslatorError(f"module {m.name} does not import: {type(e).__name__}: {e}") from e

    def subs(c):
        out = set()
        for s in c.__subclasses__():
            out.add(s)
            out |= subs(s)
        return out

    res = [c for c in subs(VariablePayload)
           if c.__module__.startswith("ipv8.") and ".test" not in c.__module__ and "<locals>" not in c.__qualname__]
    return sorted(res, key=lambda c: (c.__module__, c.__qualname__))


class UnsupportedInit(Exception):
    """a shipped class whose own __init__ is outside the model: listed, not translated (the theorems do not cover it)"""


def lstr(s: str) -> str:
    return '"' + s.replace("\\", "\\\\").replace('"', '\\"') + '"'


def llist(xs) -> str:
    return "[" + ", ".join(xs) + "]"


def lean_fmt(f) -> str:
    if isinstance(f, str):
        return f".str {lstr(f)}"
    if isinstance(f, list):
        if len(f) != 1 or not isinstance(f[0], type):
            raise TranslatorError(f"unsupported list format {f!r}")
        return f".lst {lstr(f[0].__name__)}"
    if isinstance(f, type):
        return f".cls {lstr(f.__name__)}"
    raise TranslatorError(f"unsupported format entry {f!r}")


def class_init_info(cls):
    """(userInit, defaults) from the class body that defines __init__ (None when VariablePayload's is used)"""
    from ipv8.messaging.lazy_payload import VariablePayload
    for k in cls.__mro__:
        if k is VariablePayload:
            return None, []
        if not issubclass(k, VariablePayload):
            continue
        try:
            src = inspect.getsource(k)
        except (OSError, TypeError):
            continue
        node = ast.parse(inspect.cleandoc("\n" + src) if src.startswith(" ") else src).body[0]
        for st in node.body:
            if isinstance(st, ast.FunctionDef) and st.name == "__init__":
                a = st.args
                params = [x.arg for x in a.args][1:]
                if a.vararg or a.kwonlyargs or a.posonlyargs or params != list(cls.names):
                    raise UnsupportedInit(f"{cls.__name__}.__init__ is not of the shape (self, <names>[, **kwargs])")
                nd = len(a.defaults)
                return a.kwarg is not None, params[len(params) - nd:] if nd else []
    return None, []


NATIVE_TYPES = [("bool", bool), ("int", int), ("float", float), ("bytes", bytes), ("str", str)]


def type_map_table_ast():
    """the literal table as written in the source (`if t is X: return "fmt"` chain, `==` accepted, or a dict literal
    {X: "fmt", ...}); None when the source has another shape (the live table below is what the theorems use)"""
    path = REPO / "ipv8/messaging/payload_dataclass.py"
    tree = ast.parse(path.read_text())
    fn = next((n for n in tree.body if isinstance(n, ast.FunctionDef) and n.name == "type_map"), None)
    if fn is None:
        return None
    table = []
    for st in ast.walk(fn):
        if (isinstance(st, ast.If) and isinstance(st.test, ast.Compare) and len(st.test.ops) == 1
                and isinstance(st.test.ops[0], (ast.Is, ast.Eq)) and isinstance(st.test.left, ast.Name)
                and isinstance(st.test.comparators[0], ast.Name) and len(st.body) == 1
                and isinstance(st.body[0], ast.Return) and isinstance(st.body[0].value, ast.Constant)
                and isinstance(st.body[0].value.value, str)):
            table.append((st.test.comparators[0].id, st.body[0].value.value))
    if not table:
        for node in ast.walk(tree):
            if isinstance(node, ast.Dict) and node.keys and all(isinstance(k, ast.Name) for k in node.keys) \
                    and all(isinstance(v, ast.Constant) and isinstance(v.value, str) for v in node.values) \
                    and {k.id for k in node.keys} >= {"bool", "int"}:
                table = [(k.id, v.value) for k, v in zip(node.keys, node.values)]
    return table or None


def type_map_table():
    """what type_map RETURNS on the five native types, the collection prefix and the TypeVar rule, read off the live
    function (robust against rewrites of its body); cross-checked with the literal table in the source when that
    has a recognisable shape"""
    if str(REPO) not in sys.path:
        sys.path.insert(0, str(REPO))
    from ipv8.messaging.payload_dataclass import type_from_format, type_map
    table = []
    for name, t in NATIVE_TYPES:
        try:
            r = type_map(t)
        except Exception as e:  # noqa: BLE001
            raise TranslatorError(f"type_map({name}) raises {type(e).__name__}") from e
        if not isinstance(r, str):
            raise TranslatorError(f"type_map({name}) is not a format name: {r!r}")
        table.append((name, r))
    try:
        arr = type_map(list[int])
        tv = type_map(type_from_format("c20s")) == "c20s"
    except Exception as e:  # noqa: BLE001
        raise TranslatorError(f"type_map on list[int] / TypeVar raises {type(e).__name__}") from e
    base = dict(table)["int"]
    if not (isinstance(arr, str) and arr.endswith(base)):
        raise TranslatorError(f"type_map(list[int]) = {arr!r} is not <prefix> + type_map(int)")
    prefix = arr[:len(arr) - len(base)]
    lit = type_map_table_ast()
    if lit is not None and dict(lit) != {k: v for k, v in table if k in dict(lit)}:
        raise TranslatorError(f"literal table in the source {lit} disagrees with what type_map returns {table}")
    return table, prefix, tv


def _probe_converts_unconverted() -> bool:
    """behavioural fallback for a guard whose spelling is not recognised: on fresh 2-level dataclass chains of the LIVE
    classes, in four instantiation orders (for the plain and the [msg_id] base), does every instantiated class end up
    with the class data of its own flattened field list?"""
    import dataclasses
    if str(REPO) not in sys.path:
        sys.path.insert(0, str(REPO))
    from ipv8.messaging.payload_dataclass import DataClassPayload
    n = 0
    for base in (DataClassPayload, DataClassPayload[7]):
        for order in ([0, 1], [1, 0], [1], [0, 1, 0]):
            n += 1
            par = dataclasses.make_dataclass(f"GuardProbeP{n}", [("a", int)], bases=(base,))
            chi = dataclasses.make_dataclass(f"GuardProbeC{n}", [("b", bytes, dataclasses.field(default=b""))], bases=(par,))
            par.__module__ = chi.__module__ = __name__
            classes, want = [par, chi], [["a"], ["a", "b"]]
            try:
                for k in order:
                    classes[k](1)
            except Exception:  # noqa: BLE001
                return False
            for k in set(order):
                if list(classes[k].names) != want[k] or len(classes[k].format_list) != len(want[k]):
                    return False
    return True


def new_guard():
    """how DataClassPayload.__new__ and DataClassPayloadWID.__new__ reach convert_to_payload: 'always' (a plain statement
    of the method), 'ifNoFormatList' (`if not cls.format_list:`), 'oncePerClass' (guarded by a marker looked up in the
    class's OWN __dict__ / vars(cls), or any other spelling for which the probe on the live classes shows that every
    instantiated class is converted), else 'unknown'; both classes must agree"""
    path = REPO / "ipv8/messaging/payload_dataclass.py"
    tree = ast.parse(path.read_text())
    kinds = []
    for cname in ("DataClassPayload", "DataClassPayloadWID"):
        cls = next((n for n in tree.body if isinstance(n, ast.ClassDef) and n.name == cname), None)
        fn = next((n for n in (cls.body if cls else []) if isinstance(n, ast.FunctionDef) and n.name == "__new__"), None)
        if fn is None:
            kinds.append("unknown")
            continue
        kind = "unknown"
        for st in fn.body:
            calls = isinstance(st, ast.If) and not st.orelse and any(
                isinstance(x, ast.Expr) and isinstance(x.value, ast.Call)
                and ast.unparse(x.value.func) == "convert_to_payload" for x in st.body)
            if isinstance(st, ast.Expr) and isinstance(st.value, ast.Call) and ast.unparse(st.value.func) == "convert_to_payload":
                kind = "always"
            elif calls and ast.unparse(st.test) == "not cls.format_list":
                kind = "ifNoFormatList"
            elif calls and isinstance(st.test, ast.Compare) and isinstance(st.test.ops[0], ast.NotIn) \
                    and ast.unparse(st.test.comparators[0]) in ("cls.__dict__", "vars(cls)"):
                kind = "oncePerClass"
        kinds.append(kind)
    kind = kinds[0] if len(set(kinds)) == 1 else "unknown"
    if kind == "unknown" and _probe_converts_unconverted():
        kind = "oncePerClass"
    return kind


def overlay_formats():
    out = []
    for path in sorted((REPO / "ipv8").rglob("*.py")):
        if "/test/" in str(path):
            continue
        try:
            tree = ast.parse(path.read_text())
        except SyntaxError:
            continue
        for node in ast.walk(tree):
            if isinstance(node, ast.Call) and isinstance(node.func, ast.Attribute) and node.func.attr == "add_packer" \
                    and node.args and isinstance(node.args[0], ast.Constant) and isinstance(node.args[0].value, str):
                out.append(node.args[0].value)
    return sorted(set(out))


def translate():
    if str(REPO) not in sys.path:
        sys.path.insert(0, str(REPO))
    from ipv8.messaging.serialization import Serializer
    formats = Serializer().get_available_formats()
    table, prefix, tv = type_map_table()
    classes = shipped_classes()
    out = ["/- GENERATED by tools/gen_c20.py from the live ipv8 package and payload_dataclass.py — do not edit -/",
           "import Ipv8.C20.Model", "namespace Ipv8.C20.Gen", "open Ipv8.C20", "",
           "def registeredFormats : List String := " + llist(lstr(f) for f in formats), "",
           "def overlayFormats : List String := " + llist(lstr(f) for f in overlay_formats()), "",
           "def typeMapTable : List (String × String) := " + llist(f"({lstr(a)}, {lstr(b)})" for a, b in table), "",
           "def arrayPrefix : String := " + lstr(prefix), "",
           "def typeVarBranch : Bool := " + ("true" if tv else "false"), "",
           "def newGuard : NewGuard := ." + new_guard(), "",
           "def shipped : List SDef := ["]
    rows = []
    meta = {"registered_formats": len(formats), "type_map_table": table, "shipped": 0, "shipped_with_hooks": 0,
            "shipped_with_init": 0, "shipped_bits": 0, "shipped_nested": 0}
    for c in classes:
        if not isinstance(c.format_list, list) or not isinstance(c.names, list):
            raise TranslatorError(f"{c.__name__}: format_list/names are not lists")
        fmts = [lean_fmt(f) for f in c.format_list]
        hooks_p = sorted(a[len("fix_pack_"):] for a in dir(c) if a.startswith("fix_pack_"))
        hooks_u = sorted(a[len("fix_unpack_"):] for a in dir(c) if a.startswith("fix_unpack_"))
        try:
            varkw, dflt = class_init_info(c)
        except UnsupportedInit as e:
            meta.setdefault("shipped_outside_model", []).append(str(e))
            continue
        ui = "none" if varkw is None else f"some {'true' if varkw else 'false'}"
        rows.append("  { name := " + lstr(f"{c.__module__}.{c.__qualname__}") + ", fmts := " + llist(fmts)
                    + ",\n    names := " + llist(lstr(n) for n in c.names) + ", userInit := " + ui
                    + ", defaults := " + llist(lstr(n) for n in dflt)
                    + ", fixPack := " + llist(lstr(n) for n in hooks_p)
                    + ", fixUnpack := " + llist(lstr(n) for n in hooks_u) + " }")
        meta["shipped"] += 1
        meta["shipped_with_hooks"] += bool(hooks_p or hooks_u)
        meta["shipped_with_init"] += varkw is not None
        meta["shipped_bits"] += "bits" in c.format_list
        meta["shipped_nested"] += any(not isinstance(f, str) for f in c.format_list)
    meta["import_failures"] = dict(IMPORT_FAILURES)
    out.append(",\n".join(rows))
    out += ["]", "", "end Ipv8.C20.Gen", ""]
    return "\n".join(out), meta


if __name__ == "__main__":
    print(translate()[0])
