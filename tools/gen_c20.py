"""
Translator for C20:  /repo (live classes + AST of payload_dataclass.type_map)  ->  lean/Ipv8/C20/Gen.lean

Generated:
  registeredFormats   names registered in a fresh ipv8.messaging.serialization.Serializer (live object)
  overlayFormats      names added by overlays through add_packer (found by AST search for add_packer("<lit>", ...))
  typeMapTable        what the live type_map returns on bool/int/float/bytes/str (finite domain, so this IS the function
                      there), cross-checked with the literal table in the source when its shape is recognised
  arrayPrefix         type_map(list[int]) minus type_map(int)
  typeVarBranch       whether type_map(type_from_format(x)) == x
  newGuard            how DataClassPayload(.WID).__new__ reach convert_to_payload: always | ifNoFormatList | oncePerClass
                      (AST; for an unrecognised spelling a probe on the live classes) | unknown
  publishPolicy       how convert_to_payload updates the module attribute of a converted class (probe on the live code)
  shipped             every VariablePayload subclass defined in the ipv8 package outside ipv8.test:
                      format_list (strings / nested classes / [class]), names, hooks found with dir(), and the
                      `__init__` defined in the class body, if any (parameters must be exactly the field names,
                      optionally followed by **kwargs; anything else raises TranslatorError)
A construct outside this subset raises TranslatorError (handled by the runner like a broken proof).
"""
from __future__ import annotations

import ast
import importlib
import inspect
import pkgutil
import sys

from vlib import REPO, TranslatorError

SKIP_MODULE_PARTS = (".test", "lan_addresses")
IMPORT_FAILURES: dict = {}


def shipped_classes():
    if str(REPO) not in sys.path:
        sys.path.insert(0, str(REPO))
    import ipv8
    from ipv8.messaging.lazy_payload import VariablePayload
    for m in pkgutil.walk_packages(ipv8.__path__, "ipv8."):
        if any(p in m.name for p in SKIP_MODULE_PARTS):
            continue
        try:
            importlib.import_module(m.name)
        except ImportError as e:   # optional dependencies (netifaces, WinDLL): recorded in the evidence
            IMPORT_FAILURES[m.name] = f"{type(e).__name__}: {e}"[:120]
        except Exception as e:  # noqa: BLE001  a module of the package that no longer imports would hide its payloads
            raise TranslatorError(f"module {m.name} does not import: {type(e).__name__}: {e}") from e

    def subs(c):
        out = set()
        for s in c.__subclasses__():
            out.add(s)
            out |= subs(s)
        return out

    res = [c for c in subs(VariablePayload)
           if c.__module__.startswith("ipv8.") and ".test" not in c.__module__ and "<locals>" not in c.__qualname__]
    return sorted(res, key=lambda c: (c.__module__, c.__qualname__))


class UnsupportedInit(Exception):
    """a shipped class whose own __init__ is outside the model: listed, not translated (the theorems do not cover it)"""


def lstr(s: str) -> str:
    return '"' + s.replace("\\", "\\\\").replace('"', '\\"') + '"'


def llist(xs) -> str:
    return "[" + ", ".join(xs) + "]"


def lean_fmt(f) -> str:
    if isinstance(f, str):
        return f".str {lstr(f)}"
    if isinstance(f, list):
        if len(f) != 1 or not isinstance(f[0], type):
            raise TranslatorError(f"unsupported list format {f!r}")
        return f".lst {lstr(f[0].__name__)}"
    if isinstance(f, type):
        return f".cls {lstr(f.__name__)}"
    raise TranslatorError(f"unsupported format entry {f!r}")


def class_init_info(cls):
    """(userInit, defaults) from the class body that defines __init__ (None when VariablePayload's is used)"""
    from ipv8.messaging.lazy_payload import VariablePayload
    for k in cls.__mro__:
        if k is VariablePayload:
            return None, []
        if not issubclass(k, VariablePayload):
            continue
        try:
            src = inspect.getsource(k)
        except (OSError, TypeError):
            continue
        node = ast.parse(inspect.cleandoc("\n" + src) if src.startswith(" ") else src).body[0]
        for st in node.body:
            if isinstance(st, ast.FunctionDef) and st.name == "__init__":
                a = st.args
                params = [x.arg for x in a.args][1:]
                if a.vararg or a.kwonlyargs or a.posonlyargs or params != list(cls.names):
                    raise UnsupportedInit(f"{cls.__name__}.__init__ is not of the shape (self, <names>[, **kwargs])")
                nd = len(a.defaults)
                return a.kwarg is not None, params[len(params) - nd:] if nd else []
    return None, []


NATIVE_TYPES = [("bool", bool), ("int", int), ("float", float), ("bytes", bytes), ("str", str)]


def type_map_table_ast():
    """the literal table as written in the source (`if t is X: return "fmt"` chain, `==` accepted, or a dict literal
    {X: "fmt", ...}); None when the source has another shape (the live table below is what the theorems use)"""
    path = REPO / "ipv8/messaging/payload_dataclass.py"
    tree = ast.parse(path.read_text())
    fn = next((n for n in tree.body if isinstance(n, ast.FunctionDef) and n.name == "type_map"), None)
    if fn is None:
        return None
    table = []
    for st in ast.walk(fn):
        if (isinstance(st, ast.If) and isinstance(st.test, ast.Compare) and len(st.test.ops) == 1
                and isinstance(st.test.ops[0], (ast.Is, ast.Eq)) and isinstance(st.test.left, ast.Name)
                and isinstance(st.test.comparators[0], ast.Name) and len(st.body) == 1
                and isinstance(st.body[0], ast.Return) and isinstance(st.body[0].value, ast.Constant)
                and isinstance(st.body[0].value.value, str)):
            table.append((st.test.comparators[0].id, st.body[0].value.value))
    if not table:
        for node in ast.walk(tree):
            if isinstance(node, ast.Dict) and node.keys and all(isinstance(k, ast.Name) for k in node.keys) \
                    and all(isinstance(v, ast.Constant) and isinstance(v.value, str) for v in node.values) \
                    and {k.id for k in node.keys} >= {"bool", "int"}:
                table = [(k.id, v.value) for k, v in zip(node.keys, node.values)]
    return table or None


def type_map_table():
    """what type_map RETURNS on the five native types, the collection prefix and the TypeVar rule, read off the live
    function (robust against rewrites of its body); cross-checked with the literal table in the source when that
    has a recognisable shape"""
    if str(REPO) not in sys.path:
        sys.path.insert(0, str(REPO))
    from ipv8.messaging.payload_dataclass import type_from_format, type_map
    table = []
    for name, t in NATIVE_TYPES:
        try:
            r = type_map(t)
        except Exception as e:  # noqa: BLE001
            raise TranslatorError(f"type_map({name}) raises {type(e).__name__}") from e
        if not isinstance(r, str):
            raise TranslatorError(f"type_map({name}) is not a format name: {r!r}")
        table.append((name, r))
    try:
        arr = type_map(list[int])
        tv = type_map(type_from_format("c20s")) == "c20s"
    except Exception as e:  # noqa: BLE001
        raise TranslatorError(f"type_map on list[int] / TypeVar raises {type(e).__name__}") from e
    base = dict(table)["int"]
    if not (isinstance(arr, str) and arr.endswith(base)):
        raise TranslatorError(f"type_map(list[int]) = {arr!r} is not <prefix> + type_map(int)")
    prefix = arr[:len(arr) - len(base)]
    lit = type_map_table_ast()
    if lit is not None and dict(lit) != {k: v for k, v in table if k in dict(lit)}:
        raise TranslatorError(f"literal table in the source {lit} disagrees with what type_map returns {table}")
    return table, prefix, tv


def _probe_converts_unconverted() -> bool:
    """behavioural fallback for a guard whose spelling is not recognised: on fresh 2-level dataclass chains of the LIVE
    classes, in four instantiation orders (for the plain and the [msg_id] base), does every instantiated class end up
    with the class data of its own flattened field list?"""
    import dataclasses
    if str(REPO) not in sys.path:
        sys.path.insert(0, str(REPO))
    from ipv8.messaging.payload_dataclass import DataClassPayload
    n = 0
    for base in (DataClassPayload, DataClassPayload[7]):
        for order in ([0, 1], [1, 0], [1], [0, 1, 0]):
            n += 1
            par = dataclasses.make_dataclass(f"GuardProbeP{n}", [("a", int)], bases=(base,))
            chi = dataclasses.make_dataclass(f"GuardProbeC{n}", [("b", bytes, dataclasses.field(default=b""))], bases=(par,))
            par.__module__ = chi.__module__ = __name__
            classes, want = [par, chi], [["a"], ["a", "b"]]
            try:
                for k in order:
                    classes[k](1)
            except Exception:  # noqa: BLE001
                return False
            for k in set(order):
                if list(classes[k].names) != want[k] or len(classes[k].format_list) != len(want[k]):
                    return False
    return True


def new_guard():
    """how DataClassPayload.__new__ and DataClassPayloadWID.__new__ reach convert_to_payload: 'always' (a plain statement
    of the method), 'ifNoFormatList' (`if not cls.format_list:`), 'oncePerClass' (guarded by a marker looked up in the
    class's OWN __dict__ / vars(cls), or any other spelling for which the probe on the live classes shows that every
    instantiated class is converted), else 'unknown'; both classes must agree"""
    path = REPO / "ipv8/messaging/payload_dataclass.py"
    tree = ast.parse(path.read_text())
    kinds = []
    for cname in ("DataClassPayload", "DataClassPayloadWID"):
        cls = next((n for n in tree.body if isinstance(n, ast.ClassDef) and n.name == cname), None)
        fn = next((n for n in (cls.body if cls else []) if isinstance(n, ast.FunctionDef) and n.name == "__new__"), None)
        if fn is None:
            kinds.append("unknown")
            continue
        kind = "unknown"
        for st in fn.body:
            calls = isinstance(st, ast.If) and not st.orelse and any(
                isinstance(x, ast.Expr) and isinstance(x.value, ast.Call)
                and ast.unparse(x.value.func) == "convert_to_payload" for x in st.body)
            if isinstance(st, ast.Expr) and isinstance(st.value, ast.Call) and ast.unparse(st.value.func) == "convert_to_payload":
                kind = "always"
            elif calls and ast.unparse(st.test) == "not cls.format_list":
                kind = "ifNoFormatList"
            elif calls and isinstance(st.test, ast.Compare) and isinstance(st.test.ops[0], ast.NotIn) \
                    and ast.unparse(st.test.comparators[0]) in ("cls.__dict__", "vars(cls)"):
                kind = "oncePerClass"
        kinds.append(kind)
    kind = kinds[0] if len(set(kinds)) == 1 else "unknown"
    if kind == "unknown" and _probe_converts_unconverted():
        kind = "oncePerClass"
    return kind


# ---------------------------------------------------------------------------------------------------------------
# translated tie 1: the text that the real _compile_* generators emit, parsed into the model's GenShape


def parse_generated(cls):
    """GenShape of a vp_compile'd class from the source text of its three generated functions (kept in
    code.co_filename); None when a text is unavailable or has a shape outside the subset below.
    Subset: `def __init__(self, p.., p=<expr>..): Payload.__init__(self); self.a = a ...`,
            `def from_unpack_list(cls, p..): return cls(<p | None if p is None else cls.fix_unpack_p(p) | equivalent>..)`,
            `def to_pack_list(self): return [("<tag>", <self.a | self.fix_pack_a(self.a)>..), ..]`"""
    try:
        srcs = [cls.__init__.__code__.co_filename, cls.from_unpack_list.__func__.__code__.co_filename,
                cls.to_pack_list.__code__.co_filename]
        fi, fu, fp = (ast.parse(x).body[0] for x in srcs)
    except Exception:  # noqa: BLE001
        return None
    if not all(isinstance(t, ast.FunctionDef) for t in (fi, fu, fp)):
        return None
    a = fi.args
    if a.vararg or a.kwarg or a.kwonlyargs or a.posonlyargs:
        return None
    params = [x.arg for x in a.args][1:]
    nd = len(a.defaults)
    init_params = [(p, j >= len(params) - nd) for j, p in enumerate(params)]
    body = list(fi.body)
    if not (body and isinstance(body[0], ast.Expr) and ast.unparse(body[0]) == "Payload.__init__(self)"):
        return None
    setters = []
    for st in body[1:]:
        if (isinstance(st, ast.Assign) and len(st.targets) == 1 and isinstance(st.targets[0], ast.Attribute)
                and isinstance(st.targets[0].value, ast.Name) and st.targets[0].value.id == "self"
                and isinstance(st.value, ast.Name)):
            setters.append((st.targets[0].attr, st.value.id))
        else:
            return None
    if fu.args.vararg or fu.args.kwarg or len(fu.body) != 1:
        return None
    uparams = [x.arg for x in fu.args.args][1:]
    ret = fu.body[0]
    if not (isinstance(ret, ast.Return) and isinstance(ret.value, ast.Call) and ast.unparse(ret.value.func) == "cls"
            and not ret.value.keywords):
        return None
    uargs = []
    for x in ret.value.args:
        if isinstance(x, ast.Name):
            uargs.append((x.id, False))
        elif isinstance(x, ast.IfExp) and isinstance(x.test, ast.Compare) and isinstance(x.test.left, ast.Name):
            n = x.test.left.id
            if ast.unparse(x) not in (f"None if {n} is None else cls.fix_unpack_{n}({n})",
                                      f"cls.fix_unpack_{n}({n}) if {n} is not None else None"):
                return None
            uargs.append((n, True))
        else:
            return None
    if fp.args.args[1:] or len(fp.body) != 1:
        return None
    ret = fp.body[0]
    if not (isinstance(ret, ast.Return) and isinstance(ret.value, ast.List)):
        return None
    entries = []
    for t in ret.value.elts:
        if not (isinstance(t, ast.Tuple) and t.elts and isinstance(t.elts[0], ast.Constant) and isinstance(t.elts[0].value, str)):
            return None
        parts = []
        for x in t.elts[1:]:
            u = ast.unparse(x)
            if isinstance(x, ast.Attribute) and u == f"self.{x.attr}":
                parts.append((x.attr, False))
            elif isinstance(x, ast.Call) and len(x.args) == 1 and isinstance(x.args[0], ast.Attribute) \
                    and u == f"self.fix_pack_{x.args[0].attr}(self.{x.args[0].attr})":
                parts.append((x.args[0].attr, True))
            else:
                return None
        entries.append((t.elts[0].value, parts))
    return {"initParams": init_params, "setters": setters, "unpackParams": uparams, "unpackArgs": uargs,
            "packEntries": entries}


def lbool(b) -> str:
    return "true" if b else "false"


def lean_shape(sh) -> str:
    return ("{ initParams := " + llist(f"({lstr(n)}, {lbool(d)})" for n, d in sh["initParams"])
            + ",\n      setters := " + llist(f"({lstr(a)}, {lstr(b)})" for a, b in sh["setters"])
            + ",\n      unpackParams := " + llist(lstr(n) for n in sh["unpackParams"])
            + ",\n      unpackArgs := " + llist(f"({lstr(n)}, {lbool(g)})" for n, g in sh["unpackArgs"])
            + ",\n      packEntries := " + llist(
                f"({lstr(t)}, " + llist(f"({lstr(n)}, {lbool(h)})" for n, h in ps) + ")" for t, ps in sh["packEntries"])
            + " }")


def lean_sdef(name, fmts, names, user_init, defaults, fp, fu) -> str:
    ui = "none" if user_init is None else f"some {lbool(user_init)}"
    return ("{ name := " + lstr(name) + ", fmts := " + llist(lean_fmt(f) for f in fmts)
            + ",\n      names := " + llist(lstr(n) for n in names) + ", userInit := " + ui
            + ", defaults := " + llist(lstr(n) for n in defaults)
            + ", fixPack := " + llist(lstr(n) for n in fp) + ", fixUnpack := " + llist(lstr(n) for n in fu) + " }")


def compiled_battery():
    """[(sdef fields, shape)]: a fixed battery of synthetic definitions covering every branch of the three generators
    (bits first / middle / last, nested class, payload list, pack / unpack hooks also on bits names and inherited from
    a base class, user __init__ with defaults with and without **kwargs and keyword-only, inherited user __init__, old-style
    superclass, 12 fields), compiled with the REAL vp_compile, plus every shipped compiled class"""
    if str(REPO) not in sys.path:
        sys.path.insert(0, str(REPO))
    from ipv8.messaging.lazy_payload import VariablePayload, vp_compile
    from ipv8.messaging.serialization import Payload

    class Inner(VariablePayload):
        format_list = ["I"]
        names = ["x"]

    def hook(self, v):
        return v

    def mk(name, fmts, names, fp=(), fu=(), init=None, defaults=(), kwonly=0, base_hooks=False, old_style=0,
           inherit_init=False):
        ns = {}
        hooks = {}
        for n in fp:
            hooks["fix_pack_" + n] = hook
        for n in fu:
            hooks["fix_unpack_" + n] = classmethod(lambda cls, v: v)
        if init is not None:
            plist = [f"{n}=None" if n in defaults else n for n in names]
            if kwonly:
                plist.insert(len(plist) - kwonly, "*")
            src = f"def __init__(self, {', '.join(plist)}{', **kwargs' if init else ''}):\n" \
                  f"    _VP.__init__(self, {', '.join(names)}{', **kwargs' if init else ''})\n"
            env = {"_VP": VariablePayload}
            exec(src, env)
            ns["__init__"] = env["__init__"]
        bases = (VariablePayload,)
        if old_style:
            osrc = f"def __init__(self, {', '.join(names[:old_style])}):\n" + "".join(
                f"    self.{n} = {n}\n" for n in names[:old_style])
            oenv = {}
            exec(osrc, oenv)
            old = type("Old" + name, (Payload,), {"format_list": list(fmts[:old_style]), "__init__": oenv["__init__"],
                                                  "to_pack_list": lambda self: [],
                                                  "from_unpack_list": classmethod(lambda cls, *a: cls(*a))})
            bases = (VariablePayload, old)
        if base_hooks or inherit_init:
            base = type("Base" + name, bases, {**hooks, **({"__init__": ns.pop("__init__")} if inherit_init else {}),
                                               "format_list": list(fmts), "names": list(names)})
            bases = (base,)
            if base_hooks:
                hooks = {}
        ns.update(hooks)
        ns.update({"format_list": list(fmts), "names": list(names)})
        cls = vp_compile(type(name, bases, ns))
        return (name, fmts, names, (None if init is None else bool(init)), list(defaults), sorted(fp), sorted(fu)), cls

    b8 = [f"b{i}" for i in range(8)]
    specs = [
        mk("Two", ["I", "H"], ["a", "b"]),
        mk("BitsFirst", ["bits", "I"], [*b8, "z"]),
        mk("BitsMiddle", ["I", "bits", "varlenH"], ["a", *b8, "z"], fp=["b3"], fu=["b5", "z"]),
        mk("BitsLast", ["varlenH", "bits"], ["a", *b8]),
        mk("TwoBits", ["bits", "bits"], [*b8, *[f"c{i}" for i in range(8)]], fp=["c0"]),
        mk("Nested", ["I", Inner, "H"], ["a", "p", "z"]),
        mk("NestedList", [[Inner], "I"], ["ps", "a"], fu=["ps"]),
        mk("PackHooks", ["I", "H", "B"], ["a", "b", "c"], fp=["a", "c"]),
        mk("UnpackHooks", ["I", "H", "B"], ["a", "b", "c"], fu=["b"]),
        mk("BothHooks", ["I", "H"], ["a", "b"], fp=["a", "b"], fu=["a", "b"]),
        mk("InheritedHooks", ["I", "H"], ["a", "b"], fp=["a"], fu=["b"], base_hooks=True),
        mk("DefaultsKw", ["I", "H", "B"], ["a", "b", "c"], init=True, defaults=["b", "c"]),
        mk("DefaultsNoKw", ["I", "H"], ["a", "b"], init=False, defaults=["a", "b"]),
        mk("InitNoDefaults", ["I", "H"], ["a", "b"], init=False),
        mk("KeywordOnly", ["I", "H", "B"], ["a", "b", "c"], init=False, defaults=["b", "c"], kwonly=2),
        mk("InheritedInit", ["I", "H"], ["a", "b"], init=True, defaults=["b"], inherit_init=True),
        mk("OldStyle", ["I", "H", "B"], ["a", "b", "c"], old_style=2),
        mk("Twelve", ["I", "H", "bits", "varlenH", Inner, [Inner], "q", "?", "20s", "raw"],
           ["f0", "f1", *b8, "f3", "f4", "f5", "f6", "f7", "f8", "f9"], fp=["f0", "b7", "f9"], fu=["f1", "f4", "f5"]),
    ]
    out, skipped = [], 0
    for sd, cls in specs:
        sh = parse_generated(cls)
        if sh is None:
            skipped += 1
            continue
        out.append((sd, sh))
    for c in shipped_classes():
        if not c.names or c.to_pack_list is VariablePayload.to_pack_list:
            continue
        sh = parse_generated(c)
        if sh is None:
            skipped += 1
            continue
        try:
            varkw, dflt = class_init_info(c)
        except UnsupportedInit:
            continue
        # defaults as the compiled signature shows them (what the model's sigDefaults must reproduce)
        sd = (f"{c.__module__}.{c.__qualname__}", c.format_list, c.names, varkw, dflt,
              sorted(a[len("fix_pack_"):] for a in dir(c) if a.startswith("fix_pack_")),
              sorted(a[len("fix_unpack_"):] for a in dir(c) if a.startswith("fix_unpack_")))
        out.append((sd, sh))
    return out, skipped


# ---------------------------------------------------------------------------------------------------------------
# translated tie 2: what the real convert_to_payload makes of a battery of dataclasses


def lean_ty(t) -> str:
    kind = t[0]
    if kind in ("bool", "int", "float", "bytes", "str", "other"):
        return "." + kind
    if kind == "tvar":
        return f"(.tvar {lstr(t[1])})"
    if kind == "ser":
        return f"(.ser {lstr(t[1])})"
    if kind == "lit":
        return f"(.lit {lstr(t[1])})"
    if kind == "coll":
        return f"(.coll .{t[1]} {lean_ty(t[2])})"
    raise TranslatorError(f"type {t!r}")


def dataclass_battery():
    """[(name, fields as (name, Ty-data, has default), user unpack rules, result)] from the REAL DataClassPayload"""
    import dataclasses
    if str(REPO) not in sys.path:
        sys.path.insert(0, str(REPO))
    from ipv8.messaging.lazy_payload import VariablePayload
    from ipv8.messaging.payload_dataclass import DataClassPayload, type_from_format

    class Item(VariablePayload):
        format_list = ["I"]
        names = ["x"]

    py = {"bool": bool, "int": int, "float": float, "bytes": bytes, "str": str}

    def ann(t):
        k = t[0]
        if k in py:
            return py[k]
        if k == "other":
            return dict
        if k == "tvar":
            return type_from_format(t[1])
        if k == "ser":
            return Item
        if k == "lit":
            return [Item]
        if k == "coll":
            g = {"list": list, "tuple": tuple, "set": set}[t[1]]
            return tuple[ann(t[2]), ...] if t[1] == "tuple" and t[3:] == ("ellipsis",) else g[ann(t[2])]
        raise TranslatorError(str(t))

    S = ("ser", "Item")
    cases = [
        ("Natives", [("a", ("bool",)), ("b", ("int",)), ("c", ("float",)), ("d", ("bytes",)), ("e", ("str",))], []),
        ("TypeVars", [("a", ("tvar", "varlenH")), ("b", ("tvar", "c20s")), ("c", ("int",), True)], []),
        ("Lists", [("a", ("coll", "list", ("int",))), ("b", ("coll", "list", ("bool",))), ("c", ("coll", "list", ("float",)))], []),
        ("Tuples", [("a", ("coll", "tuple", ("int",), "ellipsis")), ("b", ("coll", "tuple", ("bool",)))], []),
        ("Sets", [("a", ("coll", "set", ("float",))), ("b", ("int",)), ("c", ("coll", "set", ("int",)))], []),
        ("NestedKinds", [("a", S), ("b", ("coll", "list", S)), ("c", ("coll", "tuple", S, "ellipsis")), ("d", ("lit", "Item"))], []),
        ("UserRuleKept", [("a", ("coll", "tuple", ("int",))), ("b", ("coll", "set", ("int",))), ("c", ("coll", "list", ("int",)))], ["a", "c"]),
        ("Unsupported", [("a", ("other",))], []),
        ("ListOfUnsupported", [("a", ("int",)), ("b", ("coll", "list", ("other",)))], []),
        ("ListOfList", [("a", ("coll", "list", ("coll", "list", ("int",))))], []),
        ("ListOfTypeVar", [("a", ("coll", "list", ("tvar", "I")))], []),
    ]
    # the same dataclasses with their annotations left as TEXT (`from __future__ import annotations` / quoted): resolved
    # by get_type_hints in this module's namespace
    setattr(sys.modules[__name__], "Item", Item)

    def text(t):
        k = t[0]
        if k in py:
            return k
        if k == "ser":
            return "Item"
        if k == "lit":
            return "[Item]"
        if k == "coll":
            inner = text(t[2])
            return f"tuple[{inner}, ...]" if t[1] == "tuple" and t[3:] == ("ellipsis",) else f"{t[1]}[{inner}]"
        return None

    for name, fields, user in list(cases):
        if all(text(f[1]) is not None for f in fields) and name not in ("Natives",):
            cases.append((name + "AsText", fields, user))
    out = []
    for name, fields, user in cases:
        ns = {f"fix_unpack_{n}": staticmethod(sorted) for n in user}
        spec = []
        for f in fields:
            n, t = f[0], f[1]
            a = text(t) if name.endswith("AsText") else ann(t)
            spec.append((n, a, dataclasses.field(default=None)) if len(f) > 2 else (n, a))
        cls = dataclasses.make_dataclass("Battery" + name, spec, bases=(DataClassPayload,), namespace=ns)
        cls.__module__ = __name__
        try:
            cls.__new__(cls)
        except Exception:  # noqa: BLE001
            out.append((name, fields, user, None))
            continue
        derived = []
        for n in cls.names:
            h = getattr(cls, "fix_unpack_" + n, None)
            kind = {"_to_tuple": "tuple", "_to_set": "set"}.get(getattr(h, "__name__", ""))
            if kind:
                derived.append((n, kind))
        out.append((name, fields, user, (list(cls.format_list), list(cls.names), derived)))
    return out


def lean_dcase(name, fields, user, result) -> str:
    fl = llist(f"({lstr(f[0])}, {lean_ty(f[1][:3] if f[1][0] == 'coll' else f[1])}, {lbool(len(f) > 2)})" for f in fields)
    if result is None:
        res = "none"
    else:
        fmts, names, derived = result
        res = ("some (" + llist(lean_fmt(x) if isinstance(x, str) else
                                (f".lst {lstr('Item')}" if isinstance(x, list) else f".cls {lstr('Item')}") for x in fmts)
               + ", " + llist(lstr(n) for n in names) + ", " + llist(f"({lstr(n)}, .{k})" for n, k in derived) + ")")
    return ("{ name := " + lstr(name) + ", fields := " + fl + ",\n      userUnpack := " + llist(lstr(n) for n in user)
            + ", result := " + res + " }")


def publish_policy():
    """probe on the live convert_to_payload: convert two dataclass payloads of ONE name in turn and look at the module
    attribute after each: 'always' (it is the class converted last, both times), 'onlyIfAbsent' (it stays the first),
    else 'unknown'"""
    import dataclasses
    import types
    if str(REPO) not in sys.path:
        sys.path.insert(0, str(REPO))
    from ipv8.messaging.payload_dataclass import DataClassPayload
    modname = "c20_publish_probe"
    sys.modules[modname] = types.ModuleType(modname)
    seen = []
    classes = []
    try:
        for _ in range(3):
            cls = dataclasses.make_dataclass("PublishProbe", [("a", int)], bases=(DataClassPayload,))
            cls.__module__ = modname
            cls(1)
            classes.append(cls)
            seen.append(getattr(sys.modules[modname], "PublishProbe", None))
        classes[0](2)       # converting the first class again publishes it again
        seen.append(getattr(sys.modules[modname], "PublishProbe", None))
    except Exception:  # noqa: BLE001
        return "unknown"
    finally:
        sys.modules.pop(modname, None)
    if seen == [classes[0], classes[1], classes[2], classes[0]]:
        return "always"
    if all(x is classes[0] for x in seen):
        return "onlyIfAbsent"
    return "unknown"


def overlay_formats():
    out = []
    for path in sorted((REPO / "ipv8").rglob("*.py")):
        if "/test/" in str(path):
            continue
        try:
            tree = ast.parse(path.read_text())
        except SyntaxError:
            continue
        for node in ast.walk(tree):
            if isinstance(node, ast.Call) and isinstance(node.func, ast.Attribute) and node.func.attr == "add_packer" \
                    and node.args and isinstance(node.args[0], ast.Constant) and isinstance(node.args[0].value, str):
                out.append(node.args[0].value)
    return sorted(set(out))


def translate():
    if str(REPO) not in sys.path:
        sys.path.insert(0, str(REPO))
    from ipv8.messaging.serialization import Serializer
    formats = Serializer().get_available_formats()
    table, prefix, tv = type_map_table()
    classes = shipped_classes()
    out = ["/- GENERATED by tools/gen_c20.py from the live ipv8 package and payload_dataclass.py — do not edit -/",
           "import Ipv8.C20.Model", "namespace Ipv8.C20.Gen", "open Ipv8.C20", "",
           "def registeredFormats : List String := " + llist(lstr(f) for f in formats), "",
           "def overlayFormats : List String := " + llist(lstr(f) for f in overlay_formats()), "",
           "def typeMapTable : List (String × String) := " + llist(f"({lstr(a)}, {lstr(b)})" for a, b in table), "",
           "def arrayPrefix : String := " + lstr(prefix), "",
           "def typeVarBranch : Bool := " + ("true" if tv else "false"), "",
           "def newGuard : NewGuard := ." + new_guard(), "",
           "def publishPolicy : PublishPolicy := ." + publish_policy(), "",
           "def shipped : List SDef := ["]
    rows = []
    meta = {"registered_formats": len(formats), "type_map_table": table, "shipped": 0, "shipped_with_hooks": 0,
            "shipped_with_init": 0, "shipped_bits": 0, "shipped_nested": 0}
    for c in classes:
        if not isinstance(c.format_list, list) or not isinstance(c.names, list):
            raise TranslatorError(f"{c.__name__}: format_list/names are not lists")
        fmts = [lean_fmt(f) for f in c.format_list]
        hooks_p = sorted(a[len("fix_pack_"):] for a in dir(c) if a.startswith("fix_pack_"))
        hooks_u = sorted(a[len("fix_unpack_"):] for a in dir(c) if a.startswith("fix_unpack_"))
        try:
            varkw, dflt = class_init_info(c)
        except UnsupportedInit as e:
            meta.setdefault("shipped_outside_model", []).append(str(e))
            continue
        ui = "none" if varkw is None else f"some {'true' if varkw else 'false'}"
        rows.append("  { name := " + lstr(f"{c.__module__}.{c.__qualname__}") + ", fmts := " + llist(fmts)
                    + ",\n    names := " + llist(lstr(n) for n in c.names) + ", userInit := " + ui
                    + ", defaults := " + llist(lstr(n) for n in dflt)
                    + ", fixPack := " + llist(lstr(n) for n in hooks_p)
                    + ", fixUnpack := " + llist(lstr(n) for n in hooks_u) + " }")
        meta["shipped"] += 1
        meta["shipped_with_hooks"] += bool(hooks_p or hooks_u)
        meta["shipped_with_init"] += varkw is not None
        meta["shipped_bits"] += "bits" in c.format_list
        meta["shipped_nested"] += any(not isinstance(f, str) for f in c.format_list)
    meta["import_failures"] = dict(IMPORT_FAILURES)
    out.append(",\n".join(rows))
    out += ["]", ""]
    battery, skipped = compiled_battery()
    meta["compiled_battery"] = len(battery)
    meta["compiled_battery_text_not_recognised"] = skipped
    out.append("/-- was the emitted text of every battery member inside the parser's subset? -/")
    out.append("def batteryTextRecognised : Bool := " + lbool(skipped == 0))
    out.append("")
    out.append("/-- (definition, shape of the code the REAL _compile_* generators emitted for it) -/")
    out.append("def compiledBattery : List (SDef × GenShape) := [")
    out.append(",\n".join("  (" + lean_sdef(*sd) + ",\n    " + lean_shape(sh) + ")" for sd, sh in battery))
    out += ["]", ""]
    dcs = dataclass_battery()
    meta["dataclass_battery"] = len(dcs)
    meta["dataclass_battery_refused"] = sum(1 for d in dcs if d[3] is None)
    out.append("/-- dataclasses and what the REAL convert_to_payload produced for them -/")
    out.append("def dataclassBattery : List DCase := [")
    out.append(",\n".join("  " + lean_dcase(*d) for d in dcs))
    out += ["]", "", "end Ipv8.C20.Gen", ""]
    return "\n".join(out), meta


if __name__ == "__main__":
    print(translate()[0])
