"""
Translator for C12: regenerates lean/Ipv8/C12/Gen.lean from the working tree.

Reads (AST only, nothing is imported from the tree):
  * ipv8/messaging/serialization.py: ADDRESS_TYPE_* constants and, from `Address.pack` / `Address.unpack`, the struct
    formats and the offsets returned per address type (the snapshot codec of Network.snapshot/load_snapshot);
  * ipv8/peer.py: Peer.INTERFACE_ORDER (which address Peer.address prefers);
  * ipv8/peerdiscovery/network.py: the three reverse_*_cache_size defaults and the address snapshot() skips.
Tolerated rewrites: renamed locals in Address.unpack (the type variable is whatever `unpack_from(">B", …)` is assigned
to, the offset is the method's third parameter, the length whatever the first `unpack_from` of the host-name branch is
assigned to), `CONST == var` as well as `var == CONST`, if/elif chains, `struct.pack`/`struct.unpack_from` as attribute
calls, INTERFACE_ORDER as list or tuple, annotated assignments of the cache sizes.
Subset: integer constants, struct format strings made of B/H/<n>s with one `{len(...)}` hole, `offset + <int> [+ length]`
returns.  Anything else raises TranslatorError.
"""
from __future__ import annotations

import ast
import re
import struct

from vlib import REPO, TranslatorError

SLOT = {"UDPv4Address": 0, "UDPv6Address": 1, "tuple": 2, "UDPv4LANAddress": 3, "DomainAddress": 4}


def _cls(tree, name):
    for n in tree.body:
        if isinstance(n, ast.ClassDef) and n.name == name:
            return n
    raise TranslatorError(f"class {name} not found")


def _fn(cls, name):
    for n in cls.body:
        if isinstance(n, ast.FunctionDef) and n.name == name:
            return n
    raise TranslatorError(f"{cls.name}.{name} not found")


def _fmt(node):
    """struct format as text with '{}' for a formatted hole"""
    if isinstance(node, ast.Constant) and isinstance(node.value, str):
        return node.value
    if isinstance(node, ast.JoinedStr):
        out = ""
        for v in node.values:
            out += v.value if isinstance(v, ast.Constant) else "{}"
        return out
    raise TranslatorError(f"unsupported struct format expression: {ast.dump(node)[:80]}")


def _widths(fmt: str):
    """'>B4sH' -> [1,4,2]; '>BH{}sH' -> [1,2,None,2]"""
    if not fmt.startswith(">"):
        raise TranslatorError(f"format {fmt!r} is not big-endian")
    out = []
    for m in re.finditer(r"(\{\}|\d*)([BHs])", fmt[1:]):
        cnt, c = m.group(1), m.group(2)
        if c == "s":
            out.append(None if cnt == "{}" else int(cnt or 1))
        else:
            if cnt not in ("", "1"):
                raise TranslatorError(f"repeat count in {fmt!r}")
            out.append(struct.calcsize(">" + c))
    if "".join(m.group(0) for m in re.finditer(r"(\{\}|\d*)([BHs])", fmt[1:])) != fmt[1:]:
        raise TranslatorError(f"format {fmt!r} outside the supported subset")
    return out


def _callname(c):
    """name of the called function for `f(...)` and `mod.f(...)`"""
    if isinstance(c, ast.Call):
        if isinstance(c.func, ast.Name):
            return c.func.id
        if isinstance(c.func, ast.Attribute):
            return c.func.attr
    return None


def _assigned_name(stmt):
    """`x, = call(...)` / `x = call(...)[0]` / `x = call(...)` -> ('x', call)"""
    if isinstance(stmt, ast.Assign) and len(stmt.targets) == 1:
        tgt, val = stmt.targets[0], stmt.value
        if isinstance(tgt, ast.Tuple) and len(tgt.elts) == 1:
            tgt = tgt.elts[0]
        if isinstance(val, ast.Subscript):
            val = val.value
        if isinstance(tgt, ast.Name) and isinstance(val, ast.Call):
            return tgt.id, val
    return None, None


def _ret_offset(fn_branch, offset_name="offset", length_name="length"):
    """`return offset + N` or `return offset + N + length` -> (N, uses_length)"""
    for n in ast.walk(fn_branch):
        if isinstance(n, ast.Return) and n.value is not None:
            names, const = [], 0
            stack = [n.value]
            while stack:
                e = stack.pop()
                if isinstance(e, ast.BinOp) and isinstance(e.op, ast.Add):
                    stack += [e.left, e.right]
                elif isinstance(e, ast.Name):
                    names.append(e.id)
                elif isinstance(e, ast.Constant) and isinstance(e.value, int):
                    const += e.value
                else:
                    raise TranslatorError("unsupported return expression in Address.unpack")
            if offset_name not in names:
                raise TranslatorError("Address.unpack branch does not return offset + ...")
            return const, (length_name in names)
    raise TranslatorError("Address.unpack branch without return")


def translate() -> str:
    ser = ast.parse((REPO / "ipv8/messaging/serialization.py").read_text())
    consts = {}
    for n in ser.body:
        if isinstance(n, ast.Assign) and len(n.targets) == 1 and isinstance(n.targets[0], ast.Name) \
                and n.targets[0].id.startswith("ADDRESS_TYPE_"):
            if not (isinstance(n.value, ast.Constant) and isinstance(n.value.value, int)):
                raise TranslatorError(f"{n.targets[0].id} is not an integer literal")
            consts[n.targets[0].id] = n.value.value
    for need in ("ADDRESS_TYPE_IPV4", "ADDRESS_TYPE_IPV6", "ADDRESS_TYPE_DOMAIN_NAME"):
        if need not in consts:
            raise TranslatorError(f"{need} not found")
    addr = _cls(ser, "Address")
    # --- pack: calls pack(fmt, TYPE, ...) ---
    packs = {}
    for n in ast.walk(_fn(addr, "pack")):
        if _callname(n) == "pack" and len(n.args) >= 2:
            if not isinstance(n.args[1], ast.Name) or n.args[1].id not in consts:
                raise TranslatorError("Address.pack: second argument of pack() is not an ADDRESS_TYPE_* name")
            packs[n.args[1].id] = _widths(_fmt(n.args[0]))
    if set(packs) != set(consts):
        raise TranslatorError(f"Address.pack covers {sorted(packs)}, expected {sorted(consts)}")
    # --- unpack: `if address_type == TYPE` branches ---
    unpacks = {}
    unpack_fn = _fn(addr, "unpack")
    if len(unpack_fn.args.args) < 3:
        raise TranslatorError("Address.unpack has fewer than three parameters")
    offset_name = unpack_fn.args.args[2].arg
    type_var = None
    for n in ast.walk(unpack_fn):
        nm, call = _assigned_name(n)
        if nm and _callname(call) == "unpack_from" and call.args and _fmt(call.args[0]) == ">B":
            type_var = nm
            break
    if type_var is None:
        raise TranslatorError("Address.unpack: no variable is assigned from unpack_from('>B', ...)")
    for n in ast.walk(unpack_fn):
        if isinstance(n, ast.If):
            tname = None
            for c in ast.walk(n.test):
                if isinstance(c, ast.Compare) and len(c.ops) == 1 and isinstance(c.ops[0], ast.Eq):
                    l, r = c.left, c.comparators[0]
                    if isinstance(l, ast.Name) and isinstance(r, ast.Name):
                        if l.id == type_var:
                            tname = r.id
                        elif r.id == type_var:
                            tname = l.id
            if tname is None:
                continue
            if tname not in consts:
                raise TranslatorError(f"Address.unpack compares with unknown {tname}")
            fmts, length_name = [], "length"
            for b in n.body:
                for c in ast.walk(b):
                    if _callname(c) == "unpack_from":
                        fmts.append(_widths(_fmt(c.args[0])))
                nm, call = _assigned_name(b)
                if nm and _callname(call) == "unpack_from" and length_name == "length" and len(fmts) == 1:
                    length_name = nm
            body = ast.Module(body=n.body, type_ignores=[])
            unpacks[tname] = (fmts, _ret_offset(body, offset_name, length_name))
    if set(unpacks) != set(consts):
        raise TranslatorError(f"Address.unpack covers {sorted(unpacks)}, expected {sorted(consts)}")

    def fixed(tname):
        w = packs[tname]
        if len(w) != 3 or w[0] != 1 or w[1] is None:
            raise TranslatorError(f"Address.pack format for {tname} is not type byte, fixed host, port: {w}")
        fm, (adv, uses_len) = unpacks[tname]
        if uses_len or len(fm) != 1 or len(fm[0]) != 2 or fm[0][0] is None:
            raise TranslatorError(f"Address.unpack shape for {tname} not supported: {fm}")
        return w[1], w[2], fm[0][0], fm[0][1], adv

    v4 = fixed("ADDRESS_TYPE_IPV4")
    v6 = fixed("ADDRESS_TYPE_IPV6")
    wd = packs["ADDRESS_TYPE_DOMAIN_NAME"]
    if len(wd) != 4 or wd[0] != 1 or wd[2] is not None:
        raise TranslatorError(f"Address.pack format for host names not supported: {wd}")
    fm, (dadv, duses) = unpacks["ADDRESS_TYPE_DOMAIN_NAME"]
    if not duses or [len(f) for f in fm] != [1, 1]:
        raise TranslatorError(f"Address.unpack shape for host names not supported: {fm}")

    # --- Peer.INTERFACE_ORDER ---
    peer = ast.parse((REPO / "ipv8/peer.py").read_text())
    order = None
    for n in _cls(peer, "Peer").body:
        if isinstance(n, ast.AnnAssign) and n.value is not None:
            n = ast.Assign(targets=[n.target], value=n.value)
        if isinstance(n, ast.Assign) and isinstance(n.targets[0], ast.Name) and n.targets[0].id == "INTERFACE_ORDER":
            if not isinstance(n.value, (ast.List, ast.Tuple)) or not all(isinstance(e, ast.Name) and e.id in SLOT for e in n.value.elts):
                raise TranslatorError("Peer.INTERFACE_ORDER is not a list of known address classes")
            order = [SLOT[e.id] for e in n.value.elts]
    if order is None:
        raise TranslatorError("Peer.INTERFACE_ORDER not found")

    # --- Network defaults ---
    net = ast.parse((REPO / "ipv8/peerdiscovery/network.py").read_text())
    caps = {}
    for n in ast.walk(_fn(_cls(net, "Network"), "__init__")):
        if isinstance(n, ast.AnnAssign) and n.value is not None:
            n = ast.Assign(targets=[n.target], value=n.value)
        if isinstance(n, ast.Assign) and isinstance(n.targets[0], ast.Attribute) and n.targets[0].attr.endswith("_cache_size"):
            if not (isinstance(n.value, ast.Constant) and isinstance(n.value.value, int)):
                raise TranslatorError(f"{n.targets[0].attr} default is not an integer literal")
            caps[n.targets[0].attr] = n.value.value
    for need in ("reverse_ip_cache_size", "reverse_intro_cache_size", "reverse_service_cache_size"):
        if need not in caps:
            raise TranslatorError(f"{need} default not found")

    L = []
    L.append("/- GENERATED by tools/gen_c12.py from ipv8/messaging/serialization.py, ipv8/peer.py,")
    L.append("   ipv8/peerdiscovery/network.py — do not edit. -/")
    L.append("namespace Ipv8.C12.Gen")
    L.append("")
    L.append(f"def typeV4 : Nat := {consts['ADDRESS_TYPE_IPV4']}")
    L.append(f"def typeV6 : Nat := {consts['ADDRESS_TYPE_IPV6']}")
    L.append(f"def typeDomain : Nat := {consts['ADDRESS_TYPE_DOMAIN_NAME']}")
    for nm, t in (("v4", v4), ("v6", v6)):
        L.append(f"/-- Address.pack: type byte, {t[0]}-byte host, {t[1]}-byte port; Address.unpack reads {t[2]}+{t[3]} bytes at offset+1 and returns offset+{t[4]} -/")
        L.append(f"def {nm}HostLen : Nat := {t[0]}")
        L.append(f"def {nm}PortLen : Nat := {t[1]}")
        L.append(f"def {nm}HostLenUnpack : Nat := {t[2]}")
        L.append(f"def {nm}PortLenUnpack : Nat := {t[3]}")
        L.append(f"def {nm}Advance : Nat := {t[4]}")
    L.append(f"def domLenLen : Nat := {wd[1]}")
    L.append(f"def domPortLen : Nat := {wd[3]}")
    L.append(f"def domLenLenUnpack : Nat := {fm[0][0]}")
    L.append(f"def domPortLenUnpack : Nat := {fm[1][0]}")
    L.append(f"def domAdvance : Nat := {dadv}")
    L.append("/-- Peer.INTERFACE_ORDER as address-slot numbers (0 = UDPv4Address, 1 = UDPv6Address, 2 = tuple) -/")
    L.append(f"def interfaceOrder : List Nat := {order}")
    L.append(f"def defaultIpCap : Nat := {caps['reverse_ip_cache_size']}")
    L.append(f"def defaultIntroCap : Nat := {caps['reverse_intro_cache_size']}")
    L.append(f"def defaultSvcCap : Nat := {caps['reverse_service_cache_size']}")
    L.append("")
    L.append("end Ipv8.C12.Gen")
    return "\n".join(L) + "\n"


if __name__ == "__main__":
    print(translate())
