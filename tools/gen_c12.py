"""
Translator for C12: regenerates lean/Ipv8/C12/Gen.lean from the working tree.

Reads (AST only, nothing is imported from the tree):
  * ipv8/messaging/serialization.py: ADDRESS_TYPE_* constants and, from `Address.pack` / `Address.unpack`, the struct
    formats and the offsets returned per address type (the snapshot codec of Network.snapshot/load_snapshot);
  * ipv8/peer.py: Peer.INTERFACE_ORDER (which address Peer.address prefers);
  * ipv8/peerdiscovery/network.py: the three reverse_*_cache_size defaults, and the GUARDS of the property-carrying
    code paths as Lean Bool functions over named atoms (stale test of the address cache, introduction test of
    discover_address, guard chain of add_verified_peer, cache-hit filters of get_peers_for_service and
    get_introductions_from, keep condition of remove_by_address, write condition of snapshot, old-style skip).
Tolerated rewrites: renamed locals in Address.unpack (the type variable is whatever `unpack_from(">B", …)` is assigned
to, the offset is the method's third parameter, the length whatever the first `unpack_from` of the host-name branch is
assigned to), `CONST == var` as well as `var == CONST`, if/elif chains, `struct.pack`/`struct.unpack_from` as attribute
calls, INTERFACE_ORDER as list or tuple, annotated assignments of the cache sizes.
Subset: integer constants, struct format strings made of B/H/<n>s with one `{len(...)}` hole, `offset + <int> [+ length]`
returns.  Anything else raises TranslatorError.
"""
from __future__ import annotations

import ast
import re
import struct

from vlib import REPO, TranslatorError

SLOT = {"UDPv4Address": 0, "UDPv6Address": 1, "tuple": 2, "UDPv4LANAddress": 3, "DomainAddress": 4}


def _cls(tree, name):
    for n in tree.body:
        if isinstance(n, ast.ClassDef) and n.name == name:
            return n
    raise TranslatorError(f"class {name} not found")


def _fn(cls, name):
    for n in cls.body:
        if isinstance(n, ast.FunctionDef) and n.name == name:
            return n
    raise TranslatorError(f"{cls.name}.{name} not found")


def _fmt(node):
    """struct format as text with '{}' for a formatted hole"""
    if isinstance(node, ast.Constant) and isinstance(node.value, str):
        return node.value
    if isinstance(node, ast.JoinedStr):
        out = ""
        for v in node.values:
            out += v.value if isinstance(v, ast.Constant) else "{}"
        return out
    raise TranslatorError(f"unsupported struct format expression: {ast.dump(node)[:80]}")


def _widths(fmt: str):
    """'>B4sH' -> [1,4,2]; '>BH{}sH' -> [1,2,None,2]"""
    if not fmt.startswith(">"):
        raise TranslatorError(f"format {fmt!r} is not big-endian")
    out = []
    for m in re.finditer(r"(\{\}|\d*)([BHs])", fmt[1:]):
        cnt, c = m.group(1), m.group(2)
        if c == "s":
            out.append(None if cnt == "{}" else int(cnt or 1))
        else:
            if cnt not in ("", "1"):
                raise TranslatorError(f"repeat count in {fmt!r}")
            out.append(struct.calcsize(">" + c))
    if "".join(m.group(0) for m in re.finditer(r"(\{\}|\d*)([BHs])", fmt[1:])) != fmt[1:]:
        raise TranslatorError(f"format {fmt!r} outside the supported subset")
    return out


def _callname(c):
    """name of the called function for `f(...)` and `mod.f(...)`"""
    if isinstance(c, ast.Call):
        if isinstance(c.func, ast.Name):
            return c.func.id
        if isinstance(c.func, ast.Attribute):
            return c.func.attr
    return None


def _assigned_name(stmt):
    """`x, = call(...)` / `x = call(...)[0]` / `x = call(...)` -> ('x', call)"""
    if isinstance(stmt, ast.Assign) and len(stmt.targets) == 1:
        tgt, val = stmt.targets[0], stmt.value
        if isinstance(tgt, ast.Tuple) and len(tgt.elts) == 1:
            tgt = tgt.elts[0]
        if isinstance(val, ast.Subscript):
            val = val.value
        if isinstance(tgt, ast.Name) and isinstance(val, ast.Call):
            return tgt.id, val
    return None, None


def _ret_offset(fn_branch, offset_name="offset", length_name="length"):
    """`return offset + N` or `return offset + N + length` -> (N, uses_length)"""
    for n in ast.walk(fn_branch):
        if isinstance(n, ast.Return) and n.value is not None:
            names, const = [], 0
            stack = [n.value]
            while stack:
                e = stack.pop()
                if isinstance(e, ast.BinOp) and isinstance(e.op, ast.Add):
                    stack += [e.left, e.right]
                elif isinstance(e, ast.Name):
                    names.append(e.id)
                elif isinstance(e, ast.Constant) and isinstance(e.value, int):
                    const += e.value
                else:
                    raise TranslatorError("unsupported return expression in Address.unpack")
            if offset_name not in names:
                raise TranslatorError("Address.unpack branch does not return offset + ...")
            return const, (length_name in names)
    raise TranslatorError("Address.unpack branch without return")



# ------------------------------------------------------------------------------------------------------------------
# guards of network.py -> Lean boolean functions over named atoms
def _is_self_attr(n, name):
    return isinstance(n, ast.Attribute) and n.attr == name and isinstance(n.value, ast.Name) and n.value.id == "self"


def _has_attr(n, name):
    return any(isinstance(x, ast.Attribute) and x.attr == name for x in ast.walk(n))


def _is_call_on_self(n, attr, meth):
    return (isinstance(n, ast.Call) and isinstance(n.func, ast.Attribute) and n.func.attr == meth
            and _is_self_attr(n.func.value, attr))


def _is_values_of_addresses(n):
    return (isinstance(n, ast.Call) and isinstance(n.func, ast.Attribute) and n.func.attr == "values"
            and isinstance(n.func.value, ast.Attribute) and n.func.value.attr == "addresses")


def _cmp(n):
    """single comparison -> (left, right, kind, negated) with kind in {'in','is','eq'}"""
    if isinstance(n, ast.Compare) and len(n.ops) == 1:
        op = n.ops[0]
        table = {ast.In: ("in", False), ast.NotIn: ("in", True), ast.Is: ("is", False), ast.IsNot: ("is", True),
                 ast.Eq: ("eq", False), ast.NotEq: ("eq", True)}
        if type(op) in table:
            k, neg = table[type(op)]
            return n.left, n.comparators[0], k, neg
    return None


_HELPERS = None     # the class whose single-return helper methods may be inlined into a guard


def _bool_expr(n, atom, where):
    """Python condition -> Lean Bool term over the atoms recognised by `atom(node) -> (name, negated) | 'false' | None`"""
    if isinstance(n, ast.BoolOp):
        op = " && " if isinstance(n.op, ast.And) else " || "
        return "(" + op.join(_bool_expr(v, atom, where) for v in n.values) + ")"
    if isinstance(n, ast.UnaryOp) and isinstance(n.op, ast.Not):
        return "(!" + _bool_expr(n.operand, atom, where) + ")"
    a = atom(n)
    if a is None and _HELPERS is not None and isinstance(n, ast.Call) and isinstance(n.func, ast.Attribute) \
            and isinstance(n.func.value, ast.Name) and n.func.value.id == "self":
        # a guard moved into a helper method whose body is a single `return <condition>`: translate that condition
        for m in _HELPERS.body:
            if isinstance(m, ast.FunctionDef) and m.name == n.func.attr:
                body = [st for st in m.body if not (isinstance(st, ast.Expr) and isinstance(st.value, ast.Constant))]
                if len(body) == 1 and isinstance(body[0], ast.Return) and body[0].value is not None:
                    return _bool_expr(body[0].value, atom, where)
    if a is None:
        raise TranslatorError(f"{where}: condition part `{ast.unparse(n)}` is outside the supported subset")
    if a == "false":
        return "false"
    name, neg = a
    return f"(!{name})" if neg else name


def _comp_cond(comp, atom, where):
    """all `if` clauses of a comprehension, conjoined"""
    ifs = comp.generators[0].ifs
    parts = [_bool_expr(c, atom, where) for c in ifs]
    return parts[0] if len(parts) == 1 else "(" + " && ".join(parts) + ")"


def _find_if(fn, pred, where):
    hits = [n for n in ast.walk(fn) if isinstance(n, ast.If) and pred(n)]
    if len(hits) != 1:
        raise TranslatorError(f"{where}: expected exactly one matching `if`, found {len(hits)}")
    return hits[0]


def _assigns_to(stmts, test):
    for st in stmts:
        for x in ast.walk(st):
            if isinstance(x, ast.Assign) and any(test(t) for t in x.targets):
                return True
    return False


def _inline_private_helpers(cls):
    """`self._helper(args)` used as a statement, where `_helper` is a method of the same class whose body is straight-line
    code without a value-returning `return`: replaced by a copy of that body (an extracted helper means what its body
    means at the call site; the matchers below are structural and do not depend on parameter names).  Two passes."""
    import copy
    methods = {m.name: m for m in cls.body if isinstance(m, ast.FunctionDef)}

    def body_of(m):
        b = [st for st in m.body if not (isinstance(st, ast.Expr) and isinstance(st.value, ast.Constant))]
        if any(isinstance(x, ast.Return) and x.value is not None for st in b for x in ast.walk(st)):
            return None
        return b

    class T(ast.NodeTransformer):
        def visit_Expr(self, node):
            c = node.value
            if isinstance(c, ast.Call) and isinstance(c.func, ast.Attribute) and isinstance(c.func.value, ast.Name) \
                    and c.func.value.id == "self" and c.func.attr.startswith("_") and c.func.attr in methods:
                b = body_of(methods[c.func.attr])
                if b is not None:
                    return [copy.deepcopy(st) for st in b]
            return node
    for _ in range(2):
        for m in list(methods.values()):
            T().visit(m)
    ast.fix_missing_locations(cls)


def translate_guards(net) -> list:
    global _HELPERS
    N = _cls(net, "Network")
    _inline_private_helpers(N)
    _HELPERS = N
    L = ["", "/-! ### guards of network.py, translated from the AST (atoms are named in the parameter list) -/"]

    # --- get_verified_by_address: when is the popped cache entry thrown away? ---------------------------------------
    fn = _fn(N, "get_verified_by_address")
    g = _find_if(fn, lambda n: len(n.body) == 1 and isinstance(n.body[0], ast.Assign)
                 and isinstance(n.body[0].value, ast.Constant) and n.body[0].value.value is None
                 and isinstance(n.test, ast.BoolOp), "get_verified_by_address (stale test)")

    def a1(n):
        if isinstance(n, ast.Name):
            return ("cached", False)
        c = _cmp(n)
        if c:
            l, r, k, neg = c
            if k == "is" and any(_is_call_on_self(x, "verified_by_public_key_bin", "get") for x in (l, r)):
                return ("indexHoldsObject", neg)
            if k == "in" and _is_values_of_addresses(r):
                return ("addressInObject", neg)
        return None
    L.append("/-- `if <this>: peer = None` after `reverse_ip_lookup.pop(address)` -/")
    L.append("def ipEntryStale (cached indexHoldsObject addressInObject : Bool) : Bool := "
             + _bool_expr(g.test, a1, "get_verified_by_address"))

    # --- discover_address: when is the address (re)assigned to the introducer? ---------------------------------------
    fn = _fn(N, "discover_address")
    g = _find_if(fn, lambda n: _assigns_to(n.body, lambda t: isinstance(t, ast.Subscript) and _is_self_attr(t.value, "_all_addresses")),
                 "discover_address (introduction test)")

    def a3(n):
        c = _cmp(n)
        if c:
            l, r, k, neg = c
            if k == "in" and _is_self_attr(r, "_all_addresses"):
                return ("addressKnown", neg)
            if k == "in" and _is_self_attr(r, "verified_by_public_key_bin") and _has_attr(l, "introduced_by"):
                return ("introducerInIndex", neg)
        return None
    L.append("/-- the test guarding `_all_addresses[address] = WalkableAddress(peer…)` -/")
    L.append("def needsIntroCond (addressKnown introducerInIndex : Bool) : Bool := "
             + _bool_expr(g.test, a3, "discover_address"))
    pre = [n for n in fn.body if isinstance(n, ast.If)]
    if not pre or not (_cmp(pre[0].test) and _is_self_attr(_cmp(pre[0].test)[1], "blacklist") and not _cmp(pre[0].test)[3]
                       and isinstance(pre[0].body[-1], ast.Return)):
        raise TranslatorError("discover_address: leading `if address in self.blacklist: …; return` not found")

    # --- add_verified_peer: the guard chain --------------------------------------------------------------------------
    fn = _fn(N, "add_verified_peer")
    chain = []
    first = fn.body[0] if not isinstance(fn.body[0], ast.Expr) else fn.body[1]
    c = _cmp(first.test) if isinstance(first, ast.If) else None
    if not (c and c[2] == "in" and not c[3] and _is_self_attr(c[1], "blacklist_mids") and _has_attr(c[0], "mid")
            and len(first.body) == 1 and isinstance(first.body[0], ast.Return)):
        raise TranslatorError("add_verified_peer: leading `if peer.mid in self.blacklist_mids: return` not found")
    chain.append(("midBlacklisted", 0))
    withs = [n for n in fn.body if isinstance(n, ast.With)]
    if len(withs) != 1:
        raise TranslatorError("add_verified_peer: expected one `with self.graph_lock` block")
    body = withs[0].body
    known_name = None
    ifs = []
    for st in body:
        nm, call = _assigned_name(st)
        if nm and _is_call_on_self(call, "verified_by_public_key_bin", "get"):
            known_name = nm
        if isinstance(st, ast.If):
            ifs.append(st)
    if known_name is None or len(ifs) < 2:
        raise TranslatorError("add_verified_peer: `known = verified_by_public_key_bin.get(…)` / guard chain not found")
    k_if, a_if = ifs[0], ifs[1]
    if not (isinstance(k_if.test, ast.Name) and k_if.test.id == known_name and isinstance(k_if.body[-1], ast.Return)
            and any(_callname(x) == "update" for x in ast.walk(k_if))):
        raise TranslatorError("add_verified_peer: `if known: known.addresses.update(…); return` not found")
    chain.append(("keyInIndex", 1))

    def quant(test, fname, container, neg_wanted):
        if not (isinstance(test, ast.Call) and _callname(test) == fname and test.args
                and isinstance(test.args[0], ast.GeneratorExp)):
            return False
        cc = _cmp(test.args[0].elt)
        return bool(cc and cc[2] == "in" and cc[3] == neg_wanted and _is_self_attr(cc[1], container))
    adds = lambda stmts: any(_callname(x) == "add" and isinstance(x.func, ast.Attribute) and _is_self_attr(x.func.value, "verified_peers")
                             for st in stmts for x in ast.walk(st))
    if not (quant(a_if.test, "any", "_all_addresses", False) and adds(a_if.body)):
        raise TranslatorError("add_verified_peer: `if any(address in self._all_addresses …): verified_peers.add` not found")
    chain.append(("someAddressKnown", 2))
    if not (len(a_if.orelse) == 1 and isinstance(a_if.orelse[0], ast.If)):
        raise TranslatorError("add_verified_peer: `elif all(address not in self.blacklist …)` not found")
    e_if = a_if.orelse[0]
    if not (quant(e_if.test, "all", "blacklist", True) and adds(e_if.body) and not e_if.orelse
            and _assigns_to(e_if.body, lambda t: isinstance(t, ast.Subscript) and _is_self_attr(t.value, "_all_addresses"))):
        raise TranslatorError("add_verified_peer: the `elif all(…)` branch does not register the addresses and add the peer")
    chain.append(("noAddressBlacklisted", 3))
    L.append("/-- which branch add_verified_peer takes: 0 return (blacklisted mid), 1 address update of the known peer, 2 verify"
             " (some address known), 3 register the addresses and verify, 4 nothing -/")
    expr = "4"
    for name, num in reversed(chain):
        expr = f"if {name} then {num} else {expr}"
    L.append("def addBranch (midBlacklisted keyInIndex someAddressKnown noAddressBlacklisted : Bool) : Nat := " + expr)

    # --- get_peers_for_service: which cached peers survive a cache hit? -----------------------------------------------
    fn = _fn(N, "get_peers_for_service")
    comps = [n for n in ast.walk(fn) if isinstance(n, ast.ListComp) and n.generators[0].ifs
             and not _is_self_attr(n.generators[0].iter, "verified_peers")]      # (a scan written as a comprehension is the miss path)
    if len(comps) != 1:
        raise TranslatorError("get_peers_for_service: the filtering list comprehension of the cache-hit path not found")

    def a4(n):
        c = _cmp(n)
        if c:
            l, r, k, neg = c
            if k == "in" and _is_self_attr(r, "verified_peers"):
                return ("isVerified", neg)
            if k == "in" and _is_call_on_self(r, "services_per_peer", "get"):
                return ("advertisesService", neg)
        return None
    L.append("/-- filter of the cached list on a cache hit -/")
    L.append("def svcHitKeep (isVerified advertisesService : Bool) : Bool := "
             + _comp_cond(comps[0], a4, "get_peers_for_service"))

    # --- get_introductions_from: which cached addresses survive a cache hit? ------------------------------------------
    fn = _fn(N, "get_introductions_from")
    comps = [n for n in ast.walk(fn) if isinstance(n, ast.ListComp) and n.generators[0].ifs
             and not isinstance(n.generators[0].iter, ast.Call)]
    if len(comps) != 1:
        raise TranslatorError("get_introductions_from: the validating list comprehension of the cache-hit path not found")

    def a5(n):
        c = _cmp(n)
        if c:
            l, r, k, neg = c
            if k == "in" and _is_self_attr(r, "_all_addresses"):
                return ("addressKnown", neg)
            if k == "eq" and (_has_attr(l, "introduced_by") or _has_attr(r, "introduced_by")):
                return ("introducedByPeer", neg)
        return None
    L.append("/-- filter of the cached introduction list on a cache hit -/")
    L.append("def introHitKeep (addressKnown introducedByPeer : Bool) : Bool := "
             + _comp_cond(comps[0], a5, "get_introductions_from"))

    # --- remove_by_address: which verified peers are kept? ------------------------------------------------------------
    fn = _fn(N, "remove_by_address")
    comps = [n for n in ast.walk(fn) if isinstance(n, (ast.SetComp, ast.ListComp)) and n.generators[0].ifs]
    if len(comps) != 1:
        raise TranslatorError("remove_by_address: the comprehension computing the remaining verified peers not found")

    def a7(n):
        c = _cmp(n)
        if c:
            l, r, k, neg = c
            if k == "in" and _is_values_of_addresses(r):
                return ("usesAddress", neg)
            if k == "eq" and not neg and _is_call_on_self(l, "services_per_peer", "pop") \
                    and isinstance(r, ast.Constant) and r.value == 0:
                return "false"      # `services_per_peer.pop(…) == 0`: never true, evaluated for its side effect
        return None
    L.append("/-- a verified peer stays in `verified_peers` iff (the `pop(…) == 0` disjunct only forgets the services) -/")
    L.append("def rmaKeep (usesAddress : Bool) : Bool := " + _comp_cond(comps[0], a7, "remove_by_address"))

    # --- snapshot: which verified peers are written? ------------------------------------------------------------------
    fn = _fn(N, "snapshot")
    # the write condition is either the `if` around `out += pack(...)` or the filter of a comprehension / generator whose
    # element is the `pack(...)` call (`b"".join(pack(..) for peer in … if <condition>)`)
    gens = [n for n in ast.walk(fn) if isinstance(n, (ast.GeneratorExp, ast.ListComp)) and n.generators[0].ifs
            and any(_callname(x) == "pack" for x in ast.walk(n.elt))]
    ifs_ = [n for n in ast.walk(fn) if isinstance(n, ast.If) and any(_callname(x) == "pack" for st in n.body for x in ast.walk(st))]
    if len(gens) + len(ifs_) != 1:
        raise TranslatorError(f"snapshot: expected exactly one guarded pack(...), found {len(gens) + len(ifs_)}")

    def a6(n):
        if isinstance(n, ast.Attribute) and n.attr == "address":
            return ("addressTruthy", False)
        c = _cmp(n)
        if c:
            l, r, k, neg = c
            tup = r if isinstance(r, ast.Tuple) else l if isinstance(l, ast.Tuple) else None
            if k == "eq" and tup is not None and [getattr(e, "value", None) for e in tup.elts] == ["0.0.0.0", 0]:
                return ("isZeroAddress", neg)
        return None
    L.append("/-- `if <this>: out += pack(\"address\", peer.address)` -/")
    L.append("def snapshotKeep (addressTruthy isZeroAddress : Bool) : Bool := "
             + (_comp_cond(gens[0], a6, "snapshot") if gens else _bool_expr(ifs_[0].test, a6, "snapshot")))

    # --- get_walkable_addresses: the old-style skip ---------------------------------------------------------------------
    fn = _fn(N, "get_walkable_addresses")
    g = _find_if(fn, lambda n: len(n.body) == 1 and isinstance(n.body[0], ast.Continue), "get_walkable_addresses (old_style skip)")

    def a8(n):
        if isinstance(n, ast.Name) and "old" in n.id:
            return ("oldStyleRequested", False)
        if isinstance(n, ast.Name) and "new" in n.id:
            return ("addressIsNewStyle", False)
        return None
    L.append("/-- `if <this>: continue` in the per-service filter -/")
    L.append("def walkSkip (oldStyleRequested addressIsNewStyle : Bool) : Bool := " + _bool_expr(g.test, a8, "get_walkable_addresses"))

    # --- effects: which stores does a mutator touch? (presence of the statement, as a Bool) --------------------------
    def pops(fn_node, attr):
        return any(_callname(x) == "pop" and isinstance(x.func, ast.Attribute) and _is_self_attr(x.func.value, attr)
                   for x in ast.walk(fn_node))

    def removes_from_set(fn_node):
        return any(_callname(x) == "remove" and isinstance(x.func, ast.Attribute) and _is_self_attr(x.func.value, "verified_peers")
                   for x in ast.walk(fn_node))
    rmp, rma, addf = _fn(N, "remove_peer"), _fn(N, "remove_by_address"), _fn(N, "add_verified_peer")
    reassigns_set = _assigns_to(rma.body, lambda t: _is_self_attr(t, "verified_peers"))
    sets_index = lambda stmts: _assigns_to(stmts, lambda t: isinstance(t, ast.Subscript) and _is_self_attr(t.value, "verified_by_public_key_bin"))
    inval = any(isinstance(f, ast.For) and _is_call_on_self(f.iter, "services_per_peer", "get") and pops(f, "reverse_service_lookup")
                for f in ast.walk(addf))
    flags = [
        ("rmpPopsAddresses", pops(rmp, "_all_addresses"), "remove_peer pops the peer's addresses from _all_addresses"),
        ("rmpRemovesFromSet", removes_from_set(rmp), "remove_peer removes the peer from verified_peers"),
        ("rmpPopsIndex", pops(rmp, "verified_by_public_key_bin"), "remove_peer pops verified_by_public_key_bin"),
        ("rmpPopsServices", pops(rmp, "services_per_peer"), "remove_peer pops services_per_peer"),
        ("rmaPopsAddress", pops(rma, "_all_addresses"), "remove_by_address pops the address from _all_addresses"),
        ("rmaReplacesSet", reassigns_set, "remove_by_address assigns the filtered set to verified_peers"),
        ("rmaPopsIndex", pops(rma, "verified_by_public_key_bin"), "remove_by_address pops verified_by_public_key_bin for the removed peers"),
        ("addSetsIndex", sets_index(a_if.body) and sets_index(e_if.body), "both verifying branches of add_verified_peer store the peer in the index"),
        ("addInvalidatesServiceCache", inval, "add_verified_peer drops the cached peer lists of the new peer's services"),
    ]
    L.append("")
    L.append("/-! ### effects: does the mutator contain the statement? -/")
    for name, val, doc in flags:
        L.append(f"/-- {doc} -/")
        L.append(f"def {name} : Bool := {'true' if val else 'false'}")
    # a query must not alias a stored set (defect 2f6dd0d): `services = self.services_per_peer.get(…)` followed by `.add`
    wfn = _fn(N, "get_walkable_addresses")
    for st in ast.walk(wfn):
        nm, call = _assigned_name(st)
        if nm and _is_call_on_self(call, "services_per_peer", "get") and isinstance(st.value, ast.Call) and st.value is call:
            if any(_callname(x) == "add" and isinstance(x.func, ast.Attribute) and isinstance(x.func.value, ast.Name)
                   and x.func.value.id == nm for x in ast.walk(wfn)):
                raise TranslatorError("get_walkable_addresses adds to the set object stored in services_per_peer (a query "
                                      "that changes the graph)")
    # a mutator must not keep the caller's container (aliasing across the API boundary): what discover_services stores in /
    # unions into services_per_peer has to be a fresh `set(...)`
    dfn = _fn(N, "discover_services")
    fresh = set()
    for st in dfn.body if not isinstance(dfn.body[-1], ast.With) else dfn.body[-1].body:
        if isinstance(st, ast.Assign) and len(st.targets) == 1 and isinstance(st.targets[0], ast.Name) \
                and _callname(st.value) == "set":
            fresh.add(st.targets[0].id)          # unconditional top-level `x = set(...)`
    def _is_fresh(v):
        return _callname(v) == "set" or (isinstance(v, ast.Name) and v.id in fresh and False)
    for x in ast.walk(dfn):
        tgt = val = None
        if isinstance(x, ast.Assign) and len(x.targets) == 1:
            tgt, val = x.targets[0], x.value
        elif isinstance(x, ast.AugAssign):
            tgt, val = x.target, x.value
        if tgt is not None and isinstance(tgt, ast.Subscript) and _is_self_attr(tgt.value, "services_per_peer"):
            if isinstance(x, ast.Assign) and not _is_fresh(val):
                raise TranslatorError("discover_services stores an object it did not create in services_per_peer "
                                      f"(`{ast.unparse(x)}`): the caller's container would be shared")
    L.append("/-- discover_services stores a private `set(...)` per peer (checked on the AST) -/")
    L.append("def svcsStoresCopy : Bool := true")
    return L


def translate() -> str:
    ser = ast.parse((REPO / "ipv8/messaging/serialization.py").read_text())
    consts = {}
    for n in ser.body:
        if isinstance(n, ast.Assign) and len(n.targets) == 1 and isinstance(n.targets[0], ast.Name) \
                and n.targets[0].id.startswith("ADDRESS_TYPE_"):
            if not (isinstance(n.value, ast.Constant) and isinstance(n.value.value, int)):
                raise TranslatorError(f"{n.targets[0].id} is not an integer literal")
            consts[n.targets[0].id] = n.value.value
    for need in ("ADDRESS_TYPE_IPV4", "ADDRESS_TYPE_IPV6", "ADDRESS_TYPE_DOMAIN_NAME"):
        if need not in consts:
            raise TranslatorError(f"{need} not found")
    addr = _cls(ser, "Address")
    # --- pack: calls pack(fmt, TYPE, ...) ---
    packs = {}
    for n in ast.walk(_fn(addr, "pack")):
        if _callname(n) == "pack" and len(n.args) >= 2:
            if not isinstance(n.args[1], ast.Name) or n.args[1].id not in consts:
                raise TranslatorError("Address.pack: second argument of pack() is not an ADDRESS_TYPE_* name")
            packs[n.args[1].id] = _widths(_fmt(n.args[0]))
    if set(packs) != set(consts):
        raise TranslatorError(f"Address.pack covers {sorted(packs)}, expected {sorted(consts)}")
    # --- unpack: `if address_type == TYPE` branches ---
    unpacks = {}
    unpack_fn = _fn(addr, "unpack")
    if len(unpack_fn.args.args) < 3:
        raise TranslatorError("Address.unpack has fewer than three parameters")
    offset_name = unpack_fn.args.args[2].arg
    type_var = None
    for n in ast.walk(unpack_fn):
        nm, call = _assigned_name(n)
        if nm and _callname(call) == "unpack_from" and call.args and _fmt(call.args[0]) == ">B":
            type_var = nm
            break
    if type_var is None:
        raise TranslatorError("Address.unpack: no variable is assigned from unpack_from('>B', ...)")
    for n in ast.walk(unpack_fn):
        if isinstance(n, ast.If):
            tname = None
            for c in ast.walk(n.test):
                if isinstance(c, ast.Compare) and len(c.ops) == 1 and isinstance(c.ops[0], ast.Eq):
                    l, r = c.left, c.comparators[0]
                    if isinstance(l, ast.Name) and isinstance(r, ast.Name):
                        if l.id == type_var:
                            tname = r.id
                        elif r.id == type_var:
                            tname = l.id
            if tname is None:
                continue
            if tname not in consts:
                raise TranslatorError(f"Address.unpack compares with unknown {tname}")
            fmts, length_name = [], "length"
            for b in n.body:
                for c in ast.walk(b):
                    if _callname(c) == "unpack_from":
                        fmts.append(_widths(_fmt(c.args[0])))
                nm, call = _assigned_name(b)
                if nm and _callname(call) == "unpack_from" and length_name == "length" and len(fmts) == 1:
                    length_name = nm
            body = ast.Module(body=n.body, type_ignores=[])
            unpacks[tname] = (fmts, _ret_offset(body, offset_name, length_name))
    if set(unpacks) != set(consts):
        raise TranslatorError(f"Address.unpack covers {sorted(unpacks)}, expected {sorted(consts)}")

    def fixed(tname):
        w = packs[tname]
        if len(w) != 3 or w[0] != 1 or w[1] is None:
            raise TranslatorError(f"Address.pack format for {tname} is not type byte, fixed host, port: {w}")
        fm, (adv, uses_len) = unpacks[tname]
        if uses_len or len(fm) != 1 or len(fm[0]) != 2 or fm[0][0] is None:
            raise TranslatorError(f"Address.unpack shape for {tname} not supported: {fm}")
        return w[1], w[2], fm[0][0], fm[0][1], adv

    v4 = fixed("ADDRESS_TYPE_IPV4")
    v6 = fixed("ADDRESS_TYPE_IPV6")
    wd = packs["ADDRESS_TYPE_DOMAIN_NAME"]
    if len(wd) != 4 or wd[0] != 1 or wd[2] is not None:
        raise TranslatorError(f"Address.pack format for host names not supported: {wd}")
    fm, (dadv, duses) = unpacks["ADDRESS_TYPE_DOMAIN_NAME"]
    if not duses or [len(f) for f in fm] != [1, 1]:
        raise TranslatorError(f"Address.unpack shape for host names not supported: {fm}")

    # --- Peer.INTERFACE_ORDER ---
    peer = ast.parse((REPO / "ipv8/peer.py").read_text())
    order = None
    for n in _cls(peer, "Peer").body:
        if isinstance(n, ast.AnnAssign) and n.value is not None:
            n = ast.Assign(targets=[n.target], value=n.value)
        if isinstance(n, ast.Assign) and isinstance(n.targets[0], ast.Name) and n.targets[0].id == "INTERFACE_ORDER":
            if not isinstance(n.value, (ast.List, ast.Tuple)) or not all(isinstance(e, ast.Name) and e.id in SLOT for e in n.value.elts):
                raise TranslatorError("Peer.INTERFACE_ORDER is not a list of known address classes")
            order = [SLOT[e.id] for e in n.value.elts]
    if order is None:
        raise TranslatorError("Peer.INTERFACE_ORDER not found")

    # --- Network defaults ---
    net = ast.parse((REPO / "ipv8/peerdiscovery/network.py").read_text())
    caps = {}
    # module-level (and class-level) names bound exactly once to an integer literal may stand for that literal
    named, seen = {}, {}
    for scope in (net.body, _cls(net, "Network").body):
        for st in scope:
            if isinstance(st, ast.AnnAssign) and st.value is not None:
                st = ast.Assign(targets=[st.target], value=st.value)
            if isinstance(st, ast.Assign) and len(st.targets) == 1 and isinstance(st.targets[0], ast.Name):
                nm = st.targets[0].id
                seen[nm] = seen.get(nm, 0) + 1
                if isinstance(st.value, ast.Constant) and isinstance(st.value.value, int) and not isinstance(st.value.value, bool):
                    named[nm] = st.value.value
    for other in ast.walk(net):      # a name that is assigned anywhere else (global rebinding) is not a constant
        if isinstance(other, (ast.Assign, ast.AugAssign, ast.AnnAssign)):
            for tg in (other.targets if isinstance(other, ast.Assign) else [other.target]):
                if isinstance(tg, ast.Name) and tg.id in named and other not in net.body and other not in _cls(net, "Network").body:
                    seen[tg.id] = seen.get(tg.id, 0) + 1

    def int_value(v):
        if isinstance(v, ast.Constant) and isinstance(v.value, int):
            return v.value
        if isinstance(v, ast.Name) and v.id in named and seen.get(v.id) == 1:
            return named[v.id]
        if isinstance(v, ast.Attribute) and isinstance(v.value, ast.Name) and v.value.id in ("self", "Network") \
                and v.attr in named and seen.get(v.attr) == 1:
            return named[v.attr]
        return None
    for n in ast.walk(_fn(_cls(net, "Network"), "__init__")):
        if isinstance(n, ast.AnnAssign) and n.value is not None:
            n = ast.Assign(targets=[n.target], value=n.value)
        if isinstance(n, ast.Assign) and isinstance(n.targets[0], ast.Attribute) and n.targets[0].attr.endswith("_cache_size"):
            val = int_value(n.value)
            if val is None:
                raise TranslatorError(f"{n.targets[0].attr} default is neither an integer literal nor a constant bound once to one")
            caps[n.targets[0].attr] = val
    for need in ("reverse_ip_cache_size", "reverse_intro_cache_size", "reverse_service_cache_size"):
        if need not in caps:
            raise TranslatorError(f"{need} default not found")

    L = []
    L.append("/- GENERATED by tools/gen_c12.py from ipv8/messaging/serialization.py, ipv8/peer.py,")
    L.append("   ipv8/peerdiscovery/network.py — do not edit. -/")
    L.append("namespace Ipv8.C12.Gen")
    L.append("")
    L.append(f"def typeV4 : Nat := {consts['ADDRESS_TYPE_IPV4']}")
    L.append(f"def typeV6 : Nat := {consts['ADDRESS_TYPE_IPV6']}")
    L.append(f"def typeDomain : Nat := {consts['ADDRESS_TYPE_DOMAIN_NAME']}")
    for nm, t in (("v4", v4), ("v6", v6)):
        L.append(f"/-- Address.pack: type byte, {t[0]}-byte host, {t[1]}-byte port; Address.unpack reads {t[2]}+{t[3]} bytes at offset+1 and returns offset+{t[4]} -/")
        L.append(f"def {nm}HostLen : Nat := {t[0]}")
        L.append(f"def {nm}PortLen : Nat := {t[1]}")
        L.append(f"def {nm}HostLenUnpack : Nat := {t[2]}")
        L.append(f"def {nm}PortLenUnpack : Nat := {t[3]}")
        L.append(f"def {nm}Advance : Nat := {t[4]}")
    L.append(f"def domLenLen : Nat := {wd[1]}")
    L.append(f"def domPortLen : Nat := {wd[3]}")
    L.append(f"def domLenLenUnpack : Nat := {fm[0][0]}")
    L.append(f"def domPortLenUnpack : Nat := {fm[1][0]}")
    L.append(f"def domAdvance : Nat := {dadv}")
    L.append("/-- Peer.INTERFACE_ORDER as address-slot numbers (0 = UDPv4Address, 1 = UDPv6Address, 2 = tuple) -/")
    L.append(f"def interfaceOrder : List Nat := {order}")
    L.append(f"def defaultIpCap : Nat := {caps['reverse_ip_cache_size']}")
    L.append(f"def defaultIntroCap : Nat := {caps['reverse_intro_cache_size']}")
    L.append(f"def defaultSvcCap : Nat := {caps['reverse_service_cache_size']}")
    L += translate_guards(net)
    L.append("")
    L.append("end Ipv8.C12.Gen")
    return "\n".join(L) + "\n"


if __name__ == "__main__":
    print(translate())
