"""
Import behaviour-preserving refactorings from /tmp/benign_out/<PID>/b<k>/ into /verif/benign/<PID>_b<k>/ and confirm that the
patch applies to a clean scratch worktree of /repo HEAD and that the complete unit-test suite still passes with it.
Usage: JOBS=5 python3 tools/confirm_benign.py C03 C08 ...
"""
import json
import os
import re
import shutil
import subprocess
import sys
from concurrent.futures import ThreadPoolExecutor
from pathlib import Path

V = Path(__file__).resolve().parent.parent
OUT = Path(os.environ.get("BENIGN_OUT", "/tmp/benign_out"))


def sh(cmd, timeout=1800):
    return subprocess.run(cmd, shell=True, capture_output=True, text=True, timeout=timeout)


def confirm(item):
    pid, k = item
    src = OUT / pid / k
    name = f"{pid}_{k}"
    dst = V / "benign" / name
    if not (src / "patch.diff").exists():
        return name, "no patch"
    dst.mkdir(parents=True, exist_ok=True)
    for f in ("patch.diff", "meta.json"):
        if (src / f).exists():
            shutil.copy(src / f, dst / f)
    try:
        meta = json.loads((dst / "meta.json").read_text())
    except Exception:
        meta = {}
    meta["property"] = pid
    meta["origin"] = "written by an independent sub-agent that saw only the property text and a scratch worktree (nothing from /verif)"
    wt = f"/tmp/confbwt_{name}_{os.getpid()}"
    conf = {}
    try:
        sh(f"git -C /repo worktree add --detach {wt} HEAD")
        conf["base_commit"] = sh("git -C /repo rev-parse --short HEAD").stdout.strip()
        r = sh(f"git -C {wt} apply {dst / 'patch.diff'}")
        conf["patch_applies"] = r.returncode == 0
        if r.returncode == 0:
            r = sh(f"cd {wt} && PYTHONPATH={wt} timeout 1500 /venv/bin/python -m pytest -q -p no:cacheprovider --timeout=900 2>&1 | tail -5")
            m = re.search(r"(\d+) passed", r.stdout)
            f = re.search(r"(\d+) failed", r.stdout)
            conf["tests_passed"] = int(m.group(1)) if m else 0
            conf["tests_failed"] = int(f.group(1)) if f else 0
        conf["ok"] = bool(conf.get("patch_applies") and conf.get("tests_passed", 0) >= 602 and not conf.get("tests_failed"))
    finally:
        sh(f"git -C /repo worktree remove --force {wt}")
        shutil.rmtree(wt, ignore_errors=True)
    meta["confirmed"] = conf
    (dst / "meta.json").write_text(json.dumps(meta, indent=1))
    return name, conf


if __name__ == "__main__":
    items = []
    for pid in sys.argv[1:]:
        for d in sorted((OUT / pid).glob("b*")):
            items.append((pid, d.name))
    with ThreadPoolExecutor(int(os.environ.get("JOBS", "3"))) as ex:
        for name, conf in ex.map(confirm, items):
            print(name, json.dumps(conf))
