"""
C06 — an exit node never emits traffic its exit policy forbids.

Link to the code
  * translator tools/gen_exitpolicy.py regenerates lean/Ipv8/C06/GenPolicy.lean (DataChecker.*, TunnelExitSocket.is_allowed,
    PEER_FLAG_*, queue bound) from the working tree on every run; the theorems are about those definitions;
  * correspondence, part A (gate): structured/exhaustive packets x the 8 subsets of {RELAY, EXIT_BT, EXIT_IPV8}, pushed
    through the REAL TunnelExitSocket.sendto / TunnelProtocol.datagram_received of a socket opened through the real
    enable()/create_transports path on fake transports; compared with the model (`cls`, `allow` lines);
  * correspondence, part B (paths): random histories of on_data / transport-open / DNS-result / outside-datagram /
    flag-change events on a REAL TunnelCommunity (MockIPv8) with real TunnelExitSockets; fake event-loop services only
    (create_datagram_endpoint, getaddrinfo).  Outputs (transport.sendto calls, send_data calls, local deliveries,
    resolutions started) and the socket state after every event are compared with the model line by line;
  * oracle (independent of the model; own re-statement of the traffic classes below): every transport.sendto must be
    allowed by the flags configured at that moment and must not go to ("0.0.0.0", 0); every send_data caused by an outside
    datagram must be allowed; a socket may start opening only while handling data that came from its hop's IP.
"""
from __future__ import annotations

import asyncio
import logging
import socket
import struct

import gen_exitpolicy
from vlib import Ctx, InfraError

PROPERTY = "C06"
LEAN_TARGETS = ["Ipv8.C06.Props"]
PROPS_FILE = "Ipv8/C06/Props.lean"
DRIVER = "drv_c06"
RULE = ("part A: packets enumerated over the bytes the classifier inspects - all 65536 joint values of bytes 0-1 x length classes "
        "19/20/23 (exhaustive); structured samples of the action words at offsets 0 and 8 (17x17 chosen words x 8 lengths, 5^4 byte "
        "patterns per offset), of first/last byte, single-bit flips of the 22-byte prefix, all lengths 0..64 x header templates, "
        "larger and random packets - x all 8 subsets of {RELAY, EXIT_BT, EXIT_IPV8}, outbound and inbound (16 evaluations per "
        "packet); distinct = distinct packet; non-trivial = allowed under at least one and forbidden under at least one flag set. "
        "opening grid: every (hop address, source address of the first cell) pair from the near-miss table, plus nested-DATA cases; "
        "plus (hop address, address under which the Network already knows the creator's key) pairs; each pair is one distinct case and counts as non-trivial. part B: event histories on a real TunnelCommunity; distinct = "
        "distinct history; non-trivial = at least one emission or tunnelled reply AND at least one dropped packet")
TRUSTED_BASE = [
    "tools/gen_exitpolicy.py part 1: AST translation of DataChecker.* and TunnelExitSocket.is_allowed (boolean/byte-string subset, lean/Ipv8/C06/Py.lean vocabulary)",
    "tools/gen_exitpolicy.py part 2: translation of sendto / datagram_received / exit_data / on_data into decision trees (IR.lean) by canonical expression text, plus its structural checks (flush loop, resolution callback, tunnel_data arguments, who references exit_data / on_data, on_packet_from_circuit dispatching by data[22])",
    "the meaning Model.lean gives to the IR's atoms and actions, and the hand-written rest of the model (two-stage transport opening and flush, resolve/pickAddr, IPv4-mapped filter), tied by the correspondence run",
    "Ipv8/C06/Model.lean `Spec`: a transcription of what DataChecker tests today (change detector, not conformance to BEP 29/15), cross-checked against the harness's own Python re-statement on every generated packet",
    "fake asyncio services in the harness (create_datagram_endpoint, getaddrinfo); the OS socket and the real resolver are not exercised; numeric host literals are answered by the host's getaddrinfo(AI_NUMERICHOST)",
    "DataPayload decoding (serializer) is used as is; it is the subject of C02/C03",
]
ASSUMPTIONS = [
    "the model starts at on_data's arguments; in the harness every DATA cell is a really encrypted cell handed to the node's endpoint listeners with its UDP source address (PythonCryptoEndpoint.process_cell, Community.on_packet, on_cell and on_packet_from_circuit run for real; the harness encrypts with the hop's SessionKeys object); the cipher itself and circuit authentication are C04/C05; on_data takes the circuit id from the decrypted payload and ignores the id of the cell it arrived in (as the code does)",
    "asyncio runs create_transports and resolution callbacks as scheduled; their interleaving with other events is an event order of the model",
    "exit sockets come into being through join_circuit (event `join`, real code path with the creator's key unknown / known to the Network under the same or another address); socket removal/close and later address updates of the hop's Peer object are not events of the model",
    "cell handlers other than on_data that on_packet_from_circuit may re-dispatch to (create, extend, ping, ...) do not reach exit_data (checked syntactically: exit_data is referenced from on_data only) and are otherwise outside C06",
    "own circuits in the harness always have a hop (circuit.hop is never None); they are of all four circuit types (DATA, IP_SEEDER, RP_SEEDER, RP_DOWNLOADER)",
]

NULL = ("0.0.0.0", 0)
# (message id, body after the circuit id) of cells other than DATA that the harness sends as cells of their own
CELL_BODIES = {"ping": (6, struct.pack(">H", 7)),
               "establish-intro": (9, struct.pack(">H", 1) + b"\x11" * 20 + struct.pack(">H", 4) + b"abcd"),
               "establish-rendezvous": (11, struct.pack(">H", 1) + b"\x22" * 20)}
CTYPES = ["DATA", "IP_SEEDER", "RP_SEEDER", "RP_DOWNLOADER"]      # Circuit.ctype of a circuit this node originated


def ctype_of(c) -> str:
    """circuit type of an own-circuit record (older replays carry an `e2e` flag instead)"""
    return c["ctype"] if "ctype" in c else ("RP_DOWNLOADER" if c.get("e2e") else "DATA")


# ---- the property's traffic classes, restated here from first principles (independent of model and code) ----------
def spec_utp(d: bytes) -> bool:
    return len(d) >= 20 and (d[0] // 16) in (0, 1, 2, 3, 4) and d[0] % 16 == 1 and d[1] in (0, 1, 2, 3)


def spec_tracker(d: bytes) -> bool:
    def action(off):
        return int.from_bytes(d[off:off + 4], "big") in (0, 1, 2, 3)
    return (len(d) >= 8 and action(0)) or (len(d) >= 12 and action(8))


def spec_dht(d: bytes) -> bool:
    return len(d) >= 2 and d[0] == 0x64 and d[len(d) - 1] == 0x65


def spec_bt(d: bytes) -> bool:
    return spec_utp(d) or spec_tracker(d) or spec_dht(d)


def spec_ipv8(d: bytes) -> bool:
    return len(d) >= 23 and d[0] == 0 and d[1] in (1, 2)


def spec_allowed(exit_bt: bool, exit_ipv8: bool, pfx: bytes, d: bytes) -> bool:
    return (spec_bt(d) and exit_bt) or (spec_ipv8(d) and (exit_ipv8 or d[:22] == pfx))


def generate(ctx: Ctx):
    """two generated files; when one translation fails the other is still written, so its theorems are still judged"""
    import vlib
    out, errs = [], []
    for rel, fn, key in (("Ipv8/C06/GenPolicy.lean", gen_exitpolicy.translate, "translator"),
                         ("Ipv8/C06/GenPaths.lean", gen_exitpolicy.translate_paths, "translator_paths")):
        try:
            src, meta = fn()
            ctx.extra[key] = meta
            out.append((rel, src))
        except vlib.TranslatorError as e:
            errs.append(str(e))
    if errs:
        for rel, src in out:
            vlib.write_if_changed(vlib.LEAN / rel, src)
        raise vlib.TranslatorError("; ".join(errs))
    return out


# ---- environment: real community + real exit sockets on a loop with fake datagram endpoints and resolver ---------------
class FakeSock:
    def getsockname(self):
        return ("0.0.0.0", 4242)


class FakeTransport:
    def __init__(self, env, fam, proto):
        self.env, self.fam, self.proto, self.closed = env, fam, proto, False
        self.owner = None

    def get_extra_info(self, _):
        return FakeSock()

    def sendto(self, data, addr):
        self.env.log.append(("emit", self.owner, self.fam, bytes(data), addr))

    def close(self):
        self.closed = True


def make_loop_class():
    import vclock

    class Loop(vclock.VLoop):
        env = None

        async def create_datagram_endpoint(self, factory, local_addr=None, **kw):
            fut = self.create_future()
            fam = 6 if local_addr[0] == "::" else 4
            proto = factory()
            owner = getattr(getattr(getattr(proto, "received_cb", None), "__self__", None), "circuit_id", None)
            gate = {"fam": fam, "fut": fut, "owner": owner, "transport": None}
            self.env.gates.append(gate)
            await fut
            tr = FakeTransport(self.env, fam, proto)
            tr.owner = gate["owner"]
            gate["transport"] = tr
            return tr, proto

        async def getaddrinfo(self, host, port, **kw):
            fut = self.create_future()
            self.env.dns.append({"host": host, "port": port, "fut": fut, "owner": None})
            return await fut

    return Loop


class Env:
    """One real TunnelCommunity (MockIPv8) reused for all cases of a run."""

    def __init__(self, community="base"):
        import vclock
        from ipv8.messaging.anonymization import tunnel as T
        from ipv8.messaging.anonymization.community import TunnelCommunity, TunnelSettings
        if community == "hidden":
            from ipv8.messaging.anonymization.hidden_services import HiddenTunnelCommunity as TunnelCommunity  # noqa: N814
        self.community = community
        from ipv8.test.mocking.endpoint import AutoMockEndpoint
        from ipv8.test.mocking.ipv8 import MockIPv8
        logging.disable(logging.CRITICAL)
        AutoMockEndpoint.SEND_INET_EXCEPTION_TO_LOOP = False
        self.T = T
        self.F_RELAY, self.F_BT, self.F_IPV8 = T.PEER_FLAG_RELAY, T.PEER_FLAG_EXIT_BT, T.PEER_FLAG_EXIT_IPV8
        self.F_SPEED = T.PEER_FLAG_SPEED_TEST
        self.loop = make_loop_class()()
        self.loop.env = self
        asyncio.set_event_loop(self.loop)
        vclock.install(self.loop)
        self.log, self.gates, self.dns = [], [], []

        async def mk():
            if community == "hidden":
                from ipv8.messaging.anonymization.hidden_services import HiddenTunnelSettings
                s = HiddenTunnelSettings()
            else:
                s = TunnelSettings()
            s.min_circuits = 0
            s.max_circuits = 0
            s.remove_tunnel_delay = 0
            s.peer_flags = {T.PEER_FLAG_RELAY}
            node = MockIPv8("curve25519", TunnelCommunity, settings=s)
            node.overlay.cancel_all_pending_tasks()
            return node
        self.node = self.loop.run_until_complete(mk())
        self.ov = self.node.overlay
        self.pfx = bytes(self.ov.get_prefix())
        self.ov.send_data = lambda target, cid, dest, src, data: self.log.append(("tunnel", cid, target, dest, src, bytes(data)))
        from ipv8.messaging.anonymization.payload import DataPayload
        # The REAL on_packet_from_circuit runs (re-dispatch of own-overlay payloads by data[22] through decode_map_private).
        # on_data stays the real handler of DataPayload; every other registered cell handler is replaced by a recorder, so
        # that we see WHICH handler would run with WHICH source address without executing circuit management.
        # messages that only ever make sense as a cell from the circuit's neighbour (circuit management and the
        # hidden-services cell-only messages), by payload class NAME - a fixed reading of the protocol, not today's
        # registration table: such a handler must never run with a source address taken from a DATA payload
        from ipv8.messaging.anonymization import payload as P
        self.circuit_cell_ids = {getattr(P, n).msg_id for n in (
            "DataPayload", "CreatePayload", "CreatedPayload", "ExtendPayload", "ExtendedPayload", "PingPayload", "PongPayload",
            "DestroyPayload", "TestRequestPayload", "TestResponsePayload", "EstablishIntroPayload", "IntroEstablishedPayload",
            "EstablishRendezvousPayload", "RendezvousEstablishedPayload", "LinkE2EPayload", "LinkedE2EPayload") if hasattr(P, n)}
        self.declared_exit_ids = sorted(self.ov.exit_msg_ids) if hasattr(self.ov, "exit_msg_ids") else []
        # A handler reached through on_data's re-dispatch (a cell nested in a DATA payload) is only recorded.  A cell that
        # arrives as a cell of its own runs the REAL handler when it is one of the harmless ones (ping, pong and the
        # hidden-services establish-intro / establish-rendezvous, which act on an exit socket); other types are recorded.
        self.in_on_data = 0
        real_on_data = self.ov.decode_map_private[DataPayload.msg_id]

        def on_data_wrapper(src, data, cid=None):
            self.in_on_data += 1
            try:
                return real_on_data(src, data, cid)
            finally:
                self.in_on_data -= 1
        self.ov.decode_map_private[DataPayload.msg_id] = on_data_wrapper
        run_for_real = {getattr(P, n).msg_id for n in ("PingPayload", "PongPayload", "EstablishIntroPayload",
                                                         "EstablishRendezvousPayload") if hasattr(P, n)}

        def wrap(mid, real):
            def handler(src, data, cid=None):
                if self.in_on_data:
                    self.log.append(("handler", mid, src, cid))
                    return None
                self.log.append(("cell-handler", mid, src, cid))
                return real(src, data, cid) if mid in run_for_real else None
            return handler
        for mid in list(self.ov.decode_map_private):
            if mid != DataPayload.msg_id:
                self.ov.decode_map_private[mid] = wrap(mid, self.ov.decode_map_private[mid])
        # one message type that IS meant to come back through an exit (like PeersResponse/CreatedE2E of the hidden-services
        # overlay): registered by the harness, allowed from exits where the tree has such a notion
        self.EXIT_MSG = 200
        self.ov.decode_map_private[self.EXIT_MSG] = (lambda src, data, cid: self.log.append(("handler", self.EXIT_MSG, src, cid)))
        self.exit_ids = []
        if hasattr(self.ov, "exit_msg_ids"):
            self.ov.exit_msg_ids.add(self.EXIT_MSG)
            self.exit_ids = sorted(self.ov.exit_msg_ids)
        self.ov.on_raw_data = lambda circuit, origin, data: self.log.append(("loc", circuit.circuit_id, 2))
        self._peers = {}
        self.added_peers = []
        self.creator_key = {}
        from ipv8.messaging.anonymization.endpoint import TunnelEndpoint
        self.plain_ep = self.ov.endpoint
        self.sent = []          # what the node sends on its tunnel socket (CREATED replies): recorded, never delivered
        self.plain_ep.send = lambda addr, packet: self.sent.append((tuple(addr), len(packet)))
        self.tunnel_ep = TunnelEndpoint(self.plain_ep)
        self.cur_cid = None
        self.tunnel_ep.notify_listeners = lambda packet, from_tunnel=False: self.log.append(("loc", self.cur_cid, 1))

    def peer(self, ip, port):
        from ipv8.keyvault.crypto import default_eccrypto
        from ipv8.peer import Peer
        if "key" not in self._peers:
            self._peers["key"] = default_eccrypto.generate_key("curve25519").pub()
        return Peer(self._peers["key"], (ip, port))

    def set_flags(self, flags):
        self.ov.settings.peer_flags = set(flags)

    async def join(self, cid, ip, port, known=None):
        """create the exit socket the way the code does: the REAL on_create (guards, should_join_circuit, join_circuit) for a
        CREATE cell that came from (ip, port).  `known`: addresses under which the creator's public key is already a
        verified peer of this node's Network (None = unknown key).  Key material is random; it only serves as an identity
        and is never compared or recorded."""
        from ipv8.messaging.anonymization.payload import CreatePayload
        from ipv8.messaging.interfaces.udp.endpoint import UDPv4Address, UDPv6Address
        from ipv8.peer import Peer
        pk = self.ov.crypto.generate_key("curve25519").pub().key_to_bin()
        self.creator_key[cid] = pk
        for kip, kport in known or []:
            kp = Peer(pk, (UDPv6Address if ":" in kip else UDPv4Address)(kip, kport))
            self.node.network.add_verified_peer(kp)
            self.added_peers.append(kp)
        _, dh_first_part = self.ov.crypto.generate_diffie_secret()
        src = (UDPv6Address if ":" in ip else UDPv4Address)(ip, port)
        cell = self.pfx + bytes([CreatePayload.msg_id]) + self.ov.serializer.pack_serializable(CreatePayload(cid, 1, pk, dh_first_part))
        before = self.ov.exit_sockets.get(cid)
        await self.ov.on_create(src, cell, None)
        es = self.ov.exit_sockets.get(cid)
        return es if es is not before else None

    def deliver_cell(self, src, cid, unwrapped: bytes, garble: bool = False) -> str:
        """what really happens when a DATA cell arrives: the datagram is handed to the node's endpoint listeners with its UDP
        source address; PythonCryptoEndpoint.on_packet/process_cell decrypts it with the keys of the exit socket (or own circuit)
        registered under the cell's circuit id, Community.on_packet -> on_cell -> on_packet_from_circuit -> on_data follow.
        The harness is the sender: it encrypts with the hop's SessionKeys (exit socket: FORWARD, own circuit: BACKWARD).
        `unwrapped` = prefix + msg id + circuit id + rest, i.e. what on_data is to see."""
        from ipv8.messaging.anonymization.payload import CellPayload
        from ipv8.messaging.anonymization.tunnel import BACKWARD, FORWARD
        from ipv8.messaging.interfaces.udp.endpoint import UDPv4Address, UDPv6Address
        cell = CellPayload(cid, unwrapped[22:23] + unwrapped[27:])
        es, circ = self.ov.exit_sockets.get(cid), self.ov.circuits.get(cid)
        how = "no-keys(unknown-circuit)"
        try:
            if es is not None and es.hop.keys is not None:
                cell.message = es.hop.keys.encrypt_str(cell.message, FORWARD)
                how = "exit-socket-keys"
            elif circ is not None and circ.hop.keys is not None:
                cell.message = circ.hop.keys.encrypt_str(cell.message, BACKWARD)
                how = "own-circuit-keys"
        except Exception as ex:       # e.g. a payload too large for the cipher API: deliver undecryptable bytes
            how = "encrypt-failed:" + type(ex).__name__
        if garble and cell.message:
            cell.message = bytes([cell.message[0] ^ 0x5A]) + cell.message[1:]
            how = "garbled"
        addr = (UDPv6Address if ":" in src[0] else UDPv4Address)(src[0], src[1])
        self.plain_ep.notify_listeners((addr, cell.to_bin(self.pfx)))
        return how

    def peer_moves(self, cid, ip, port):
        """what lazy_wrapper does when a signed message of the creator's key arrives from (ip, port): the Network's Peer object
        for that key (if any, else a new one that is then added) learns the address"""
        from ipv8.messaging.interfaces.udp.endpoint import UDPv4Address, UDPv6Address
        from ipv8.peer import Peer
        pk = self.creator_key.get(cid)
        if pk is None:
            return "no-such-circuit"
        addr = (UDPv6Address if ":" in ip else UDPv4Address)(ip, port)
        p = self.node.network.get_verified_by_public_key_bin(pk)
        kind = "network-peer-updated"
        if p is None:
            p = Peer(pk, addr)
            self.node.network.add_verified_peer(p)
            self.added_peers.append(p)
            kind = "network-peer-added"
        p.add_address(addr)
        return kind

    def new_circuit(self, cid, ip, port, ctype):
        c = self.T.Circuit(cid, 1, getattr(self.T, "CIRCUIT_TYPE_" + ctype))
        # session keys of the hop: the harness plays the far end of the circuit and encrypts with the same SessionKeys object
        import os as _os
        c.add_hop(self.T.Hop(self.peer(ip, port), self.ov.crypto.generate_session_keys(_os.urandom(32))))
        self.ov.circuits[cid] = c
        return c

    async def drain(self):
        for _ in range(3):
            await asyncio.sleep(0)
        n = 0
        while self.loop._ready and n < 200:
            await asyncio.sleep(0)
            n += 1

    async def clear(self):
        for es in list(self.ov.exit_sockets.values()):
            await es.close()
        self.ov.exit_sockets.clear()
        self.ov.circuits.clear()
        self.ov.request_cache.clear()
        for kp in self.added_peers:
            self.node.network.remove_peer(kp)
        self.added_peers.clear()
        self.creator_key.clear()
        self.sent.clear()
        self.ov.endpoint = self.plain_ep
        for g in self.gates:
            if not g["fut"].done():
                g["fut"].cancel()
        for d in self.dns:
            if not d["fut"].done():
                d["fut"].cancel()
        await self.drain()
        self.log.clear()
        self.gates.clear()
        self.dns.clear()

    def close(self):
        import vclock

        async def fin():
            await self.clear()
            await self.node.stop()
        try:
            self.loop.run_until_complete(fin())
        finally:
            vclock.uninstall()
            logging.disable(logging.NOTSET)
            self.loop.close()


def hx(b: bytes) -> str:
    return b.hex() if b else "-"


def pack_addr(kind: str, host: str, port: int) -> bytes:
    if kind == "4":
        return b"\x01" + socket.inet_pton(socket.AF_INET, host) + struct.pack(">H", port)
    if kind == "6":
        return b"\x03" + socket.inet_pton(socket.AF_INET6, host) + struct.pack(">H", port)
    h = host.encode()
    return b"\x02" + struct.pack(">H", len(h)) + h + struct.pack(">H", port)


def data_packet(pfx: bytes, cid: int, dest, payload: bytes, origin=("4", "0.0.0.0", 0)) -> bytes:
    """prefix + msg id 1 + DataPayload(circuit_id, dest_address, org_address, data) as it arrives at on_data"""
    return pfx + b"\x01" + struct.pack(">I", cid) + pack_addr(*dest) + pack_addr(*origin) + payload


def addr_kind(a) -> str:
    n = type(a).__name__
    return {"UDPv4Address": "4", "UDPv6Address": "6", "DomainAddress": "d"}.get(n, "?")


def show_addr(a) -> str:
    return f"{addr_kind(a)}:{hx(str(a[0]).encode())}:{a[1]}"


def canon(entry) -> str:
    if entry[0] == "emit":
        _, owner, fam, data, addr = entry
        return f"emit:{owner}:{fam}:{hx(data)}:{show_addr(addr)}"
    if entry[0] == "tunnel":
        _, cid, target, dest, src, data = entry
        extra = "" if tuple(dest) == NULL else ":dest=" + show_addr(dest)
        return f"tunnel:{cid}:{hx(str(target[0]).encode())}:{target[1]}:{hx(data)}:{show_addr(src)}{extra}"
    if entry[0] == "loc":
        return f"loc:{entry[1]}:{entry[2]}"
    if entry[0] == "handler":
        return f"loc:{entry[3]}:0"
    if entry[0] == "resolve":
        return f"resolve:{entry[1]}:{hx(entry[2].encode())}"
    return repr(entry)


# ---- part A: the gate, exhaustively over the inspected header bytes -------------------------------------------------------
def masks_flags(env: Env, m: int):
    return ([env.F_RELAY] if m & 1 else []) + ([env.F_BT] if m & 2 else []) + ([env.F_IPV8] if m & 4 else [])


def gen_packets(ctx: Ctx, pfx: bytes, wide: bool):
    """yield (family, packet)"""
    rng = ctx.rng
    rb = rng.randbytes
    # A1: all values of bytes 0-1 x length classes around the 20- and 23-byte thresholds
    lens = [19, 20, 21, 22, 23, 24, 40, 64] if wide else [19, 20, 23]
    for n in lens:
        tail = rb(n - 2)
        for b0 in range(256):
            for b1 in range(256):
                t = tail if (b0 + b1) % 7 else rb(n - 2)
                yield "hdr01", bytes((b0, b1)) + t
    # A2: action words at offsets 0 and 8
    words = [0, 1, 2, 3, 4, 5, 255, 256, 0x0300, 0x10000, 0x10003, 0x1000000, 0x03000000, 0x00000103, 0xFFFFFFFF,
             0x41727101, 0x80000000]
    for w0 in words:
        for w8 in words:
            for n in (7, 8, 11, 12, 13, 19, 20, 23):
                body = struct.pack(">I", w0) + b"\x17\x27\x10\x19" + struct.pack(">I", w8) + rb(12)
                yield "action", body[:n]
    small = (0, 1, 3, 4, 255)
    for a in small:
        for b in small:
            for c in small:
                for e in small:
                    w = bytes((a, b, c, e))
                    yield "action", w + b"\xaa\xbb\xcc\xdd"
                    yield "action", b"\xf0\xf1\xf2\xf3\xf4\xf5\xf6\xf7" + w
                    yield "action", b"\xf0\xf1\xf2\xf3\xf4\xf5\xf6\xf7" + w[:3]
    # A3: first / last byte
    for b0 in range(256):
        for last in (0x64, 0x65, 0x66, 0x45, 0):
            for n in (1, 2, 3, 40):
                p = bytes([b0]) + b"\x99" * max(0, n - 2) + (bytes([last]) if n >= 2 else b"")
                yield "firstlast", p[:n] if n == 1 else p
    for b0 in (0x64, 0x44, 0x65, 0):
        for last in range(256):
            for n in (2, 25):
                yield "firstlast", bytes([b0]) + b"\x98" * (n - 2) + bytes([last])
    # A3b: the tail: last and second-to-last byte around the bencode terminator, with line terminators / NUL / case variants
    # (what a slice comparison, an endswith, a strip or a regular expression would treat differently)
    tails = (0x65, 0x45, 0x0a, 0x0d, 0x00, 0x20, 0x64, 0x66, 0x24)
    for b0 in (0x64, 0x44, 0x0a, 0x65):
        for t1 in tails:
            for t2 in tails:
                for n in (2, 3, 4, 9, 30):
                    mid = (b"\x97\x0a\x65" * 10)[:max(0, n - 3)]
                    p = (bytes([b0]) + mid + bytes([t1, t2]))[-n:] if n < 3 else bytes([b0]) + mid + bytes([t1, t2])
                    yield "tail", p
                    yield "tail", bytes([b0]) + b"\n" + mid + bytes([t1, t2])     # a newline right after the first byte
    # A4: the 22-byte prefix, every bit; foreign prefixes
    for n in (22, 23, 24, 60):
        base = (pfx + b"\x01" + rb(64))[:n]
        yield "prefix", base
        for i in range(min(22, n)):
            for bit in range(8):
                m = bytearray(base)
                m[i] ^= 1 << bit
                yield "prefix", bytes(m)
    for head in (b"\x00\x01", b"\x00\x02", b"\x00\x03", b"\x00\x00", b"\x01\x02", b"\x02\x00"):
        for n in (22, 23, 30):
            yield "prefix", (head + rb(40))[:n]
        yield "prefix", head + pfx[2:] + b"\x05tail"
    # A5: every length 0..64 x header templates
    templates = [
        b"\x01\x00" + rb(70), b"\x41\x02" + rb(70), b"\x21\x03" + b"\x55" * 70,           # uTP
        b"\x00\x00\x04\x17\x27\x10\x19\x80\x00\x00\x00\x00" + rb(70),                     # tracker connect
        b"\x77" * 8 + b"\x00\x00\x00\x02" + rb(70),                                       # tracker, action at 8
        b"d1:ad2:id20:" + b"e" * 70, b"d" + rb(70),                                       # DHT-ish
        pfx + b"\x01" + rb(70), b"\x00\x02" + rb(80), b"\x00\x01" + b"\x00" * 80,         # IPv8 own / foreign
        b"\x00" * 80, b"\xff" * 80, rb(80), b"e" * 80,
    ]
    for t in templates:
        for n in range(65):
            yield "len0_64", t[:n]
            if n >= 2 and t[:1] == b"d":
                yield "len0_64", t[:n - 1] + b"e"
    # A6: sampled larger
    for _ in range(400 if wide else 150):
        t = rng.choice(templates)
        n = rng.choice([65, 66, 100, 128, 255, 256, 500, 1000, 1400, 1500, rng.randrange(65, 2000)])
        p = (t * (n // len(t) + 1))[:n]
        if rng.random() < 0.3:
            p = p[:-1] + b"e"
        yield "large", p
    # A7: random
    for _ in range(6000 if wide else 1500):
        n = rng.choice([0, 1, 2, 7, 8, 11, 12, 19, 20, 22, 23, rng.randrange(0, 65)])
        p = bytearray(rb(n))
        for i in range(min(n, 12)):
            if rng.random() < 0.5:
                p[i] = rng.choice([0, 0, 1, 2, 3, 4, 0x64, 0x65, 0x11, 0x41])
        yield "random", bytes(p)


async def open_socket_for_gate(env: Env, cid=900):
    """open a socket through the real path: on_data from the hop's own address, then both transports"""
    env.set_flags([env.F_BT, env.F_IPV8])
    es = await env.join(cid, "10.9.9.9", 7000)
    if es is None:
        raise InfraError("on_create did not create an exit socket for the gate tests")
    env.set_flags([env.F_BT, env.F_IPV8])
    env.deliver_cell(("10.9.9.9", 7000), cid, data_packet(env.pfx, cid, ("4", "1.1.1.1", 53), b"d1:ae"))
    await env.drain()
    if not es.enabled:
        es.enable()          # part A is about the gate only; how sockets get opened is judged in part B
        env.opened_directly = True
        await env.drain()
    for _ in range(2):
        for g in env.gates:
            if not g["fut"].done():
                g["fut"].set_result(None)
        await env.drain()
    if not (es.transport_ipv4 and es.transport_ipv6):
        raise InfraError("could not open the exit socket through enable()/create_transports on fake transports")
    env.log.clear()
    return es


def run_gate(ctx: Ctx, env: Env, use_model: bool, wide: bool):
    from ipv8.messaging.anonymization.exit_socket import DataChecker
    from ipv8.messaging.interfaces.udp.endpoint import UDPv4Address
    es = env.loop.run_until_complete(open_socket_for_gate(env))
    proto4 = es.transport_ipv4.proto
    pfx = env.pfx
    dest = UDPv4Address("93.184.216.34", 6881)
    src = ("198.51.100.7", 6881)
    lines, impl = [], []
    seen = set()
    flagsets = [masks_flags(env, m) for m in range(8)]
    checkers = [DataChecker.could_be_utp, DataChecker.could_be_udp_tracker, DataChecker.could_be_dht,
                DataChecker.could_be_bt, DataChecker.could_be_ipv8]
    for fam, p in gen_packets(ctx, pfx, wide):
        if p in seen:
            continue
        seen.add(p)
        ctx.count(f"A:family:{fam}")
        ctx.count("A:len:" + ("0-7" if len(p) < 8 else "8-11" if len(p) < 12 else "12-19" if len(p) < 20 else
                              "20-22" if len(p) < 23 else "23-64" if len(p) <= 64 else ">64"))
        sp = (spec_utp(p), spec_tracker(p), spec_dht(p), spec_bt(p), spec_ipv8(p))
        ctx.count("A:class:" + ("bt+ipv8" if sp[3] and sp[4] else "bt" if sp[3] else
                                ("ipv8-own-prefix" if p[:22] == pfx else "ipv8") if sp[4] else "other"))
        cls = ""
        for f in checkers:
            try:
                cls += "t" if f(p) else "f"
            except Exception:
                cls += "x"
        out_bits, in_bits = "", ""
        for m, fl in enumerate(flagsets):
            env.ov.settings.peer_flags = set(fl)
            ok = spec_allowed(bool(m & 2), bool(m & 4), pfx, p)
            n0 = len(env.log)
            try:
                es.sendto(p, dest)
                emitted = len(env.log) > n0
                out_bits += "t" if emitted else "f"
            except Exception:
                emitted = len(env.log) > n0
                out_bits += "x"
            if emitted and not ok:
                ctx.oracle_fail("TunnelExitSocket.sendto:forbidden-emission",
                                f"packet {p[:32].hex()}… (len {len(p)}, BT-shaped={sp[3]}, IPv8-shaped={sp[4]}) left through "
                                f"transport.sendto with peer_flags={fl}",
                                {"part": "A", "direction": "out", "data": p.hex(), "flags": fl, "prefix": pfx.hex()})
            n1 = len(env.log)
            try:
                proto4.datagram_received(p, src)
                tunneled = len(env.log) > n1
                in_bits += "t" if tunneled else "f"
            except Exception:
                tunneled = len(env.log) > n1
                in_bits += "x"
            if tunneled and not ok:
                ctx.oracle_fail("TunnelExitSocket.datagram_received:forbidden-inbound",
                                f"outside datagram {p[:32].hex()}… (len {len(p)}, BT-shaped={sp[3]}, IPv8-shaped={sp[4]}) was "
                                f"tunnelled back with peer_flags={fl}",
                                {"part": "A", "direction": "in", "data": p.hex(), "flags": fl, "prefix": pfx.hex()})
            del env.log[n0:]
        spec_bits = "".join("t" if spec_allowed(bool(m & 2), bool(m & 4), pfx, p) else "f" for m in range(8))
        ctx.case(("A", p), nontrivial=("t" in spec_bits and "f" in spec_bits), n=16)
        if out_bits != in_bits:
            ctx.count("A:outbound-differs-from-inbound")
        lines.append(f"cls {hx(p)}")
        impl.append(("cls", p, cls, "".join("t" if b else "f" for b in sp)))
        lines.append(f"allow {hx(pfx)} {hx(p)}")
        impl.append(("allow", p, out_bits, in_bits, spec_bits))
        if len(ctx.samples) < 3 and sp[3] != sp[4]:
            ctx.sample({"part": "A", "packet": p.hex(), "classifier(utp,tracker,dht,bt,ipv8)": cls,
                        "emitted_per_flagmask(bit0 RELAY, bit1 EXIT_BT, bit2 EXIT_IPV8)": out_bits})
    ctx.extra.setdefault("partA", {})["packets"] = len(seen)
    if getattr(env, "opened_directly", False):
        ctx.count("A:socket-opened-by-calling-enable-directly")
    if use_model:
        replies = ctx.driver().batch(lines)
        for ln, rep, im in zip(lines, replies, impl):
            try:
                gen, spec = (x.split("=", 1)[1] for x in rep.split(" "))
            except Exception:
                raise InfraError(f"unparsable driver reply {rep!r} to {ln[:80]!r}")
            if im[0] == "cls":
                if gen != im[2]:
                    ctx.disagree(f"DataChecker on {im[1].hex()[:64]}: model {gen} != implementation {im[2]} (utp,tracker,dht,bt,ipv8)",
                                 {"line": ln, "model": gen, "impl": im[2]})
                if spec != im[3]:
                    ctx.disagree(f"Lean Spec {spec} != harness re-statement {im[3]} on {im[1].hex()[:64]} (check the check)",
                                 {"line": ln, "lean_spec": spec, "python_spec": im[3]})
            else:
                if gen != im[2] or gen != im[3]:
                    ctx.disagree(f"gate on {im[1].hex()[:64]}: model is_allowed {gen} != emitted {im[2]} / tunnelled back {im[3]} per flag mask",
                                 {"line": ln, "model": gen, "impl_out": im[2], "impl_in": im[3]})
                if spec != im[4]:
                    ctx.disagree(f"Lean Spec.allowed {spec} != harness re-statement {im[4]} on {im[1].hex()[:64]} (check the check)",
                                 {"line": ln, "lean_spec": spec, "python_spec": im[4]})
    env.loop.run_until_complete(env.clear())


# ---- part B: histories -------------------------------------------------------------------------------------------------
HOP_IPS = ["10.0.0.1", "1.2.3.4", "27.0.0.1", "10.0.0.3", "fd00::5", "fd0::5"]
FOREIGN_IPS = ["10.0.0.9", "172.16.3.4", "10.0.0.10", "fd00::6", "10.0.0.11"]


def host_value(ip: str):
    """the address an IP text denotes (IPv4-mapped IPv6 = that IPv4 host); None when the text is no IP address"""
    import ipaddress
    try:
        a = ipaddress.ip_address(ip)
    except ValueError:
        return None
    if a.version == 6 and a.ipv4_mapped is not None:
        return a.ipv4_mapped
    return a


def same_host(a: str, b: str) -> bool:
    va, vb = host_value(a), host_value(b)
    return a == b or (va is not None and va == vb)


def near_misses(ip: str) -> list[tuple[str, str]]:
    """(relation, address) pairs: addresses that are NOT the hop's but are close to it in text or in value, plus other
    spellings of the same address.  All are valid address texts (what a socket API can report)."""
    import ipaddress
    out = []
    a = ipaddress.ip_address(ip)

    def add(rel, txt):
        try:
            ipaddress.ip_address(txt)
        except ValueError:
            return
        if txt != ip and (rel, txt) not in out:
            out.append((rel, txt))
    if a.version == 4:
        o = ip.split(".")
        for c in "12":
            add("text:hop-is-suffix", c + ip)                       # 1.2.3.4 -> 11.2.3.4, 27.0.0.1 -> 127.0.0.1
        for c in "015":
            add("text:hop-is-prefix", ip + c)                       # 1.2.3.4 -> 1.2.3.40
        add("text:suffix-of-hop", ip[1:])                           # 10.0.0.1 -> 0.0.0.1
        add("text:prefix-of-hop", ip[:-1]) if len(o[3]) > 1 else None
        add("value:last-octet+1", ".".join(o[:3] + [str((int(o[3]) + 1) % 256)]))
        add("value:first-octet+1", ".".join([str((int(o[0]) + 1) % 256)] + o[1:]))
        add("value:reversed", ".".join(reversed(o)))
        add("value:+256", str(ipaddress.ip_address((int(a) + 256) % 2 ** 32)))
        add("same-host:ipv4-mapped", "::ffff:" + ip)
        add("text:mapped-near-miss", "::ffff:1" + ip)
        add("text:v6-suffix", "::" + ip)                            # IPv4-compatible form, a different address
    else:
        add("text:hop-is-suffix", "1" + ip)                         # fd0::5 -> 1fd0::5
        add("text:hop-is-suffix", "a" + ip)
        add("text:hop-is-prefix", ip + "5")                         # fd00::5 -> fd00::55
        add("text:hop-is-prefix", ip + "0")
        add("text:suffix-of-hop", ip[1:])                           # fd00::5 -> d00::5
        add("value:+1", str(ipaddress.ip_address(int(a) + 1)))
        add("value:high-bit", str(ipaddress.ip_address(int(a) ^ (1 << 120))))
        add("same-host:uppercase", ip.upper())
        add("same-host:exploded", a.exploded)
        add("text:mapped-of-low-bits", "::ffff:0.0.0." + str(int(a) % 256))
    return out


def payload_pool(rng, pfx):
    rb = rng.randbytes
    kind = rng.choice(["utp", "tracker", "tracker8", "dht", "own", "ipv8", "junk", "near", "short"])
    if kind == "utp":
        return kind, bytes([rng.choice([0x01, 0x11, 0x21, 0x31, 0x41]), rng.randrange(4)]) + rb(rng.choice([18, 30]))
    if kind == "tracker":
        return kind, struct.pack(">I", rng.randrange(4)) + rb(rng.choice([4, 12]))
    if kind == "tracker8":
        return kind, b"\x91" + rb(7) + struct.pack(">I", rng.randrange(4)) + rb(rng.choice([0, 4]))
    if kind == "dht":
        return kind, b"d" + rb(rng.randrange(0, 12)) + b"e"
    if kind == "own":
        return kind, pfx + bytes([rng.randrange(1, 30)]) + rb(rng.randrange(0, 8))
    if kind == "ipv8":
        return kind, b"\x00" + bytes([rng.choice([1, 2])]) + rb(20) + rb(rng.randrange(1, 9))
    if kind == "junk":
        return kind, bytes([rng.choice([0x05, 0x7f, 0xff, 0x51])]) + rb(rng.randrange(0, 40))
    if kind == "near":
        return kind, rng.choice([
            bytes([0x51, 0x00]) + rb(18), bytes([0x01, 0x04]) + rb(18), bytes([0x01, 0x00]) + b"\x77" * 17,
            struct.pack(">I", 4) + b"\x88" * 8, b"\x00\x00\x00\x01" + b"\x66" * 3, b"d", b"D" + rb(3) + b"e", b"d" + b"\x66" * 3 + b"f",
            b"\x00\x03" + rb(25), pfx[:21] + bytes([pfx[21] ^ 1]) + b"\x01" + rb(4), pfx, b"\x00\x02" + rb(20)])
    return kind, rb(rng.randrange(0, 4))


def draw_known(rng, ip, port):
    """under which address(es) the Network already has the creator's public key as a verified peer"""
    r = rng.random()
    if r < 0.45:
        return None
    if r < 0.58:
        return [[ip, port]]
    if r < 0.63:
        return [[ip, port + 1]]
    if r < 0.75:
        return [["fd00::77" if ":" not in ip else "10.7.7.7", port]]          # dual-stack peer known under its other family
    cand = [a for _r, a in near_misses(ip) if not same_host(a, ip)] + FOREIGN_IPS
    return [[rng.choice(cand), rng.choice([port, 1111])]]


def gen_history(ctx: Ctx, env: Env, n_events: int):
    """returns a JSON-able description: setup + events; events are decided step by step in run_history (they depend on
    which transports / resolutions are pending), so this only draws the setup"""
    rng = ctx.rng
    flags = [f for f in (env.F_RELAY, env.F_BT, env.F_IPV8, env.F_SPEED) if rng.random() < 0.5]
    nsock = rng.choice([1, 1, 2, 3])
    socks = []
    for i in range(nsock):
        ip, port = rng.choice(HOP_IPS), rng.choice([5000, 6000])
        socks.append({"cid": rng.choice([7, 1000, 2 ** 31, 2 ** 32 - 10, 42]) + i * 3, "ip": ip, "port": port,
                      "known": draw_known(rng, ip, port)})
    circs = []
    if rng.random() < 0.35:
        c = rng.choice([socks[0]["cid"], 555])
        circs.append({"cid": c, "ip": rng.choice(HOP_IPS[:2]), "port": 5000,
                      "ctype": rng.choice(["DATA", "DATA", "IP_SEEDER", "IP_SEEDER", "RP_SEEDER", "RP_DOWNLOADER"])})
    style = "burst" if rng.random() < 0.15 else "normal"
    if style == "burst":
        flags = [f for f in flags if f not in (env.F_BT, env.F_IPV8)] + rng.choice([[env.F_BT], [env.F_BT, env.F_IPV8]])
        n_events = max(n_events, 30)
    prefix = []
    if not flags:
        # on_create ignores CREATEs while no peer flag is configured: the sockets are created under RELAY, then the flags are cleared
        flags, prefix = [env.F_RELAY], [{"ev": "flags", "flags": []}]
    return {"flags": flags, "socks": socks, "circs": circs, "tunnel_ep": rng.random() < 0.5, "style": style, "n": n_events,
            "prefix_events": prefix, "events": []}


def draw_event(rng, env: Env, h, pend_gates, pend_dns, open_fams):
    """pick the next event given what is currently possible"""
    socks = h["socks"]
    burst = h.get("style") == "burst"
    choices = ["data"] * 10 + ["flags"] * (0 if burst else 2)
    if pend_gates:
        choices += ["open"] * (1 if burst else 5)
    if pend_dns:
        choices += ["resolved"] * 8
    if open_fams:
        choices += ["outside"] * 5
    if not burst:
        choices += ["join", "peer-moves"]
    k = rng.choice(choices)
    if k == "join":
        ip, port = rng.choice(HOP_IPS), rng.choice([5000, 6000])
        used = {x["cid"] for x in socks} | {c["cid"] for c in h["circs"]}
        cid = next(c for c in range(60017, 90000, 17) if c not in used)                # a circuit id not in use
        if rng.random() < 0.25:
            cid = rng.choice(sorted(used))          # a CREATE for an id already in use: on_create must ignore it
        return {"ev": "join", "cid": cid, "ip": ip, "port": port, "known": draw_known(rng, ip, port)}
    if k == "peer-moves":
        # a signed message of the circuit creator's key arrives from another address: the Network's Peer object for that key
        # learns it (lazy_wrapper -> Peer.add_address); the exit socket's hop must not follow
        s = rng.choice(socks)
        ip = rng.choice(["fd00::99", FOREIGN_IPS[1], near_misses(s["ip"])[0][1]])
        s.setdefault("moved", []).append(ip)
        return {"ev": "peer-moves", "cid": s["cid"], "ip": ip, "port": rng.choice([1, s["port"]])}
    if k == "flags":
        return {"ev": "flags", "flags": [f for f in (env.F_RELAY, env.F_BT, env.F_IPV8, env.F_SPEED) if rng.random() < 0.5]}
    if k == "open":
        g = rng.choice(pend_gates)
        return {"ev": "open", "cid": g[0], "fam": g[1]}
    if k == "resolved":
        cid, idx = rng.choice(pend_dns)
        infos = rng.choice([[], [["4", "93.184.216.34"]], [["6", "2001:db8::1"]], [["6", "2001:db8::2"], ["4", "198.51.100.1"]],
                            [["4", "0.0.0.0"]], [["4", "203.0.113.9"], ["4", "203.0.113.10"]], "fail"])
        return {"ev": "resolved", "cid": cid, "idx": idx, "infos": infos}
    if k == "outside":
        cid, fam = rng.choice(open_fams)
        _, p = payload_pool(rng, env.pfx)
        if fam == 4:
            host = rng.choice(["93.184.216.34", "8.8.8.8", "0.0.0.0"])
        else:
            host = rng.choice(["2001:db8::1", "::ffff:1.2.3.4", "::ffff:0:1", "::1"])
        return {"ev": "outside", "cid": cid, "fam": fam, "host": host, "port": rng.choice([53, 6881, 0]), "data": p.hex()}
    s = rng.choice(socks)
    if h["circs"] and not burst and rng.random() < 0.12:
        # a DATA cell on a circuit this node originated whose payload is itself a DATA cell of the tunnel overlay naming
        # one of the exit sockets; the outer org_address (chosen by the sender) is what the re-dispatch would use as source
        c = h["circs"][0]
        inner_payload = payload_pool(rng, env.pfx)[1]
        mid = rng.choice([1, 1, 1, 2, 3, 4, 5, 6, 7, 19, 20, env.EXIT_MSG, env.EXIT_MSG, 99])
        if mid == 1:
            inner = data_packet(env.pfx, s["cid"], ("4", "93.184.216.34", 6881), inner_payload,
                                ("4", rng.choice(["0.0.0.0", "10.1.1.1"]), 0))
        else:       # any other cell type of the tunnel overlay (create, created, extend, extended, ping, pong, test-*, ...)
            inner = env.pfx + bytes([mid]) + struct.pack(">I", s["cid"]) + rng.randbytes(rng.choice([2, 40]))
        oip = s["ip"] if rng.random() < 0.7 else rng.choice(FOREIGN_IPS)
        origin = ("6" if ":" in oip else "4", oip, rng.choice([s["port"], 1234]))
        return {"ev": "data", "src": [c["ip"], c["port"] if rng.random() < 0.85 else 999], "cid": c["cid"],
                "dest": list(rng.choice([("4", "0.0.0.0", 0), ("4", "8.8.4.4", 53)])), "origin": list(origin),
                "data": inner.hex(), "pkind": "nested-data" if mid == 1 else "nested-exit-message" if mid == env.EXIT_MSG
                else "nested-unknown-id" if mid == 99 else "nested-circuit-cell"}
    cid = s["cid"] if rng.random() < 0.9 else rng.choice([3, 555, s["cid"] + 1])
    r = rng.random()
    if r < 0.55:
        src = (s["ip"], rng.choice([s["port"], 999]))
    elif r < 0.65 and h["circs"]:
        c = h["circs"][0]
        cid = c["cid"] if rng.random() < 0.8 else cid
        src = (c["ip"], rng.choice([c["port"], c["port"], 999]))
    else:
        kn = [k for k in (s.get("known") or []) + [[m, s["port"]] for m in s.get("moved", [])] if k[0] != s["ip"]]
        if kn and rng.random() < 0.5:
            # the address the Network knows for the creator's key, which is NOT where the CREATE came from
            src = (kn[0][0], rng.choice([kn[0][1], s["port"]]))
        elif rng.random() < 0.6:
            # near-miss of this socket's hop address (text prefix/suffix/substring, neighbouring value, other spelling)
            src = (rng.choice(near_misses(s["ip"]))[1], rng.choice([s["port"], s["port"], 1]))
        else:
            src = (rng.choice(FOREIGN_IPS + HOP_IPS), rng.choice([5000, 1]))
    r = rng.random()
    if r < 0.55:
        dest = ("4", rng.choice(["93.184.216.34", "8.8.4.4", "0.0.0.0", "0.0.0.1"]), rng.choice([6881, 53, 0, 65535]))
    elif r < 0.65:
        dest = ("4", "0.0.0.0", 0)
    elif r < 0.78:
        dest = ("6", rng.choice(["2001:db8::1", "::", "::1", "::ffff:0.0.0.0", "::ffff:93.184.216.34"]), rng.choice([6881, 0]))
    else:
        dest = ("d", rng.choice(["tracker.example.org", "0.0.0.0", "0", "router.example", "localhost"]),
                rng.choice([6969, 0, 0]))
    kind, p = payload_pool(rng, env.pfx)
    if burst and rng.random() < 0.85:
        # fill the queue: allowed packets from the hop towards plain addresses while the transports are still opening
        s = socks[0]
        cid, src = s["cid"], (s["ip"], s["port"])
        dest = (rng.choice(["4", "4", "6"]), "", rng.choice([6881, 53]))
        dest = (dest[0], "93.184.216.34" if dest[0] == "4" else "2001:db8::1", dest[2])
        while not spec_allowed(env.F_BT in h["flags"], env.F_IPV8 in h["flags"], env.pfx, p):
            kind, p = payload_pool(rng, env.pfx)
    ev = {"ev": "data", "src": list(src), "cid": cid, "dest": list(dest), "data": p.hex(), "pkind": kind}
    if not burst and rng.random() < 0.04:
        ev["garbled"] = True        # the ciphertext is damaged / made with other keys: the cell must not decrypt
    return ev


def literal_infos(host: str):
    """what the real resolver answers for a numeric host literal, without any lookup (AI_NUMERICHOST); None otherwise"""
    try:
        res = socket.getaddrinfo(host, 0, flags=socket.AI_NUMERICHOST, type=socket.SOCK_DGRAM)
    except (OSError, UnicodeError):
        return None
    return [["6" if r[0] == socket.AF_INET6 else "4", r[4][0]] for r in res]


async def run_history(ctx: Ctx, env: Env, h, fixed_events=None):
    """execute one history on the real objects; returns (lines, impl_replies). Oracle is evaluated along the way."""
    rng = ctx.rng
    await env.clear()
    env.set_flags(h["flags"])
    cur_flags = list(h["flags"])
    sockobj = {}
    for c in h["circs"]:
        env.new_circuit(c["cid"], c["ip"], c["port"], ctype_of(c))
        ctx.count("B:own-circuit-type:" + ctype_of(c))
    hopip = {}          # circuit id -> IP the CREATE for that circuit came from (NOT read back from the socket object)
    initial = [dict(s) for s in h["socks"]]
    h["socks"] = []     # sockets come into being through join events (below and, rarely, later in the history)
    env.ov.endpoint = env.tunnel_ep if h.get("tunnel_ep") else env.plain_ep
    lines = ["reset %s [%s] [%s] [%s] %d [%s]" % (
        hx(env.pfx), ",".join(map(str, h["flags"])),
        "",
        ",".join(f"{c['cid']}:{hx(c['ip'].encode())}:{c['port']}:{CTYPES.index(ctype_of(c))}" for c in h["circs"]),
        1 if h.get("tunnel_ep") else 0, ",".join(map(str, env.exit_ids)))]
    impl = ["ok"]
    dns_of = {}         # cid -> list of dns records in flight (model's `pending`)
    requested = {}      # cid -> (data, host, port) that some cell / resolution asked to be sent

    async def do_join(s):
        """the real on_create/join_circuit + the model's `join` line; returns (line, canonical implementation reply)"""
        es = await env.join(s["cid"], s["ip"], s["port"], s.get("known"))
        await env.drain()
        if es is None:          # refused by on_create's guards (no peer flags, circuit id in use): state must be unchanged
            ctx.count("B:join:refused:" + ("no-peer-flags" if not env.ov.settings.peer_flags else "circuit-id-in-use"))
            env.last_join_created = False
            old = sockobj.get(s["cid"])
            return (f"join {hx(s['ip'].encode())} {s['port']} {s['cid']}",
                    "- | nosock" if old is None else "- | en=%d t4=%d t6=%d q=%d p=%d" % (
                        old.enabled, bool(old.transport_ipv4), bool(old.transport_ipv6), len(old.queue), len(dns_of.get(s["cid"], []))))
        h["socks"] = [x for x in h["socks"] if x["cid"] != s["cid"]] + [s]
        hopip[s["cid"]] = s["ip"]
        dns_of[s["cid"]], requested[s["cid"]] = [], set()
        kn = s.get("known")
        ctx.count("B:join:creator-key:" + ("unknown-to-network" if not kn else
                                           "known-at-create-source" if tuple(kn[0]) == (s["ip"], s["port"]) else
                                           "known-at-same-ip-other-port" if kn[0][0] == s["ip"] else
                                           "known-at-other-family" if (":" in kn[0][0]) != (":" in s["ip"]) else
                                           "known-at-other-ip"))
        sockobj[s["cid"]] = es
        env.last_join_created = True
        ctx.count("B:join:accepted")
        return (f"join {hx(s['ip'].encode())} {s['port']} {s['cid']}",
                "- | en=%d t4=%d t6=%d q=%d p=0" % (es.enabled, bool(es.transport_ipv4), bool(es.transport_ipv6), len(es.queue)))
    for s0 in initial:
        ln, rp = await do_join(s0)
        lines.append(ln)
        impl.append(rp)
    events = []
    stats = {"emit": 0, "tunnel": 0, "dropped": 0}
    prefix = h.get("prefix_events", []) if fixed_events is None else []
    n = len(fixed_events) if fixed_events is not None else h["n"] + len(prefix)
    for i in range(n):
        pend_gates = [(g["owner"], g["fam"]) for g in env.gates if not g["fut"].done() and g["owner"] is not None]
        pend_dns = [(cid, j) for cid, lst in dns_of.items() for j in range(len(lst))]
        open_fams = [(cid, fam) for cid, es in sockobj.items() for fam, tr in ((4, es.transport_ipv4), (6, es.transport_ipv6)) if tr]
        if fixed_events is not None:
            e = fixed_events[i]
        elif i < len(prefix):
            e = prefix[i]
        elif not h["socks"]:
            e = {"ev": "flags", "flags": list(cur_flags)}        # nothing to act on (every CREATE was refused)
        else:
            e = draw_event(rng, env, h, pend_gates, pend_dns, open_fams)
        events.append(e)
        ctx.count("B:event:" + e["ev"])
        n_gates, n_dns, n_log = len(env.gates), len(env.dns), len(env.log)
        enabled_before = {cid: es.enabled for cid, es in sockobj.items()}
        qlen_before = {cid: len(es.queue) for cid, es in sockobj.items()}
        cid = e.get("cid")
        env.cur_cid = cid
        if e["ev"] == "flags":
            env.set_flags(e["flags"])
            line = "flags [%s]" % ",".join(map(str, e["flags"]))
        elif e["ev"] == "data":
            dest = tuple(e["dest"])
            p = bytes.fromhex(e["data"])
            pkt = data_packet(env.pfx, cid, dest, p, tuple(e["origin"]) if e.get("origin") else ("4", "0.0.0.0", 0))
            try:
                ctx.count("B:cell:" + env.deliver_cell((e["src"][0], e["src"][1]), cid, pkt, garble=bool(e.get("garbled"))))
            except Exception as ex:
                env.log.append(("raised", type(ex).__name__))
            line = f"data {hx(e['src'][0].encode())} {e['src'][1]} {cid} {dest[0]} {hx(dest[1].encode())} {dest[2]} {hx(p)}"
            ctx.count("B:dest:" + ("null" if (dest[1], dest[2]) == NULL else {"4": "ipv4", "6": "ipv6", "d": "domain"}[dest[0]]))
            ctx.count("B:payload:" + e.get("pkind", "?"))
            pending_request = (p, dest[1], dest[2]) if dest[0] != "d" else None
            hop = hopip.get(cid)
            kn_ips = [k[0] for x in h["socks"] if x["cid"] == cid for k in (x.get("known") or [])] + \
                     [m for x in h["socks"] if x["cid"] == cid for m in x.get("moved", [])]
            rel = "hop-ip" if e["src"][0] == hop else "no-such-socket" if hop is None else \
                "network-address-of-creator-key" if e["src"][0] in kn_ips else \
                dict((t, r) for r, t in near_misses(hop)).get(e["src"][0], "foreign:unrelated")
            ctx.count("B:src:" + rel + (":enabled-before" if hop is not None and enabled_before.get(cid) else ""))
        elif e["ev"] == "open":
            g = [g for g in env.gates if not g["fut"].done() and g["owner"] == cid and g["fam"] == e["fam"]]
            if g:
                g[0]["fut"].set_result(None)
            line = f"open{e['fam']} {cid}"
        elif e["ev"] == "resolved":
            lst = dns_of.get(cid, [])
            infos = e["infos"]
            resolved_port = None
            if e["idx"] < len(lst):
                rec = lst.pop(e["idx"])
                resolved_port = rec.get("orig_port")
                e["_rec"] = (rec.get("data"), rec["host"])
                lit = literal_infos(rec["host"])
                if lit is not None:
                    infos = lit                      # numeric literals resolve to themselves, as with the real resolver
                    e["infos"] = lit
                if infos == "fail":
                    rec["fut"].set_exception(socket.gaierror(-2, "Name or service not known"))
                else:
                    rec["fut"].set_result([(socket.AF_INET6 if f == "6" else socket.AF_INET, socket.SOCK_DGRAM, 17, "",
                                            (ip, 0, 0, 0) if f == "6" else (ip, 0)) for f, ip in infos])
            minfos = [] if infos == "fail" else infos
            if e.get("_rec") and e["_rec"][0] is not None and cid in requested:
                requested[cid] |= {(e["_rec"][0], ip, resolved_port) for _f, ip in minfos}
            e.pop("_rec", None)
            ctx.count("B:resolution:" + ("fail" if infos == "fail" else "empty" if not infos else
                                         "+".join(f for f, _ in infos)))
            line = f"resolved {cid} {e['idx']} [{','.join(f'{f}:{hx(ip.encode())}' for f, ip in minfos)}]"
        elif e["ev"] == "outside":
            es = sockobj[cid]
            tr = es.transport_ipv4 if e["fam"] == 4 else es.transport_ipv6
            p = bytes.fromhex(e["data"])
            addr = (e["host"], e["port"]) if e["fam"] == 4 else (e["host"], e["port"], 0, 0)
            try:
                tr.proto.datagram_received(p, addr)
            except Exception as ex:
                env.log.append(("raised", type(ex).__name__))
            line = f"outside {cid} {e['fam']} {hx(e['host'].encode())} {e['port']} {hx(p)}"
        elif e["ev"] == "peer-moves":
            ctx.count("B:peer-moves:" + env.peer_moves(cid, e["ip"], e["port"]))
            line = None
        elif e["ev"] == "cell":
            # another (non-DATA) cell of this circuit, really encrypted, from some source address: whatever its handler does, it
            # must not open the exit socket nor change which address may open it
            body = CELL_BODIES[e["msg"]]
            ctx.count("B:other-cell:" + e["msg"] + ":" + env.deliver_cell((e["src"][0], e["src"][1]), cid,
                                                                     env.pfx + bytes([body[0]]) + struct.pack(">I", cid) + body[1]))
            line = None
        elif e["ev"] == "join":
            line, join_reply = await do_join({"cid": cid, "ip": e["ip"], "port": e["port"], "known": e.get("known")})
            enabled_before.setdefault(cid, False)
            qlen_before.setdefault(cid, 0)
        else:
            raise InfraError(f"unknown event {e}")
        await env.drain()
        if e["ev"] == "flags":
            cur_flags = list(e["flags"])
        if e["ev"] == "data" and pending_request is not None and cid in requested and sockobj[cid].enabled:
            requested[cid].add(pending_request)      # only a cell that the (now open) socket accepted asks for an emission
        # attribute new gates / resolutions to the socket the event was about
        for g in env.gates[n_gates:]:
            if g["owner"] is None:
                g["owner"] = cid
        for d in env.dns[n_dns:]:
            d["owner"] = cid
            d["data"] = bytes.fromhex(e["data"]) if e["ev"] == "data" else None
            d["orig_port"] = e["dest"][2] if e["ev"] == "data" else None
            if cid in sockobj:
                dns_of.setdefault(cid, []).append(d)
            env.log.append(("resolve", cid, d["host"], d["port"]))
        new = env.log[n_log:]
        # ---- oracle on what the implementation just did ----
        exit_bt, exit_ipv8 = env.F_BT in cur_flags, env.F_IPV8 in cur_flags
        for ent in new:
            if ent[0] == "emit":
                stats["emit"] += 1
                _, owner, fam, data, addr = ent
                if not spec_allowed(exit_bt, exit_ipv8, env.pfx, data):
                    ctx.oracle_fail("TunnelExitSocket.sendto:forbidden-emission",
                                    f"event {i} ({e['ev']}): packet {data[:32].hex()} (BT-shaped={spec_bt(data)}, IPv8-shaped={spec_ipv8(data)}) "
                                    f"left through transport.sendto while peer_flags={cur_flags}",
                                    {"part": "B", "history": {**h, "socks": initial, "events": events, "community": env.community}})
                if tuple(addr[:2]) == NULL:
                    ctx.oracle_fail("TunnelExitSocket.sendto:null-destination",
                                    f"event {i} ({e['ev']}): transport.sendto towards 0.0.0.0:0",
                                    {"part": "B", "history": {**h, "socks": initial, "events": events, "community": env.community}})
                if owner in requested and (data, addr[0], addr[1]) not in requested[owner]:
                    ctx.oracle_fail("TunnelExitSocket.sendto:emission-to-unrequested-destination",
                                    f"event {i}: socket {owner} sent {data[:16].hex()} to {addr}, which no cell or resolution asked for",
                                    {"part": "B", "history": {**h, "socks": initial, "events": events, "community": env.community}})
                if owner not in sockobj or not sockobj[owner].enabled:
                    ctx.oracle_fail("TunnelExitSocket.sendto:emission-from-unopened-socket",
                                    f"event {i}: emission from a socket that was never enabled",
                                    {"part": "B", "history": {**h, "socks": initial, "events": events, "community": env.community}})
            elif ent[0] == "tunnel":
                stats["tunnel"] += 1
                data = ent[5]
                hs = [x for x in h["socks"] if x["cid"] == ent[1]]
                if e["ev"] != "outside" or ent[1] != cid or not hs or tuple(ent[2]) != (hs[0]["ip"], hs[0]["port"]) \
                        or tuple(ent[3]) != NULL or tuple(ent[4][:2]) != (e.get("host"), e.get("port")):
                    ctx.oracle_fail("TunnelExitSocket.tunnel_data:wrong-circuit-or-target",
                                    f"event {i}: outside datagram for socket {cid} was sent back as send_data{ent[1:5]}",
                                    {"part": "B", "history": {**h, "socks": initial, "events": events, "community": env.community}})
                if not spec_allowed(exit_bt, exit_ipv8, env.pfx, data):
                    ctx.oracle_fail("TunnelExitSocket.datagram_received:forbidden-inbound",
                                    f"event {i}: outside datagram {data[:32].hex()} (BT-shaped={spec_bt(data)}, IPv8-shaped={spec_ipv8(data)}) "
                                    f"was sent back into the tunnel while peer_flags={cur_flags}",
                                    {"part": "B", "history": {**h, "socks": initial, "events": events, "community": env.community}})
        for ent in new:
            if ent[0] == "handler" and ent[1] in env.circuit_cell_ids:
                ctx.oracle_fail("TunnelCommunity.on_data:circuit-cell-handler-run-from-data-payload",
                                f"event {i}: the payload of a DATA cell from {e.get('src')} was dispatched to the cell handler of message id "
                                f"{ent[1]} with source address {tuple(ent[2])}, an address taken from the payload's org_address: no "
                                f"datagram came from there (a pong / created / ... would be sent to it)",
                                {"part": "B", "history": {**h, "socks": initial, "events": events, "community": env.community}})
        if e["ev"] == "data":
            pl = bytes.fromhex(e["data"])
            if any(x[0] == "resolve" for x in new) and not spec_allowed(exit_bt, exit_ipv8, env.pfx, pl):
                ctx.oracle_fail("TunnelExitSocket.sendto:dns-lookup-for-forbidden-packet",
                                f"event {i}: a DNS lookup for {e['dest'][1]!r} was started for packet {pl[:16].hex()} "
                                f"(BT-shaped={spec_bt(pl)}, IPv8-shaped={spec_ipv8(pl)}) while peer_flags={cur_flags}",
                                {"part": "B", "history": {**h, "socks": initial, "events": events, "community": env.community}})
            es0 = sockobj.get(cid)
            if es0 is not None and not enabled_before[cid] and not es0.enabled and \
                    ([x for x in new if x[0] not in ("loc", "handler")] or len(es0.queue) != qlen_before[cid]):
                ctx.oracle_fail("TunnelCommunity.exit_data:closed-socket-accepted-data",
                                f"event {i}: cell from {e['src']} did not open socket {cid} (hop {hopip.get(cid)}) but was queued / "
                                f"caused {[x[0] for x in new]}",
                                {"part": "B", "history": {**h, "socks": initial, "events": events, "community": env.community}})
        opened = [c for c, es in sockobj.items() if es.enabled and not enabled_before[c]]
        opened += [g["owner"] for g in env.gates[n_gates:] if g["fam"] == 4]
        for c in set(opened):
            # judged by the ADDRESS the text denotes, so another spelling of the hop's own address is not a violation
            # (it is still a model disagreement: the model mirrors the code's exact text comparison)
            ok = e["ev"] == "data" and c == cid and same_host(e["src"][0], hopip.get(c))
            if not ok:
                ctx.oracle_fail("TunnelCommunity.exit_data:socket-opened-by-foreign-ip",
                                f"event {i} ({e['ev']} from {e.get('src')}): exit socket {c} (previous hop {hopip.get(c)}) started opening its outside transports",
                                {"part": "B", "history": {**h, "socks": initial, "events": events, "community": env.community}})
            ctx.count("B:socket-opened")
        if not new and e["ev"] in ("data", "outside"):
            stats["dropped"] += 1
        # which branch of the anchored code this event took (classified from the inputs and the observed effect)
        kinds = [x[0] for x in new]
        if e["ev"] == "data":
            dnull = (e["dest"][1], e["dest"][2]) == NULL
            own = any(c["cid"] == cid and [c["ip"], c["port"]] == e["src"] for c in h["circs"])
            p_ok = spec_allowed(exit_bt, exit_ipv8, env.pfx, bytes.fromhex(e["data"]))
            if own:
                br = "own-circuit:" + ("delivered-to-exit-message-handler" if "handler" in kinds else
                                        "delivered:" + {1: "other-overlay(TunnelEndpoint)", 2: "raw-data"}.get(
                                            [x[2] for x in new if x[0] == "loc"][0], "?") if "loc" in kinds else
                                        "dropped:" + e["pkind"] if e.get("pkind", "").startswith("nested-") else
                                        "dropped(no TunnelEndpoint)")
            elif dnull:
                br = "drop:null-destination"
            elif cid not in sockobj:
                br = "drop:unknown-circuit"
            elif not sockobj[cid].enabled:
                br = "drop:first-cell-from-foreign-ip"
            elif not p_ok:
                br = "drop:policy" + ("(socket just enabled)" if not enabled_before[cid] else "")
            elif "resolve" in kinds:
                br = "resolution-started"
            elif "emit" in kinds:
                br = "emitted:v%d-transport" % [x[2] for x in new if x[0] == "emit"][0]
            elif e["dest"][0] == "d":
                br = "domain:other"
            else:
                br = "queued" + (":queue-full(oldest dropped)" if qlen_before.get(cid) == 10 and len(sockobj[cid].queue) == 10 else "")
            ctx.count("B:branch:data:" + br)
        elif e["ev"] == "outside":
            p_ok = spec_allowed(exit_bt, exit_ipv8, env.pfx, bytes.fromhex(e["data"]))
            br = "tunnelled:v%d-source" % e["fam"] if "tunnel" in kinds else "drop:ipv4-mapped-source" if e["host"].startswith("::ffff:") else \
                "drop:policy" if not p_ok else "other"
            ctx.count("B:branch:outside:" + br)
        elif e["ev"] == "resolved":
            first = ([x for x in minfos if x[0] == "4"] or minfos or [None])[0]
            br = "emitted:picked-" + ("ipv4" if first and first[0] == "4" else "ipv6") if "emit" in kinds else \
                "no-address:" + ("lookup-failed" if infos == "fail" else "empty-list") if not minfos else \
                "queued" if len(sockobj[cid].queue) > qlen_before.get(cid, 0) else \
                "dropped:null-address-after-resolution" if first and first[1] == "0.0.0.0" and resolved_port == 0 else \
                "dropped(policy or full queue)"
            ctx.count("B:branch:resolved:" + br)
        elif e["ev"] == "open":
            ctx.count("B:branch:open%d:%s" % (e["fam"], "flush-emitted" if "emit" in kinds else
                                              "flush-dropped-all" if e["fam"] == 6 and qlen_before.get(cid) else "nothing-queued"))
            if e["fam"] == 6 and any(x[0] == "emit" and x[2] == 6 for x in new):
                ctx.count("B:branch:open6:flush-emitted-through-v6-transport")
        # ---- canonical reply, same shape as the driver's ----
        if e["ev"] in ("peer-moves", "cell"):
            continue                      # not an event of the model: hop addresses are immutable there
        if e.get("garbled"):
            es_g = sockobj.get(cid)
            if new or (es_g is not None and (es_g.enabled != enabled_before[cid] or len(es_g.queue) != qlen_before[cid])):
                ctx.oracle_fail("PythonCryptoEndpoint.process_cell:undecryptable-cell-had-an-effect",
                                f"event {i}: a cell for circuit {cid} whose ciphertext does not authenticate caused {[x[0] for x in new]}",
                                {"part": "B", "history": {**h, "socks": initial, "events": events, "community": env.community}})
            continue                      # never reaches on_data: not an event of the model
        if e["ev"] == "flags":
            rep = "ok"
        elif e["ev"] == "join":
            rep = join_reply
            if env.last_join_created and (sockobj[cid].enabled or sockobj[cid].transport_ipv4):
                ctx.oracle_fail("TunnelCommunity.join_circuit:socket-born-open", f"event {i}: exit socket {cid} is open right after the CREATE",
                                {"part": "B", "history": {**h, "socks": initial, "events": events, "community": env.community}})
        else:
            outs = ";".join(canon(x) for x in new) or "-"
            es = sockobj.get(cid)
            if es is None:
                st = "nosock"
            else:
                st = "en=%d t4=%d t6=%d q=%d p=%d" % (es.enabled, bool(es.transport_ipv4), bool(es.transport_ipv6),
                                                     len(es.queue), len(dns_of.get(cid, [])))
                ctx.count("B:queue-len:" + ("0" if not es.queue else "1-9" if len(es.queue) < 10 else "10"))
            rep = f"{outs} | {st}"
        lines.append(line)
        impl.append(rep)
    h["events"] = events
    h["socks"] = initial
    return lines, impl, stats


def run_paths(ctx: Ctx, env: Env, n_hist: int, use_model: bool):
    all_lines, all_impl, owners = [], [], []
    for k in range(n_hist):
        h = gen_history(ctx, env, ctx.rng.choice([8, 14, 20, 30, 45]))
        lines, impl, stats = env.loop.run_until_complete(run_history(ctx, env, h))
        ctx.case(("B", ctx.seed, k, len(lines)), nontrivial=(stats["emit"] + stats["tunnel"] > 0 and stats["dropped"] > 0),
                 n=len(lines) - 1)
        ctx.count("B:style:" + h["style"])
        ctx.count("B:emissions", stats["emit"])
        ctx.count("B:tunnelled-back", stats["tunnel"])
        ctx.count("B:events-without-output", stats["dropped"])
        if k < 2:
            ctx.sample({"part": "B", "lines": lines[:6], "implementation": impl[:6]})
        all_lines += lines
        all_impl += impl
        owners += [h] * len(lines)
    if use_model and all_lines:
        replies = ctx.driver().batch(all_lines)
        bad = set()
        for ln, rep, im, h in zip(all_lines, replies, all_impl, owners):
            if rep != im and id(h) not in bad:
                bad.add(id(h))
                ctx.disagree(f"history step `{ln[:160]}`: model `{rep[:300]}` != implementation `{im[:300]}`",
                             {"part": "B", "line": ln, "model": rep, "impl": im, "history": h})
    env.loop.run_until_complete(env.clear())


def run_opening_grid(ctx: Ctx, env: Env, use_model: bool, nested_only: bool = False):
    """exhaustive small scope for "who may open the socket": every hop address x (its own address on two ports, every
    near-miss, unrelated addresses) as the source of the FIRST data cell, then both transports open."""
    all_lines, all_impl, owners = [], [], []
    payload = b"d1:ad2:id20:abcdefghij0123456789e"
    for hop in ([] if nested_only else HOP_IPS):
        srcs = [("hop-ip", hop, 5000), ("hop-ip:other-port", hop, 999)]
        srcs += [(rel, ip, port) for rel, ip in near_misses(hop) for port in (5000,)]
        srcs += [("foreign:unrelated", ip, 5000) for ip in FOREIGN_IPS[:2]]
        for rel, ip, port in srcs:
            h = {"flags": [env.F_RELAY, env.F_BT], "socks": [{"cid": 77, "ip": hop, "port": 5000}], "circs": [],
                 "tunnel_ep": False, "style": "grid", "n": 5, "events": []}
            evs = [{"ev": "data", "src": [ip, port], "cid": 77, "dest": ["4", "93.184.216.34", 6881], "data": payload.hex(),
                    "pkind": "dht"},
                   {"ev": "open", "cid": 77, "fam": 4}, {"ev": "open", "cid": 77, "fam": 6},
                   {"ev": "data", "src": [ip, port], "cid": 77, "dest": ["6", "2001:db8::1", 6881], "data": payload.hex(),
                    "pkind": "dht"}]
            lines, impl, stats = env.loop.run_until_complete(run_history(ctx, env, h, fixed_events=evs))
            ctx.count("G:first-cell-from:" + rel)
            ctx.count("G:emissions", stats["emit"])
            ctx.case(("G", hop, ip, port), nontrivial=True, n=len(lines) - 1)
            all_lines += lines
            all_impl += impl
            owners += [h] * len(lines)
    # the creator's key is already a verified peer of the Network under some address; the CREATE comes from `hop`
    for hop in ([] if nested_only else HOP_IPS[:4]):
        for cls, known in (("same", [[hop, 5000]]), ("other-ip", [[FOREIGN_IPS[0], 5000]]), ("other-port", [[hop, 7]]),
                           ("other-family", [["fd00::77" if ":" not in hop else "10.7.7.7", 5000]]),
                           ("near-miss", [[near_misses(hop)[0][1], 5000]])):
            h = {"flags": [env.F_RELAY, env.F_BT], "socks": [{"cid": 77, "ip": hop, "port": 5000, "known": known}], "circs": [],
                 "tunnel_ep": False, "style": "grid", "n": 5, "events": []}
            cell = lambda ip: {"ev": "data", "src": [ip, 5000], "cid": 77, "dest": ["4", "93.184.216.34", 6881],  # noqa: E731
                               "data": payload.hex(), "pkind": "dht"}
            evs = [cell(known[0][0]), cell(hop), {"ev": "open", "cid": 77, "fam": 4}, {"ev": "open", "cid": 77, "fam": 6}]
            lines, impl, stats = env.loop.run_until_complete(run_history(ctx, env, h, fixed_events=evs))
            ctx.count("G:creator-key-known-to-network:" + cls)
            ctx.case(("G", "known", hop, cls), nontrivial=True, n=len(lines) - 1)
            all_lines += lines
            all_impl += impl
            owners += [h] * len(lines)
    # nested DATA cells arriving on an own circuit, naming the exit socket, with the socket's hop address as org_address
    for hop in HOP_IPS[:3]:
        for oip in (hop, FOREIGN_IPS[0]):
            for ctype in CTYPES:
                e2e = ctype.startswith("RP_")
                for mid in sorted({6, 2, 3, 4, 19, env.EXIT_MSG} | (set(env.declared_exit_ids) if nested_only else set())):
                    if e2e and mid != 6:
                        continue
                    h = {"flags": [env.F_RELAY, env.F_BT], "socks": [{"cid": 77, "ip": hop, "port": 5000}],
                         "circs": [{"cid": 555, "ip": "192.0.2.55", "port": 4000, "ctype": ctype}], "tunnel_ep": False,
                         "style": "grid", "n": 1, "events": []}
                    inner = env.pfx + bytes([mid]) + struct.pack(">I", 77) + b"\x00\x4d" + b"\x11" * 38
                    evs = [{"ev": "data", "src": ["192.0.2.55", 4000], "cid": 555, "dest": ["4", "0.0.0.0", 0],
                            "origin": ["6" if ":" in oip else "4", oip, 5000], "data": inner.hex(),
                            "pkind": "nested-exit-message" if mid == env.EXIT_MSG else "nested-circuit-cell"}]
                    lines, impl, stats = env.loop.run_until_complete(run_history(ctx, env, h, fixed_events=evs))
                    ctx.count(f"G:{env.community}:nested-message-id-{mid}-on-own-circuit:" + ctype)
                    ctx.case(("G", "nested", mid, hop, oip, ctype), nontrivial=True, n=len(lines) - 1)
                    all_lines += lines
                    all_impl += impl
                    owners += [h] * len(lines)
                h = {"flags": [env.F_RELAY, env.F_BT], "socks": [{"cid": 77, "ip": hop, "port": 5000}],
                     "circs": [{"cid": 555, "ip": "192.0.2.55", "port": 4000, "ctype": ctype}], "tunnel_ep": False, "style": "grid",
                     "n": 4, "events": []}
                inner = data_packet(env.pfx, 77, ("4", "93.184.216.34", 6881), payload)
                evs = [{"ev": "data", "src": ["192.0.2.55", 4000], "cid": 555, "dest": ["4", "0.0.0.0", 0],
                        "origin": ["6" if ":" in oip else "4", oip, 5000], "data": inner.hex(), "pkind": "nested-data"},
                       {"ev": "open", "cid": 77, "fam": 4}, {"ev": "open", "cid": 77, "fam": 6}]
                lines, impl, stats = env.loop.run_until_complete(run_history(ctx, env, h, fixed_events=evs))
                ctx.count(f"G:{env.community}:nested-data-on-own-circuit:" + ("origin=socket-hop" if oip == hop else "origin=foreign")
                          + ":" + ctype)
                ctx.case(("G", "nested", hop, oip, ctype), nontrivial=True, n=len(lines) - 1)
                all_lines += lines
                all_impl += impl
                owners += [h] * len(lines)
    if use_model:
        replies = ctx.driver().batch(all_lines)
        bad = set()
        for ln, rep, im, h in zip(all_lines, replies, all_impl, owners):
            if rep != im and id(h) not in bad:
                bad.add(id(h))
                ctx.disagree(f"opening grid, hop {h['socks'][0]['ip']}, step `{ln[:160]}`: model `{rep[:300]}` != implementation `{im[:300]}`",
                             {"part": "B", "line": ln, "model": rep, "impl": im, "history": h})
    env.loop.run_until_complete(env.clear())


# ---- entry points --------------------------------------------------------------------------------------------------------
# every branch of the hand-written model definitions (and of the translated trees) that the design lists; a quick run in which one
# of them is never taken on the REAL code is not a pass: exit 2 (unless the run already has a verdict to report)
REQUIRED_BRANCHES = [
    # TunnelCommunity.on_data dispatch
    "B:branch:data:own-circuit:delivered-to-exit-message-handler", "B:branch:data:own-circuit:delivered:other-overlay(TunnelEndpoint)",
    "B:branch:data:own-circuit:delivered:raw-data", "B:branch:data:own-circuit:dropped(no TunnelEndpoint)",
    "B:branch:data:own-circuit:dropped:nested-circuit-cell", "B:branch:data:own-circuit:dropped:nested-data",
    "B:branch:data:drop:null-destination",
    # TunnelCommunity.exit_data
    "B:branch:data:drop:unknown-circuit", "B:branch:data:drop:first-cell-from-foreign-ip", "B:socket-opened",
    # TunnelExitSocket.sendto
    "B:branch:data:drop:policy", "B:branch:data:drop:policy(socket just enabled)", "B:branch:data:resolution-started",
    "B:branch:data:queued", "B:branch:data:queued:queue-full(oldest dropped)", "B:branch:data:emitted:v4-transport",
    "B:branch:data:emitted:v6-transport",
    # enable / create_transports (two-stage opening, flush through sendto)
    "B:branch:open4:nothing-queued", "B:branch:open6:nothing-queued", "B:branch:open6:flush-emitted", "B:branch:open6:flush-dropped-all",
    "B:branch:open6:flush-emitted-through-v6-transport",
    # resolve / on_address (pickAddr, re-entry into sendto)
    "B:branch:resolved:emitted:picked-ipv4", "B:branch:resolved:emitted:picked-ipv6", "B:branch:resolved:queued",
    "B:branch:resolved:no-address:lookup-failed", "B:branch:resolved:no-address:empty-list",
    "B:branch:resolved:dropped:null-address-after-resolution", "B:branch:resolved:dropped(policy or full queue)",
    "B:resolution:6+4",
    # datagram_received_ipv4/_ipv6 + datagram_received
    "B:branch:outside:tunnelled:v4-source", "B:branch:outside:tunnelled:v6-source", "B:branch:outside:drop:ipv4-mapped-source",
    "B:branch:outside:drop:policy",
    # on_create / join_circuit
    "B:join:accepted", "B:join:refused:circuit-id-in-use", "B:join:refused:no-peer-flags",
    "B:join:creator-key:known-at-other-ip", "B:peer-moves:network-peer-updated",
    # endpoint -> PythonCryptoEndpoint.process_cell -> on_cell -> on_packet_from_circuit -> on_data
    "B:cell:exit-socket-keys", "B:cell:own-circuit-keys", "B:cell:no-keys(unknown-circuit)",
    # where the exit flags come from: service loader / configuration objects, two instances in one process
    "C:config:A=builder:set", "C:config:A=builder:list", "C:config:A=builder:list-via-json", "C:config:A=builder:tuple",
    "C:config:A=default-config-edited-in-place:set", "C:config:A=default-config-edited-in-place:list",
    "C:config:B=builder:empty-initialize", "C:config:B=default-config-untouched", "C:config:B=default-config-untouched:also-before-A",
    # cells other than DATA, arriving as cells of their own on an exit circuit, real handlers
    "G:base:other-cell-before-data:ping", "G:hidden:other-cell-before-data:ping", "G:hidden:other-cell-before-data:establish-intro",
    "G:hidden:other-cell-before-data:establish-rendezvous",
]


def run_branch_grid(ctx: Ctx, env: Env, use_model: bool):
    """deterministic histories that take every branch listed in REQUIRED_BRANCHES at least once, whatever the seed"""
    ok_p, bad_p = b"d1:ad2:id20:abcdefghij0123456789e", b"\x7f\x55junk-that-is-neither-bt-nor-ipv8"
    hop = "10.0.0.1"
    S = {"cid": 77, "ip": hop, "port": 5000}

    def cell(dest, p=ok_p, src=(hop, 5000), cid=77):
        return {"ev": "data", "src": list(src), "cid": cid, "dest": list(dest), "data": p.hex(), "pkind": "grid"}
    v4, v6, dom = ("4", "93.184.216.34", 6881), ("6", "2001:db8::1", 6881), ("d", "tracker.example.org", 6969)
    o4, o6 = {"ev": "open", "cid": 77, "fam": 4}, {"ev": "open", "cid": 77, "fam": 6}

    def res(infos, idx=0):
        return {"ev": "resolved", "cid": 77, "idx": idx, "infos": infos}

    def outside(fam, host, p=ok_p):
        return {"ev": "outside", "cid": 77, "fam": fam, "host": host, "port": 53, "data": p.hex()}
    other_overlay = b"\x00\x02" + b"\x42" * 20 + b"\x05payload"
    exit_msg = env.pfx + bytes([env.EXIT_MSG]) + b"\x00" * 8
    ping = env.pfx + b"\x06" + b"\x00" * 8
    circ = {"cid": 555, "ip": "192.0.2.55", "port": 4000, "ctype": "DATA"}
    own = lambda p: cell(("4", "0.0.0.0", 0), p, ("192.0.2.55", 4000), 555)  # noqa: E731
    cases = [
        ("queue-then-flush", [S], [], False, [cell(v4), cell(v6), o4, o6, cell(v6), cell(v4)]),
        ("flush-after-flags-restricted", [S], [], False, [cell(v4), o4, {"ev": "flags", "flags": [env.F_RELAY]}, o6]),
        ("queue-full", [S], [], False, [cell(v4)] * 12),
        ("resolution", [S], [], False, [cell(v4), o4, o6, cell(dom), res([["6", "2001:db8::2"], ["4", "198.51.100.1"]]), cell(dom),
                                        res([["6", "2001:db8::2"]]), cell(("d", "router.example", 0)), res([["4", "0.0.0.0"]]),
                                        cell(dom), res("fail"), cell(dom), res([]), cell(dom),
                                        {"ev": "flags", "flags": [env.F_RELAY]}, res([["4", "198.51.100.1"]])]),
        ("resolution-before-open", [S], [], False, [cell(dom), res([["4", "198.51.100.1"]])]),
        ("outside", [S], [], False, [cell(v4), o4, o6, outside(4, "8.8.8.8"), outside(6, "2001:db8::1"), outside(6, "::ffff:1.2.3.4"),
                                     outside(4, "8.8.8.8", bad_p)]),
        ("exit-data-drops", [S], [], False, [cell(v4, cid=4242), cell(v4, src=("10.0.0.9", 5000)), cell(("4", "0.0.0.0", 0)),
                                             cell(v4, bad_p), cell(v4, bad_p)]),
        ("own-circuit", [S], [circ], False, [own(exit_msg), own(ping), own(other_overlay), own(b"\xffraw bytes")]),
        ("own-circuit-tunnel-endpoint", [S], [circ], True, [own(other_overlay)]),
        ("own-circuit-e2e", [S], [dict(circ, ctype="RP_SEEDER")], False, [own(other_overlay)]),
        ("creator-peer-moves", [dict(S, known=[["10.0.0.9", 5000]])], [], False,
         [{"ev": "peer-moves", "cid": 77, "ip": "fd00::99", "port": 1}, cell(v4, src=("fd00::99", 1)), cell(v4, src=("10.0.0.9", 5000)),
          cell(v4), o4, o6]),
        ("creates", [S], [circ], False, [{"ev": "join", "cid": 77, "ip": "10.0.0.2", "port": 5000, "known": None},
                                         {"ev": "join", "cid": 555, "ip": "10.0.0.2", "port": 5000, "known": None},
                                         {"ev": "flags", "flags": []},
                                         {"ev": "join", "cid": 78, "ip": "10.0.0.2", "port": 5000, "known": None}]),
    ]
    all_lines, all_impl, owners = [], [], []
    for name, socks, circs, tep, evs in cases:
        h = {"flags": [env.F_RELAY, env.F_BT], "socks": [dict(x) for x in socks], "circs": [dict(x) for x in circs],
             "tunnel_ep": tep, "style": "grid", "n": len(evs), "events": []}
        lines, impl, _ = env.loop.run_until_complete(run_history(ctx, env, h, fixed_events=[dict(x) for x in evs]))
        ctx.count("G:branch-grid:" + name)
        ctx.case(("G", "branch", name), nontrivial=True, n=len(lines) - 1)
        all_lines += lines
        all_impl += impl
        owners += [h] * len(lines)
    if use_model:
        replies = ctx.driver().batch(all_lines)
        bad = set()
        for ln, rep, im, h in zip(all_lines, replies, all_impl, owners):
            if rep != im and id(h) not in bad:
                bad.add(id(h))
                ctx.disagree(f"branch grid, step `{ln[:160]}`: model `{rep[:300]}` != implementation `{im[:300]}`",
                             {"part": "B", "line": ln, "model": rep, "impl": im, "history": h})
    env.loop.run_until_complete(env.clear())


def run_cell_grid(ctx: Ctx, env: Env, use_model: bool):
    """other cells before the first DATA cell: <cell type> from a foreign address, then DATA from that address (must not open),
    then DATA from the CREATE source (opens), transports, an outside datagram (must be tunnelled back to the CREATE source)"""
    ok_p = b"d1:ad2:id20:abcdefghij0123456789e"
    msgs = ["ping"] + (["establish-intro", "establish-rendezvous"] if env.community == "hidden" else [])
    all_lines, all_impl, owners = [], [], []
    for hop in HOP_IPS[:2]:
        for msg in msgs:
            for stranger in ("10.0.0.9", near_misses(hop)[0][1]):
                cell = lambda ip, dest=("4", "93.184.216.34", 6881): {"ev": "data", "src": [ip, 5000], "cid": 77, "dest": list(dest),  # noqa: E731
                                                                      "data": ok_p.hex(), "pkind": "grid"}
                evs = [{"ev": "cell", "src": [stranger, 5000], "cid": 77, "msg": msg}, cell(stranger), cell(hop),
                       {"ev": "cell", "src": [stranger, 5000], "cid": 77, "msg": msg},
                       {"ev": "open", "cid": 77, "fam": 4}, {"ev": "open", "cid": 77, "fam": 6},
                       {"ev": "outside", "cid": 77, "fam": 4, "host": "8.8.8.8", "port": 53, "data": ok_p.hex()},
                       cell(hop, ("6", "::ffff:0.0.0.0", 0)), cell(hop, ("6", "::ffff:93.184.216.34", 6881))]
                h = {"flags": [env.F_RELAY, env.F_BT], "socks": [{"cid": 77, "ip": hop, "port": 5000}], "circs": [], "tunnel_ep": False,
                     "style": "grid", "n": len(evs), "events": []}
                lines, impl, _ = env.loop.run_until_complete(run_history(ctx, env, h, fixed_events=evs))
                ctx.count(f"G:{env.community}:other-cell-before-data:{msg}")
                ctx.case(("G", "cell", env.community, hop, msg, stranger), nontrivial=True, n=len(lines) - 1)
                all_lines += lines
                all_impl += impl
                owners += [h] * len(lines)
    if use_model:
        replies = ctx.driver().batch(all_lines)
        bad = set()
        for ln, rep, im, h in zip(all_lines, replies, all_impl, owners):
            if rep != im and id(h) not in bad:
                bad.add(id(h))
                ctx.disagree(f"cell grid ({env.community}), step `{ln[:160]}`: model `{rep[:300]}` != implementation `{im[:300]}`",
                             {"part": "B", "line": ln, "model": rep, "impl": im, "history": h})
    env.loop.run_until_complete(env.clear())


def enforce_branch_coverage(ctx: Ctx):
    missing = [b for b in REQUIRED_BRANCHES if not ctx.counts.get(b)]
    ctx.extra["required_branches"] = {"listed": len(REQUIRED_BRANCHES), "never_taken": missing}
    if missing and not (ctx.failures or ctx.disagreements or ctx.broken):
        raise InfraError("coverage lost: these branches of the anchored code were never taken on the real code in this run: "
                         + ", ".join(missing))


# ---- part C: where the exit flags come from (configuration path, several instances in one process) -------------------
def run_configuration_isolation(ctx: Ctx):
    """The policy of a node is what ITS operator configured.  Build a node A through the real service loader
    (ipv8_service.IPv8) with exit flags configured in the ways configurations are written (set / list / tuple, ConfigBuilder,
    JSON round trip, get_default_configuration() edited in place as scripts/exitnode_ipv8_only_plugin.py does), then a node B
    whose configuration has no exit flag (untouched default configuration, ConfigBuilder with an empty `initialize`, a plain
    TunnelSettings()), in the same process, in both orders.  B's effective flags must be the default ones and B must not
    exit / tunnel back anything its own configuration forbids."""
    import copy
    import json
    from ipv8 import configuration as C
    from ipv8.keyvault.crypto import default_eccrypto
    from ipv8.messaging.anonymization import tunnel as T
    from ipv8.messaging.anonymization.community import TunnelSettings
    from ipv8.messaging.anonymization.exit_socket import TunnelExitSocket
    from ipv8.messaging.interfaces.udp.endpoint import UDPv4Address
    from ipv8.peer import Peer
    from ipv8.test.mocking.endpoint import AutoMockEndpoint
    from ipv8_service import IPv8
    logging.disable(logging.CRITICAL)
    AutoMockEndpoint.SEND_INET_EXCEPTION_TO_LOOP = False
    default_flags = sorted(TunnelSettings().peer_flags)
    default_snapshot = copy.deepcopy(C.default)
    R, BT, V8 = T.PEER_FLAG_RELAY, T.PEER_FLAG_EXIT_BT, T.PEER_FLAG_EXIT_IPV8
    probes = [("utp", bytes.fromhex("4100") + b"\x01" * 18), ("tracker", bytes.fromhex("00000417271019800000000012345678")),
              ("dht", b"d1:ad2:id20:abcdefghij0123456789e"), ("ipv8-other-overlay", b"\x00\x02" + bytes(range(0x40, 0x54)) + b"\xf5payload")]

    def builder_cfg(cls, initialize, via_json):
        b = C.ConfigBuilder().clear_keys().clear_overlays()
        b.add_ephemeral_key("anonymous id")
        b.add_overlay(cls, "anonymous id", [], [], initialize, [])
        cfg = b.finalize()
        return json.loads(json.dumps(cfg)) if via_json else cfg

    def default_cfg(edit):
        cfg = C.get_default_configuration()
        cfg["keys"] = [{"alias": "anonymous id", "generation": "curve25519", "file": None}]
        cfg["overlays"] = [o for o in cfg["overlays"] if o["class"] == "HiddenTunnelCommunity"]
        for o in cfg["overlays"]:
            o["walkers"], o["bootstrappers"], o["on_start"] = [], [], []
            if edit is not None:
                o["initialize"]["min_circuits"] = 0
                o["initialize"]["max_circuits"] = 0
                o["initialize"]["peer_flags"] = edit
        return cfg

    a_forms = [
        ("builder:set", lambda: builder_cfg("TunnelCommunity", {"peer_flags": {R, BT}}, False), [R, BT]),
        ("builder:list", lambda: builder_cfg("TunnelCommunity", {"peer_flags": [R, BT]}, False), [R, BT]),
        ("builder:list-via-json", lambda: builder_cfg("TunnelCommunity", {"peer_flags": [R, BT, V8]}, True), [R, BT, V8]),
        ("builder:tuple", lambda: builder_cfg("HiddenTunnelCommunity", {"peer_flags": (R, V8)}, False), [R, V8]),
        ("default-config-edited-in-place:set", lambda: default_cfg({V8}), [V8]),
        ("default-config-edited-in-place:list", lambda: default_cfg([R, BT]), [R, BT]),
    ]
    b_forms = [
        ("builder:empty-initialize", lambda: builder_cfg("TunnelCommunity", {}, False)),
        ("builder:empty-initialize-via-json", lambda: builder_cfg("HiddenTunnelCommunity", {}, True)),
        ("default-config-untouched", lambda: default_cfg(None)),
    ]

    def probe(overlay, configured, who, case):
        hop_peer = Peer(default_eccrypto.generate_key("curve25519").pub(), UDPv4Address("1.2.3.4", 5))
        es = TunnelExitSocket(42, T.Hop(hop_peer, None), overlay)
        out, back = [], []

        class Tr:
            def sendto(self, data, addr):
                out.append(bytes(data))

            def close(self):
                pass
        es.enabled, es.transport_ipv4, es.transport_ipv6 = True, Tr(), Tr()
        overlay.send_data = lambda target, cid, dest, src, data: back.append(bytes(data))
        pfx = bytes(overlay.get_prefix())
        for name, p in probes:
            n_out, n_back = len(out), len(back)
            es.sendto(p, UDPv4Address("93.184.216.34", 6881))
            es.datagram_received(p, UDPv4Address("198.51.100.7", 6881))
            ok = spec_allowed(BT in configured, V8 in configured, pfx, p)
            for direction, happened in (("out", len(out) > n_out), ("in", len(back) > n_back)):
                ctx.case(("C", case, who, name, direction), nontrivial=True)
                if happened and not ok:
                    ctx.oracle_fail("ipv8_service.IPv8:exit-flags-of-another-instance",
                                    f"{case}: node {who}, whose own configuration gives peer_flags={sorted(configured)}, "
                                    f"{'emitted' if direction == 'out' else 'tunnelled back'} a {name} packet; its settings.peer_flags is "
                                    f"{sorted(overlay.settings.peer_flags)}",
                                    {"part": "C", "case": case, "node": who, "packet": p.hex(), "direction": direction})
                if ok and not happened:
                    ctx.disagree(f"{case}: node {who} configured with {sorted(configured)} did not let an allowed {name} packet through ({direction})",
                                 {"part": "C", "case": case})
        return es

    async def pair(a_name, a_cfg, a_flags, b_name, b_cfg, b_first):
        case = f"A={a_name} B={b_name}" + (" (an unconfigured node also exists before A)" if b_first else "")
        nodes = []
        try:
            if b_first:
                nodes.append(IPv8(b_cfg(), endpoint_override=AutoMockEndpoint()))
            node_a = IPv8(a_cfg(), endpoint_override=AutoMockEndpoint())
            nodes.append(node_a)
            node_b = IPv8(b_cfg(), endpoint_override=AutoMockEndpoint())
            nodes.append(node_b)
            for n in nodes:
                for o in n.overlays:
                    o.cancel_all_pending_tasks()
            sockets = [probe(node_a.overlays[0], a_flags, "A", case), probe(node_b.overlays[0], default_flags, "B", case)]
            if b_first:
                sockets.append(probe(nodes[0].overlays[0], default_flags, "B0", case))
            fresh = sorted(TunnelSettings().peer_flags)
            if fresh != default_flags:
                ctx.disagree(f"{case}: a fresh TunnelSettings() now has peer_flags {fresh}, before: {default_flags}", {"part": "C", "case": case})
            if C.default != default_snapshot:
                ctx.disagree(f"{case}: the module-level default configuration changed", {"part": "C", "case": case})
            for es in sockets:
                await es.close()
        finally:
            for n in nodes:
                await n.stop()
        ctx.count("C:config:A=" + a_name)
        ctx.count("C:config:B=" + b_name + (":also-before-A" if b_first else ""))

    async def main():
        k = 0
        for a_name, a_cfg, a_flags in a_forms:
            for b_name, b_cfg in b_forms:
                k += 1
                await pair(a_name, a_cfg, a_flags, b_name, b_cfg, b_first=(k % 4 == 0))
    loop = asyncio.new_event_loop()
    try:
        asyncio.set_event_loop(loop)
        loop.run_until_complete(main())
    finally:
        loop.close()
        logging.disable(logging.NOTSET)


THEOREM_KINDS = {
    "property clause (model, all histories/states)": ["is_allowed_spec", "emit_policy", "inbound_policy", "no_null_dest", "resolve_policy",
                                                      "enabled_flip_cause", "unopened_socket_untouched", "step_policy", "no_reentry",
                                                      "redispatch_only_exit_messages", "enable_only_from_prev_hop",
                                                      "emit_requires_prev_hop_data"],
    "soundness of a syntactic check, all programs": ["safeSock_sound", "safeExit_sound"],
    "decided on regenerated closed terms": ["sendto_prog_safe", "datagram_received_prog_safe", "exit_data_prog_safe", "on_data_prog_safe",
                                            "data_is_not_an_exit_message"],
    "change detector (Spec transcribes DataChecker)": ["could_be_utp_spec", "could_be_udp_tracker_spec", "could_be_dht_spec",
                                                       "could_be_bt_spec", "could_be_ipv8_spec"],
    "corollary / frame property of a definition / not in the property text": ["create_cannot_repoint_hop", "other_flags_irrelevant", "gate_iff", "queued_rechecked",
                                                                              "queue_bounded", "hop_is_create_source"],
}


def check_hidden_community(ctx: Ctx):
    ctx.extra["theorem_kinds"] = THEOREM_KINDS
    """the community class that is deployed with hidden services: its run-time exit_msg_ids must be the list the translator
    extracted from the source (theorem data_is_not_an_exit_message is about that list), and the nested-cell grid runs on it"""
    env = Env("hidden")
    try:
        declared = sorted(i for _c, i, _f in ctx.extra.get("translator_paths", {}).get("exit_messages_declared", []))
        runtime = sorted(set(env.declared_exit_ids))
        ctx.extra["exit_msg_ids"] = {"declared_in_source": declared, "HiddenTunnelCommunity_at_run_time": runtime}
        if "translator_paths" in ctx.extra and runtime != declared:
            ctx.disagree(f"HiddenTunnelCommunity().exit_msg_ids = {runtime} but the source declares from_exit=True for {declared}",
                         {"part": "exit-ids", "runtime": runtime, "declared": declared})
        run_opening_grid(ctx, env, ctx.model_ok, nested_only=True)
        run_cell_grid(ctx, env, ctx.model_ok)
    finally:
        env.close()


def run(ctx: Ctx):
    if ctx.replay_input is not None and ctx.replay_input.get("replay", ctx.replay_input).get("part") == "C":
        before = len(ctx.failures)
        run_configuration_isolation(ctx)          # the configuration cases are deterministic: re-run them all
        for f in ctx.failures[before:][:5]:
            print("replay:", f["what"][:300])
        print("replay: property", "FAILS" if len(ctx.failures) > before else "holds")
        return None
    if ctx.replay_input is None:
        run_configuration_isolation(ctx)
        check_hidden_community(ctx)
    rec = ctx.replay_input or {}
    env = Env(rec.get("replay", rec).get("history", {}).get("community", "base"))
    try:
        if ctx.replay_input is not None:
            return replay(ctx, env, ctx.replay_input)
        base_decl = sorted(i for _c, i, f in ctx.extra.get("translator_paths", {}).get("exit_messages_declared", []) if f == "community.py")
        if "translator_paths" in ctx.extra and sorted(env.declared_exit_ids) != base_decl:
            ctx.disagree(f"TunnelCommunity().exit_msg_ids = {sorted(env.declared_exit_ids)} but community.py declares {base_decl}",
                         {"part": "exit-ids", "runtime": sorted(env.declared_exit_ids), "declared": base_decl})
        run_opening_grid(ctx, env, ctx.model_ok)
        run_branch_grid(ctx, env, ctx.model_ok)
        run_cell_grid(ctx, env, ctx.model_ok)
        run_gate(ctx, env, ctx.model_ok, wide=ctx.thorough())
        import os
        run_paths(ctx, env, int(os.environ.get("C06_HISTORIES", ctx.scale(400, 20000))), ctx.model_ok)   # override: self-test of the grids only
        enforce_branch_coverage(ctx)
    finally:
        env.close()


def search(ctx: Ctx, reason: str):
    # kept small: a red quick run must stay well under ~3 minutes
    run_configuration_isolation(ctx)
    check_hidden_community(ctx)
    env = Env()
    try:
        run_opening_grid(ctx, env, False)
        run_gate(ctx, env, False, wide=False)
        run_paths(ctx, env, 600, False)
    finally:
        env.close()


def replay(ctx: Ctx, env: Env, rec: dict):
    r = rec.get("replay", rec)
    if r.get("part") == "A":
        p = bytes.fromhex(r["data"])
        es = env.loop.run_until_complete(open_socket_for_gate(env))
        env.set_flags(r["flags"])
        ok = spec_allowed(env.F_BT in r["flags"], env.F_IPV8 in r["flags"], env.pfx, p)
        n0 = len(env.log)
        if r["direction"] == "out":
            from ipv8.messaging.interfaces.udp.endpoint import UDPv4Address
            es.sendto(p, UDPv4Address("93.184.216.34", 6881))
        else:
            es.transport_ipv4.proto.datagram_received(p, ("198.51.100.7", 6881))
        passed = len(env.log) > n0
        print(f"replay: packet len {len(p)} BT-shaped={spec_bt(p)} IPv8-shaped={spec_ipv8(p)} own-prefix={p[:22] == env.pfx} "
              f"flags={r['flags']} direction={r['direction']}: passed the exit={passed}, policy allows={ok}; "
              f"property {'FAILS' if passed and not ok else 'holds'}")
        if passed and not ok:
            ctx.oracle_fail("replay", "replayed packet still passes the exit although the policy forbids it", r)
        ctx.case(("replay",), True)
    else:
        h = r["history"]
        before = len(ctx.failures)
        lines, impl, _ = env.loop.run_until_complete(run_history(ctx, env, dict(h), fixed_events=h["events"]))
        for ln, im in zip(lines, impl):
            print("replay:", ln[:150], "->", im[:200])
        print("replay: property", "FAILS" if len(ctx.failures) > before else "holds")
        ctx.case(("replay",), True)
