"""
C01 — signed handlers run only for authentic, untampered datagrams.

Link to the code
  * translator tools/gen_c01.py: handler table of every shipped overlay (live decode_map, wrapper kind from the wrapper's
    code object, payload classes from its closure), `_verify_signature`, the four wrapper bodies, `_ez_unpack_auth`,
    `_ez_pack`/`ezr_pack`, `Community.on_packet`, the raw discovery handler  ->  lean/Ipv8/C01/Gen.lean  (every run)
  * correspondence: real signed datagrams are captured from protocol runs on the repo's mock network (MockIPv8 /
    AutoMockEndpoint; discovery walk old+new style with introductions and punctures on every overlay, DHT
    ping/store/find, DHT discovery store-peer/connect-peer, identity disclose/attest/request-missing/missing-response,
    wallet request/chunk/verify/challenge/response, tunnel destroy), the property's mutation operators are applied, and
    every mutant is delivered to a live overlay of the target class through `on_packet`.  The model (drv_c01) answers
    the same datagram; its three oracle inputs — key parse, signature verification, payload decoding — are answered by
    the real Rust crypto / the real serializer on exactly the bytes the *model* asks about (three batch passes).
    Compared: handler entered or not, the peer key handed over, the raw-datagram flag.
  * oracle (independent of model and of ipv8.keyvault): for every delivery, the specification's triple
    (key = varlenH at offset 23, data[:-n], data[-n:]) is evaluated with ipv8_rust_tunnels directly.  Violations:
      handler of an authenticated (overlay, msg id) entered although the triple does not verify;
      handler entered for a datagram whose first 22 bytes are not the overlay's prefix;
      Peer handed to the handler is not the carried key;
      Network.verified_by_public_key_bin gained a key that the delivered datagram does not authenticate.
    Handler entry is observed with sys.monitoring local events (fallback sys.setprofile) on the code objects of the wrapped
    functions (no /repo hooks).
"""
from __future__ import annotations

import asyncio
import logging
import random as _random
import sys
from binascii import unhexlify

import gen_c01
from vlib import Ctx, TranslatorError

PROPERTY = "C01"
LEAN_TARGETS = ["Ipv8.C01.Props"]
PROPS_FILE = "Ipv8/C01/Props.lean"
DRIVER = "drv_c01"
RULE = ("cases = mutants of signed datagrams captured from real protocol runs on the mock network, delivered to a live "
        "overlay in a prepared receiver state; distinct = distinct (target overlay, msg id, mutation operator, position "
        "class, sender curve, source-address state); non-trivial = the mutant reaches a MODELLED handler of the target "
        "overlay (prefix matches, msg id registered with a lazy wrapper or the reviewed raw handler; deprecated / cell / "
        "unknown ids and foreign prefixes are counted as cases but not as non-trivial)")
TRUSTED_BASE = [
    "tools/gen_c01.py (statement-by-statement translation of the wrapper bodies, _verify_signature slices, _ez_pack; "
    "wrapper kind recognised from code objects; outer functools.wraps decorators such as wallet's @synchronized are "
    "assumed to forward their arguments unchanged)",
    "ipv8_rust_tunnels (key parsing, signature length, signing, verification) — the abstract Scheme of the theorems",
    "the payload decoders (Serializer.unpack_serializable_list) are an abstract function of the model; C02/C03 cover them",
    "/verif/spec/auth_spec.json: frozen, reviewed list of (overlay, msg id) that must be authenticated",
    "hand-written model of on_packet dispatch, varlenH key field, Python slices, discovery raw handler: tied by the "
    "correspondence run only",
]
ASSUMPTIONS = [
    "WellSized: sigLen(k) > 0 and only signatures of exactly sigLen(k) bytes verify (sampled: one authentic datagram per key met, "
    "signature shortened / extended by one byte). NOT assumed any more: sigLen <= len(key encoding)+2 — false for the "
    "compressed-point encodings the parser accepts (evidence hypothesis_checks.keys_with_signature_longer_than_encoding_plus_2)",
    "Canon: key_from_public_bin(c).key_to_bin() == c for canonical c (re-checked on every key met)",
    "NetOK: Network.verified_by_public_key_bin[k] is a Peer whose key_to_bin() is k — a run-time invariant of network.py that "
    "no theorem derives; sampled on the live index after every delivery for the entries that delivery prepared, looked up or "
    "added (evidence: hypothesis_checks.netok_live_entries_checked) and on the whole index at the end",
    "history_sound ASSUMES that a handler adds at most the Peer it was handed; on the code this is only observed: key-set diff "
    "per delivery, and once more after every available maintenance strategy of the overlay has taken two steps",
    "Unforgeable (only tamper_rejected/cross_overlay theorems): a verifying signature was made by the key holder over exactly these bytes",
]

_INFO = {}


def generate(ctx: Ctx):
    _INFO.clear()
    _INFO["tables"] = gen_c01.collect_tables()
    src, info = gen_c01.translate(_INFO["tables"])
    _INFO.update(info)
    return [("Ipv8/C01/Gen.lean", src)]


# ------------------------------------------------------------------------------------------------ specification side
def rust():
    import ipv8_rust_tunnels as r
    return r


_SPEC_CACHE: dict = {}


def spec_eval(data: bytes):
    """The specification's triple, evaluated with the Rust primitives only (memoised per datagram: it is a pure function
    of the bytes and is asked for the same datagram by generator, oracle, history and replay bookkeeping).
    -> dict(key_field, canon, n, authentic)"""
    hit = _SPEC_CACHE.get(data)
    if hit is None:
        if len(_SPEC_CACHE) > 200000:
            _SPEC_CACHE.clear()
        hit = _SPEC_CACHE[data] = _spec_eval(data)
    return hit


def _spec_eval(data: bytes):
    r = rust()
    out = {"key_field": None, "canon": None, "n": None, "authentic": False}
    if len(data) < 25:
        return out
    ln = int.from_bytes(data[23:25], "big")
    kb = data[25:25 + ln]
    if len(kb) < ln:
        return out            # the datagram does not carry a complete key field
    out["key_field"] = kb
    try:
        pk = r.PublicKey(kb)
    except BaseException:
        return out
    n = pk.get_signature_length()
    out["canon"], out["n"] = bytes(pk.key_to_bin()), n
    if n <= 0 or n > len(data):
        return out
    try:
        out["authentic"] = bool(pk.verify(data[-n:], data[:-n]))
    except BaseException:
        out["authentic"] = False
    return out


def real_parse(kb: bytes):
    try:
        pk = rust().PublicKey(kb)
        return pk, pk.get_signature_length(), bytes(pk.key_to_bin())
    except BaseException:
        return None


# ------------------------------------------------------------------------------------------------ observation
class Observer:
    """Records entries of the wrapped handler functions (and Network.add_verified_peer / Peer.add_address) while a datagram
    is being delivered.  Uses sys.monitoring (PEP 669) with LOCAL events on exactly the target code objects — the callback
    runs only when one of them starts (PY_START: once per call, also for coroutines; resumes are separate events), so the
    rest of the program runs at full speed; falls back to sys.setprofile on interpreters without sys.monitoring."""

    TOOL = 4

    def __init__(self):
        self.targets = {}        # code object -> label
        self.events = []
        self.active = False
        self.current = None      # the (long-lived) datagram that is being delivered, as a transient copy
        self.coframes = {}       # setprofile fallback only: coroutine frames already entered
        self.started = False

    def add(self, code, label):
        if code not in self.targets:
            self.targets[code] = label
            if self.started and hasattr(sys, "monitoring"):
                sys.monitoring.set_local_events(self.TOOL, code, sys.monitoring.events.PY_START)

    def record(self, frame, lab):
        code = frame.f_code
        names = code.co_varnames[:code.co_argcount]
        loc = frame.f_locals
        if lab[0] == "add_address":       # Peer.add_address(self, value): who is touched, by which caller
            back = frame.f_back
            self.events.append((lab, (loc.get(names[0]), loc.get(names[1]),
                                      back.f_code.co_filename.replace("\\", "/") if back else ""), {}, None,
                                code.co_name))
            return
        second = loc.get(names[1]) if len(names) > 1 else None
        rest = {}
        for nm in names[2:]:
            v = loc.get(nm)
            if isinstance(v, (bytes, bytearray)):
                # never keep the datagram object alive (transports hand over a fresh object per packet and
                # free it afterwards); keep what is needed: is it the datagram that was delivered?
                v = bytes(v) if self.current is None or bytes(v) != self.current else self.current
            rest[nm] = v
        self.events.append((lab, second, rest, None, code.co_name))

    def on_start(self, code, _offset):
        if self.active:
            lab = self.targets.get(code)
            if lab is not None:
                self.record(sys._getframe(1), lab)  # noqa: SLF001

    def prof(self, frame, event, arg):          # fallback
        if event == "call":
            lab = self.targets.get(frame.f_code)
            if lab is not None:
                if frame.f_code.co_flags & 0x80:          # CO_COROUTINE: 'call' also fires on every resume
                    if self.coframes.get(id(frame)) is frame:
                        return
                    self.coframes[id(frame)] = frame
                if self.active:
                    self.record(frame, lab)

    def start(self):
        if self.started:
            return
        self.started = True
        if hasattr(sys, "monitoring"):
            mon = sys.monitoring
            if mon.get_tool(self.TOOL) is not None:
                mon.free_tool_id(self.TOOL)
            mon.use_tool_id(self.TOOL, "verif-c01")
            mon.register_callback(self.TOOL, mon.events.PY_START, self.on_start)
            for code in self.targets:
                mon.set_local_events(self.TOOL, code, mon.events.PY_START)
        else:
            sys.setprofile(self.prof)

    def stop(self):
        if not self.started:
            return
        self.started = False
        if hasattr(sys, "monitoring"):
            mon = sys.monitoring
            for code in self.targets:
                try:
                    mon.set_local_events(self.TOOL, code, 0)
                except BaseException:
                    pass
            mon.register_callback(self.TOOL, mon.events.PY_START, None)
            mon.free_tool_id(self.TOOL)
        else:
            sys.setprofile(None)


def peer_key_of(obj):
    from ipv8.peer import Peer
    if isinstance(obj, Peer):
        try:
            return bytes(rust().PublicKey(bytes(obj.public_key.key_to_bin())).key_to_bin())
        except BaseException:
            return bytes(obj.public_key.key_to_bin())
    return None


# ------------------------------------------------------------------------------------------------ capture
async def pump(rounds: int = 300):
    loop = asyncio.get_running_loop()
    for _ in range(rounds):
        await asyncio.sleep(0)
        if not loop._ready:  # noqa: SLF001
            await asyncio.sleep(0.001)
            if not loop._ready:  # noqa: SLF001
                return


async def step(coro, timeout=2.0):
    try:
        return await asyncio.wait_for(coro, timeout)
    except BaseException as e:  # a scenario step that fails only reduces what is captured
        return e


class Capture:
    def __init__(self):
        self.packets = []     # dict(overlay, data, sender_sk (rust private key bytes), curve, src)
        self.late = {}

    def tap(self, node, overlay_name, curve):
        ep = node.endpoint
        orig = ep.send
        sk = bytes(node.my_peer.key.key_to_bin())

        def send(addr, packet, _o=orig):
            self.packets.append({"overlay": overlay_name, "data": bytes(packet), "sk": sk, "curve": curve,
                                 "src": tuple(node.endpoint.wan_address)})
            try:
                return _o(addr, packet)
            except AssertionError:
                return None
        ep.send = send
        # receive side of the scenario node: which keys did the datagrams it received authenticate (spec triple, own prefix)
        ov = node.overlay
        node._c01_auth = {bytes(node.my_peer.public_key.key_to_bin())}
        node._c01_rx = []
        orig_on_packet = ov.on_packet

        def on_packet(packet, *a, _o=orig_on_packet, **kw):
            try:
                src, data = packet[0], bytes(packet[1])
                sp = spec_eval(data)
                if sp["authentic"] and data[:22] == bytes(ov.get_prefix()):
                    node._c01_auth.add(sp["canon"])
                node._c01_rx.append((tuple(src), data))
            except BaseException:
                sp = None
            res = _o(packet, *a, **kw)
            # forged datagrams INTERLEAVED into the live protocol run: right after an authentic datagram of an authenticated
            # id was handled (pending requests, running transfers, caches of this node in place), the same datagram with one
            # payload byte flipped (the last one before the signature) arrives from the same source; it must not enter a handler
            inj = getattr(self, "inject", None)
            try:
                ik = (overlay_name, data[22], id(node)) if sp else None      # budget per message id and receiving node
                if inj and sp and sp["authentic"] and (overlay_name, data[22]) in inj["required"] \
                        and inj["seen"].get(ik, 0) < inj["per_id"] and not inj["busy"]:
                    inj["seen"][ik] = inj["seen"].get(ik, 0) + 1
                    j = len(data) - sp["n"] - 1
                    if j >= 25 + len(sp["key_field"]):
                        forged = data[:j] + bytes([data[j] ^ 0x01]) + data[j + 1:]
                        obs = inj["obs"]
                        inj["busy"] = True
                        obs.events, obs.current, obs.active = [], forged, True
                        try:
                            _o((packet[0], bytes(bytearray(forged))))
                        finally:
                            obs.active = False
                            inj["busy"] = False
                        entered = [e for e in obs.events if e[0][0] in ("handler",)]
                        inj["ctx"].count(f"interleaved:{'ENTERED' if entered else 'rejected'}")
                        inj["ctx"].case(("interleaved", overlay_name, data[22]), True)
                        if entered:
                            inj["ctx"].oracle_fail(
                                f"{entered[0][4]}:unauthentic-delivery",
                                f"{overlay_name} msg {data[22]}: in a live protocol run the handler {entered[0][4]} was entered "
                                f"for a forged copy (one payload byte flipped) of the datagram it had just processed",
                                {"overlay": overlay_name, "then": "strategies", "scenario": "interleaved-forgery",
                                 "history": [{"src": list(tuple(src)), "data": data.hex(), "verified_before": []},
                                             {"src": list(tuple(src)), "data": forged.hex(), "verified_before": []}]})
            except BaseException as e:
                if inj:
                    inj["ctx"].count(f"interleaved:error:{type(e).__name__}")
            return res
        ov.on_packet = on_packet
        # the endpoint holds the bound method it was registered with: re-register the tapped one
        try:
            node.endpoint.remove_listener(ov)
            ov.on_packet = on_packet
            node.endpoint.add_prefix_listener(ov, ov.get_prefix())
        except BaseException:
            pass


def know(nodes, cid):     # NB: an overlay may own its Network (DHTCommunity ignores the one it is given): use overlay.network
    from ipv8.peer import Peer
    for n in nodes:
        for o in nodes:
            if o is not n:
                p = Peer(o.my_peer.public_key, o.endpoint.wan_address)
                n.overlay.network.add_verified_peer(p)
                n.overlay.network.discover_services(p, [cid])
                if hasattr(n, "_c01_auth"):
                    n._c01_auth.add(bytes(o.my_peer.public_key.key_to_bin()))    # put there by the harness, not by a datagram


async def sc_intro(cap, cls, curve):
    from ipv8.peer import Peer
    nodes = [gen_c01.make_node(cls, curve) for _ in range(3)]
    for n in nodes:
        cap.tap(n, cls.__name__, curve)
    a, b, c = nodes
    cid = b.overlay.community_id
    pc = Peer(c.my_peer.public_key, c.endpoint.wan_address)
    b.overlay.network.add_verified_peer(pc)
    b.overlay.network.discover_services(pc, [cid])
    a.overlay.walk_to(b.endpoint.wan_address)
    await pump()
    a.overlay.endpoint.send(b.endpoint.wan_address,
                            a.overlay.create_introduction_request(b.endpoint.wan_address, new_style=True))
    await pump()
    for new_style in (False, True):      # punctures are only sent on behalf of third parties; ask the API directly too
        a.overlay.endpoint.send(b.endpoint.wan_address,
                                a.overlay.create_puncture(a.overlay.my_estimated_lan, b.endpoint.wan_address, 77,
                                                          new_style))
    await pump()
    return nodes


async def sc_discovery(cap, cls, curve):
    nodes = [gen_c01.make_node(cls, curve) for _ in range(2)]
    for n in nodes:
        cap.tap(n, cls.__name__, curve)
    a, b = nodes
    a.overlay.walk_to(b.endpoint.wan_address)
    await pump()
    a.overlay.send_similarity_request(b.endpoint.wan_address)
    await pump()
    # the legacy (2014) introduction request that the raw handler tries FIRST: no sender in the tree produces it any more,
    # so it is built from the payload class and the sender's own packing function
    try:
        from ipv8.messaging.payload_headers import BinMemberAuthenticationPayload, GlobalTimeDistributionPayload
        from ipv8.peerdiscovery.payload import DiscoveryIntroductionRequestPayload
        for ident in (4711, 4712):
            pl = DiscoveryIntroductionRequestPayload(b"\x07" * 20, b.endpoint.wan_address, a.overlay.my_estimated_lan,
                                                     a.overlay.my_estimated_wan, True, "unknown", ident, b"")
            pkt = a.overlay._ez_pack(a.overlay.get_prefix(), 246,  # noqa: SLF001
                                     [BinMemberAuthenticationPayload(a.my_peer.public_key.key_to_bin()),
                                      GlobalTimeDistributionPayload(a.overlay.claim_global_time()), pl])
            a.overlay.endpoint.send(b.endpoint.wan_address, pkt)
        await pump()
    except BaseException as e:
        cap.ctx.count(f"capture:legacy-intro-failed:{type(e).__name__}")
    return nodes


async def sc_dht(cap, cls, curve):
    from ipv8.dht.routing import Node
    nodes = [gen_c01.make_node(cls, curve) for _ in range(3)]
    for n in nodes:
        cap.tap(n, cls.__name__, curve)
        n.overlay.cancel_pending_task("store_my_peer")
        n.overlay.token_maintenance()
    know(nodes, cls.community_id)
    for n in nodes:
        for o in nodes:
            if o is not n:
                n.overlay.walk_to(o.endpoint.wan_address)
    await pump()
    a, b, c = nodes
    await step(a.overlay.ping(Node(b.my_peer.key.pub().key_to_bin(), b.endpoint.wan_address)))
    await step(a.overlay.store_value(b"\x01" * 20, b"value", sign=True))
    await step(a.overlay.store_value(b"\x02" * 20, b"value2"))
    await step(b.overlay.find_values(b"\x01" * 20))
    await step(c.overlay.find_nodes(b"\x03" * 20))
    if hasattr(a.overlay, "store_peer"):
        await step(a.overlay.store_peer())
        try:
            dn = lambda x: Node(x.my_peer.key.pub().key_to_bin(), x.endpoint.wan_address)  # noqa: E731
            b.overlay.store[a.my_peer.mid].append(dn(a))
            # … and a third party (key T at a's address) that b merely NAMES in its connect-peer-response to c
            tk = rust().PrivateKey(b"LibNaCLSK:" + bytes(_random.randrange(256) for _ in range(64)))
            b.overlay.store[a.my_peer.mid].append(Node(bytes(tk.pub().key_to_bin()), a.endpoint.wan_address))
            a.overlay.store_for_me[a.my_peer.mid].append(dn(b))
        except BaseException:
            pass
        await step(c.overlay.send_connect_peer_request(a.my_peer.mid, [dn(b)]))
    # a third party's key and address, only NAMED inside an authentic find-response (b's routing table holds it, it never
    # signs anything towards c): it must not become a verified peer of c, now or when c's maintenance runs
    try:
        vk = rust().PrivateKey(b"LibNaCLSK:" + bytes(_random.randrange(256) for _ in range(64)))
        from ipv8.messaging.interfaces.udp.endpoint import UDPv4Address as _A4
        # … named at the address of an honest node that DOES answer (with its own key): a find-response signed by `a`
        # must not be credited to the third party's key
        vnode = Node(bytes(vk.pub().key_to_bin()), _A4(*a.endpoint.wan_address))
        b.overlay.get_routing_table(vnode).add(vnode)
        b._c01_auth.add(bytes(vk.pub().key_to_bin()))      # inserted by the scenario into b, not learned from a datagram
        # schedule class "the contact does not answer": the lookups run in the background, every find-request that is
        # still pending after the answers came in (the one to the named third party: nobody signs with ITS key) is timed
        # out through the request cache's own API instead of waiting two real seconds
        lookups = [asyncio.ensure_future(c.overlay.find_nodes(vnode.id)), asyncio.ensure_future(c.overlay.find_values(vnode.id))]
        for _ in range(4):
            await pump()
            rc = c.overlay.request_cache
            for ident, cache in list(getattr(rc, "_identifiers", {}).items()):
                if getattr(cache, "msg_type", None) == "find":
                    try:
                        rc.pop(cache.prefix, cache.number)
                        cache.on_timeout()
                    except BaseException:
                        pass
        for lk in lookups:
            await step(lk, 0.3)
        # an unauthenticated peer HINT handed to an API entry point (what TunnelCommunity.on_extend does with the key and
        # address named in an extend cell): connect_peer(mid, peer) pings the hint; the honest node at that address answers
        # with its own key, the ping is never answered by the hinted key and times out; the hint must not become verified
        if hasattr(c.overlay, "connect_peer"):
            from ipv8.peer import Peer as _P
            hk = rust().PrivateKey(b"LibNaCLSK:" + bytes(_random.randrange(256) for _ in range(64)))
            hint = _P(bytes(hk.pub().key_to_bin()), _A4(*a.endpoint.wan_address))
            fut = asyncio.ensure_future(c.overlay.connect_peer(hint.mid, peer=hint))
            for _ in range(3):
                await pump()
                rc = c.overlay.request_cache
                for ident, cache in list(getattr(rc, "_identifiers", {}).items()):
                    if getattr(cache, "msg_type", None) in ("ping", "find"):
                        try:
                            rc.pop(cache.prefix, cache.number)
                            cache.on_timeout()
                        except BaseException:
                            pass
            await step(fut, 0.3)
            cap.ctx.count("dht:hinted-connect-peer")
    except BaseException:
        pass
    await pump()
    return nodes


async def sc_identity(cap, cls, curve, nadv):
    from ipv8.peer import Peer
    nodes = [gen_c01.make_node(cls, curve) for _ in range(2)]
    for n in nodes:
        cap.tap(n, cls.__name__, curve)
    know(nodes, cls.community_id)
    a, b = nodes
    h = b"a" * 31
    for i in range(nadv):
        a.overlay.self_advertise(h + bytes([i]), "attribute%d" % i)
    b.overlay.add_known_hash(h + bytes([nadv]), "attribute%d" % nadv, a.my_peer.public_key.key_to_bin())
    a.overlay.request_attestation_advertisement(Peer(b.my_peer.public_key, b.endpoint.wan_address), h + bytes([nadv]),
                                                "attribute%d" % nadv)
    for _ in range(12):
        await pump()
        await asyncio.sleep(0.01)
    return nodes


async def sc_wallet(cap, cls, curve):
    from ipv8.attestation.wallet.bonehexact.structs import BonehPrivateKey
    from ipv8.peer import Peer
    from ipv8.util import succeed
    sk = BonehPrivateKey.unserialize(unhexlify("01064c65dcb113f901064228da3ea57101064793a4f9c77901062b083e"
                                               "8690fb0106408293c67e9f010601d1a9d3744901030f4243"))
    nodes = [gen_c01.make_node(cls, curve) for _ in range(2)]
    for n in nodes:
        cap.tap(n, cls.__name__, curve)
    know(nodes, cls.community_id)
    a, b = nodes
    a.overlay.set_attestation_request_callback(lambda x, y, z: succeed(b"2168897456"))
    b.overlay.request_attestation(Peer(a.my_peer.public_key, a.endpoint.wan_address), "MyAttribute", sk)
    for _ in range(60):
        await pump()
        await asyncio.sleep(0.01)
        if b.overlay.database.get_all():
            break
    ents = b.overlay.database.get_all()
    if ents:
        res = {}
        a.overlay.verify_attestation_values(b.endpoint.wan_address, ents[0][0], [b"2168897456"],
                                            lambda h, v: res.setdefault("v", v), "id_metadata")
        for _ in range(150):
            await pump()
            await asyncio.sleep(0.01)
            if "v" in res:
                break
    return nodes


async def sc_tunnel(cap, cls, curve):
    nodes = [gen_c01.make_node(cls, curve) for _ in range(2)]
    for n in nodes:
        cap.tap(n, cls.__name__, curve)
    a, b = nodes
    a.overlay.send_destroy(b.endpoint.wan_address, 42, 0)
    a.overlay.send_destroy(b.endpoint.wan_address, 7, 2)
    await pump()
    return nodes


async def sc_tunnel_circuit(cap, cls, curve):
    """A real 1-hop circuit V -> E.  The one authenticated tunnel message (destroy) decides WHOSE circuit to tear down from
    the sender's identity: a destroy that is validly signed by a third key X must not be acted upon as if the hop E had
    sent it — wherever it appears to come from (X puts E's address into the UDP source field) — while E's own does work."""
    from ipv8.messaging.anonymization.payload import DestroyPayload
    from ipv8.messaging.anonymization.tunnel import CIRCUIT_STATE_READY, PEER_FLAG_EXIT_BT, PEER_FLAG_RELAY
    ctx = cap.ctx
    nodes = []
    for is_exit in (False, True, False):
        st = cls.settings_class()
        st.min_circuits = 0
        st.max_circuits = 0
        st.remove_tunnel_delay = 0
        st.peer_flags = {PEER_FLAG_RELAY} | ({PEER_FLAG_EXIT_BT} if is_exit else set())
        from ipv8.test.mocking.ipv8 import MockIPv8
        n = MockIPv8("curve25519", cls, settings=st)
        n.overlay.cancel_all_pending_tasks()
        n.overlay.settings.min_circuits = 1
        n.overlay.settings.max_circuits = 1
        nodes.append(n)
        cap.tap(n, cls.__name__, "curve25519")
    v, e, x = nodes
    v.overlay.walk_to(e.endpoint.wan_address)
    e.overlay.walk_to(v.endpoint.wan_address)
    for _ in range(6):
        await pump()
        await asyncio.sleep(0.005)
    v.overlay.build_tunnels(1)
    for _ in range(40):
        await pump()
        await asyncio.sleep(0.005)
        if v.overlay.find_circuits(state=CIRCUIT_STATE_READY):
            break
    ready = v.overlay.find_circuits(state=CIRCUIT_STATE_READY)
    ctx.count("tunnel-circuit:built" if ready else "tunnel-circuit:NOT-built")
    if not ready:
        return nodes
    cid = ready[0].circuit_id
    forged = x.overlay.ezr_pack(DestroyPayload.msg_id, DestroyPayload(cid, 0))          # authentic — for X's key
    for label, src in (("from-own-address", x.endpoint.wan_address), ("from-the-hops-address", e.endpoint.wan_address)):
        v.overlay.on_packet((src, forged))
        await pump()
        alive = cid in v.overlay.circuits and v.overlay.circuits[cid].state == CIRCUIT_STATE_READY
        ctx.count(f"tunnel-circuit:third-key-destroy:{label}:{'ignored' if alive else 'OBEYED'}")
        ctx.case(("tunnel-destroy", cls.__name__, label), True)
        if not alive:
            ctx.oracle_fail(f"{cls.__name__}.on_destroy:acted-for-another-key",
                            f"{cls.__name__}: a destroy validly signed by a third key X tore down a circuit whose hop is E "
                            f"(datagram delivered {label}): the message was attributed to a key that did not sign it",
                            {"overlay": cls.__name__, "then": "strategies", "scenario": "sc_tunnel_circuit",
                             "history": [{"src": list(src), "data": forged.hex(), "verified_before": []}]})
            return nodes
    # the same destroy from the exit's side: X names E's exit socket
    es = list(e.overlay.exit_sockets)
    if es:
        forged2 = x.overlay.ezr_pack(DestroyPayload.msg_id, DestroyPayload(es[0], 0))
        e.overlay.on_packet((v.endpoint.wan_address, forged2))
        await pump()
        alive = es[0] in e.overlay.exit_sockets
        ctx.count(f"tunnel-circuit:third-key-destroy:exit-socket:{'ignored' if alive else 'OBEYED'}")
        if not alive:
            ctx.oracle_fail(f"{cls.__name__}.on_destroy:acted-for-another-key",
                            f"{cls.__name__}: a destroy validly signed by a third key X removed an exit socket whose hop is V",
                            {"overlay": cls.__name__, "then": "strategies", "scenario": "sc_tunnel_circuit",
                             "history": [{"src": list(v.endpoint.wan_address), "data": forged2.hex(), "verified_before": []}]})
    # and the hop's own destroy is obeyed (the oracle above is not satisfied by a handler that ignores everything)
    e.overlay.send_destroy(v.endpoint.wan_address, cid, 0)
    await pump()
    ctx.count(f"tunnel-circuit:own-destroy:{'obeyed' if cid not in v.overlay.circuits else 'IGNORED'}")
    return nodes


async def capture_all(ctx: Ctx, tables, rounds: int, only: str | None = None, inject: dict | None = None):
    cap = Capture()
    cap.ctx = ctx
    if inject is not None:
        cap.inject = inject
    by_name = {t["overlay"]: t["cls"] for t in tables}
    curves = ["curve25519", "very-low", "low", "medium", "high"]
    for rnd in range(rounds):
        for i, (name, cls) in enumerate(sorted(by_name.items())):
            if only is not None and name != only:
                continue
            curve = curves[(rnd + i) % len(curves)]          # all five sender curves already in one round
            scs = [sc_intro(cap, cls, curve)]
            if name == "DiscoveryCommunity":
                scs.append(sc_discovery(cap, cls, curve))
            if name in ("DHTCommunity", "DHTDiscoveryCommunity"):
                scs.append(sc_dht(cap, cls, curve))
            if name == "IdentityCommunity":
                scs.append(sc_identity(cap, cls, "curve25519", 0))
                scs.append(sc_identity(cap, cls, curve, 39))
            if name == "AttestationCommunity" and rnd == 0:
                scs.append(sc_wallet(cap, cls, "curve25519"))
            if name in ("TunnelCommunity", "HiddenTunnelCommunity"):
                scs.append(sc_tunnel(cap, cls, curve))
                if rnd == 0:
                    scs.append(sc_tunnel_circuit(cap, cls, curve))
            for sc in scs:
                try:
                    nodes = await sc
                except BaseException as e:
                    ctx.count(f"capture:scenario-failed:{name}:{type(e).__name__}")
                    continue
                # protocol-run oracle: in the nodes that really took part (pending requests, routing tables, caches in
                # place), after the maintenance strategies ran, only keys that some received datagram authenticated (or
                # that the scenario itself inserted) may be verified
                class _R:       # run_strategies wants something with .nodes
                    pass
                rr = _R()
                rr.nodes = {f"{name}#{j}": n for j, n in enumerate(nodes)}
                late = await run_strategies(ctx, rr, {k: getattr(n, "_c01_auth", set()) for k, n in rr.nodes.items()},
                                            {k: [(s_, d_, []) for s_, d_ in getattr(n, "_c01_rx", [])] for k, n in rr.nodes.items()},
                                            scenario=getattr(sc, "__name__", "scenario"))
                for kk, vv in late.items():
                    cap.late[kk] = cap.late.get(kk, 0) + vv
                for n in nodes:
                    try:
                        await n.stop()
                    except BaseException:
                        pass
    ctx.extra["late_effects_in_protocol_runs"] = cap.late
    return cap.packets


# ------------------------------------------------------------------------------------------------ mutation operators
def compressed_encodings(pub: bytes):
    """the two compressed-point DER encodings (parity 02 / 03) of an uncompressed EC SubjectPublicKeyInfo; [] if `pub` is not one.
    The Rust parser accepts them; they are SHORTER than the key's signatures (sigLen > len(key)+2)."""
    try:
        def rd(b, i):
            if b[i + 1] < 0x80:
                return b[i + 1], i + 2
            n = b[i + 1] & 0x7f
            return int.from_bytes(b[i + 2:i + 2 + n], "big"), i + 2 + n

        def enc(tag, body):
            ln = len(body)
            if ln < 0x80:
                return bytes([tag, ln]) + body
            if ln < 0x100:
                return bytes([tag, 0x81, ln]) + body
            return bytes([tag, 0x82]) + ln.to_bytes(2, "big") + body
        if pub[0] != 0x30:
            return []
        _, i = rd(pub, 0)
        la, j = rd(pub, i)
        alg = pub[i:j + la]
        k = j + la
        lb, q = rd(pub, k)
        bits = pub[q:q + lb]
        if pub[i] != 0x30 or pub[k] != 0x03 or bits[0] != 0 or bits[1] != 4:
            return []
        x = bits[2:][:len(bits[2:]) // 2]
        return [enc(0x30, alg + enc(0x03, bytes([0, par]) + x)) for par in (2, 3)]
    except BaseException:
        return []


def regions(d: bytes, kl: int, n: int):
    """position classes of a well-formed signed datagram"""
    ln = len(d)
    return {"prefix": (0, 22), "msgid": (22, 23), "keylen": (23, 25), "key": (25, 25 + kl),
            "payload": (25 + kl, ln - n), "sig": (ln - n, ln)}


LEAN = False      # set per run from the scale: fewer REPETITIONS per operator and message id (never fewer operators / classes)


def mutants_of(ctx: Ctx, pk: dict, pool: list, tables_by_name: dict, other_keys: dict, flips: int, every_byte: bool):
    """-> list of (target overlay, data, operator label, position class)"""
    rng = ctx.rng
    r = rust()
    d = pk["data"]
    ov = pk["overlay"]
    sp = spec_eval(d)
    out = [(ov, d, "unmodified", "-")]
    if sp["canon"] is None or sp["n"] >= len(d) - 25:
        return out
    kl, n = len(sp["key_field"]), sp["n"]
    reg = regions(d, kl, n)
    sk = r.PrivateKey(pk["sk"])
    atk = other_keys[pk["curve"]]

    def flip(i, bit):
        b = bytearray(d)
        b[i] ^= 1 << bit
        return bytes(b)
    # 1. bit flips in every position class
    for cls_name, (lo, hi) in reg.items():
        if hi <= lo:
            continue
        if every_byte:
            pos = list(range(lo, hi))
        else:
            # lean tiers: one boundary byte and one random byte per position class; the thorough tier: both boundaries + more
            ends = {rng.choice([lo, hi - 1])} if LEAN else {lo, hi - 1}
            pos = sorted(ends | {rng.randrange(lo, hi) for _ in range(flips)})
        for i in pos:
            out.append((ov, flip(i, rng.randrange(8)), "bitflip", cls_name))
    # 2. truncation
    for cut in sorted({1, n, rng.randrange(1, max(2, len(d) - 22))} if LEAN else
                      {1, 2, n - 1, n, n + 1, rng.randrange(1, max(2, len(d) - 22))}):
        if 0 < cut < len(d):
            out.append((ov, d[:-cut], "truncate", f"cut{'=n' if cut == n else '<n' if cut < n else '>n'}"))
    for keep in ((22, rng.choice([23, 24]), rng.choice([25, 26]), 25 + kl // 2, 25 + kl) if LEAN else
                 (22, 23, 24, 25, 26, 25 + kl // 2, 25 + kl, 25 + kl + 1)):
        if keep < len(d):
            out.append((ov, d[:keep], "truncate", f"keep{keep if keep < 27 else '-key'}"))
    # 3. extension
    out.append((ov, d + b"\x00", "extend", "1"))
    if not LEAN or rng.random() < 0.5:
        out.append((ov, d + bytes(rng.randrange(256) for _ in range(rng.randrange(2, 40))), "extend", "rand"))
    if not LEAN or rng.random() < 0.5:
        out.append((ov, d + d[-n:], "extend", "dup-sig"))
    out.append((ov, d[:-n] + b"\x00" + d[-n:], "extend", "before-sig"))
    # 4. key substitution (signature unchanged)
    apub = bytes(atk.pub().key_to_bin()) if hasattr(atk, "pub") else None
    if apub is not None:
        ksub = d[:23] + len(apub).to_bytes(2, "big") + apub + d[25 + kl:]
        out.append((ov, ksub, "key-substitution", "same-curve"))
        # 6. key substitution + re-signed by the substituted key: an AUTHENTIC datagram of the attacker's own key
        body = ksub[:-n]
        out.append((ov, body + bytes(atk.signature(body)), "key-substitution+resign", "authentic-other-key"))
    # 4b. substitution by keys that are SPECIAL to the receiver: its own key, and the key of a peer it has verified —
    #     with the old signature, with a signature by the attacker's key, with garbage of the right length
    atk25 = other_keys["curve25519"]
    specials = []
    if other_keys.get("__receiver__", {}).get(ov):
        specials.append(("receiver-own-key", other_keys["__receiver__"][ov], None))
    vk_ = fresh_key(ctx, rng.choice(["curve25519", pk["curve"]]))
    vpub = bytes(vk_.pub().key_to_bin())
    from ipv8.messaging.interfaces.udp.endpoint import UDPv4Address as _A4
    specials.append(("verified-victim-key", vpub,
                     [(vpub, _A4("10.%d.%d.%d" % (rng.randrange(1, 255), rng.randrange(256), rng.randrange(1, 255)),
                                 rng.randrange(1024, 65535)))]))
    for label, spub, pre_ in specials:
        sn = real_parse(spub)[1]
        head = d[:23] + len(spub).to_bytes(2, "big") + spub + d[25 + kl:-n]
        out.append((ov, head + d[-n:], "key-substitution", label + "/old-signature", pre_))
        out.append((ov, head + bytes(atk25.signature(head))[:sn].ljust(sn, b"\0"), "key-substitution",
                    label + "/attacker-signature", pre_))
        out.append((ov, head + bytes(rng.randrange(256) for _ in range(sn)), "key-substitution",
                    label + "/random-signature", pre_))
    for c2, k2 in other_keys.items():
        if c2 != pk["curve"] and not c2.startswith("__"):
            p2 = bytes(k2.pub().key_to_bin())
            out.append((ov, d[:23] + len(p2).to_bytes(2, "big") + p2 + d[25 + kl:], "key-substitution", "other-curve"))
            break
    # 5. signature from another key over the same bytes
    out.append((ov, d[:-n] + bytes(atk.signature(d[:-n]))[:n].ljust(n, b"\0"), "foreign-signature", "same-curve"))
    out.append((ov, d[:-n] + bytes(rng.randrange(256) for _ in range(n)), "foreign-signature", "random"))
    out.append((ov, d[:-n] + bytes(n), "foreign-signature", "zeros"))
    same_key = [q for q in pool if q["sk"] == pk["sk"] and q["data"] != d and spec_eval(q["data"])["canon"] is not None]
    if same_key:
        q = rng.choice(same_key)
        out.append((ov, d[:-n] + q["data"][-n:], "foreign-signature", "same-key-other-datagram"))
    # 7. payload splice
    if same_key:
        q = rng.choice(same_key)
        qs = spec_eval(q["data"])
        qpl = q["data"][25 + len(qs["key_field"]):-qs["n"]]
        out.append((ov, d[:25 + kl] + qpl + d[-n:], "payload-splice", "other-datagram"))
    lo, hi = reg["payload"]
    if hi - lo >= 2:
        a = rng.randrange(lo, hi - 1)
        b2 = rng.randrange(a + 1, hi)
        out.append((ov, d[:a] + d[b2:], "payload-splice", "delete"))
        out.append((ov, d[:a] + d[a:b2] + d[a:], "payload-splice", "duplicate"))
    # 8. prefix / msg-id swap, 9. replay into another overlay
    others = [t for name, t in sorted(tables_by_name.items()) if name != ov]
    for t in rng.sample(others, min(1 if LEAN else 2, len(others))):
        out.append((t["overlay"], t["prefix"] + d[22:], "prefix-swap", "to-" + t["overlay"]))
        out.append((t["overlay"], d, "replay-other-overlay", "to-" + t["overlay"]))
    tab = tables_by_name[ov]
    ids = [h["msg_id"] for h in tab["handlers"] if h["msg_id"] != d[22] and h["kind"] in ("signed", "signedWd", "raw")]
    fmt_of = lambda g: [list(map(str, c.format_list)) for c in g["payload_classes"]]  # noqa: E731
    mine = next((fmt_of(g) for g in tab["handlers"] if g["msg_id"] == d[22]), None)
    same_fmt = [h["msg_id"] for h in tab["handlers"] if h["msg_id"] != d[22] and h["kind"] in ("signed", "signedWd")
                and fmt_of(h) == mine]
    for m in sorted(set(rng.sample(ids, min(2, len(ids))) + same_fmt[:2])):
        out.append((ov, d[:22] + bytes([m]) + d[23:], "msgid-swap", "same-format" if m in same_fmt else "other-format"))
    unsigned_ids = [h["msg_id"] for h in tab["handlers"] if h["kind"] in ("unsigned", "unsignedWd")]
    if unsigned_ids:
        out.append((ov, d[:22] + bytes([rng.choice(unsigned_ids)]) + d[23:], "msgid-swap", "to-unsigned"))
    for kind_ in ("deprecated", "cell", "cellDirect"):
        km = [h["msg_id"] for h in tab["handlers"] if h["kind"] == kind_]
        if km:
            out.append((ov, d[:22] + bytes([rng.choice(km)]) + d[23:], "msgid-swap", "to-" + kind_))
    free_ids = sorted(set(range(256)) - {h["msg_id"] for h in tab["handlers"]})
    if free_ids:
        out.append((ov, d[:22] + bytes([rng.choice(free_ids)]) + d[23:], "msgid-swap", "to-unregistered"))
    # 10. strip authentication
    out.append((ov, d[:23] + d[25 + kl:-n], "strip-auth", "key+sig"))
    out.append((ov, d[:-n], "strip-auth", "sig-only"))
    out.append((ov, d[:23] + d[25 + kl:], "strip-auth", "key-only"))
    # 11. key-length field / non-canonical key encodings
    for newlen in sorted({0, kl + 1, 0xFFFF} if LEAN else {0, kl - 1, kl + 1, 0xFFFF, len(d)}):
        if 0 <= newlen <= 0xFFFF:
            out.append((ov, d[:23] + newlen.to_bytes(2, "big") + d[25:], "keylen-field", f"{'<' if newlen < kl else '>'}kl"))
    junk = bytes(rng.randrange(256) for _ in range(rng.randrange(1, 6)))
    nc = d[:23] + (kl + len(junk)).to_bytes(2, "big") + d[25:25 + kl] + junk + d[25 + kl:]
    out.append((ov, nc, "noncanonical-key", "junk-unsigned"))
    body = nc[:-n]
    out.append((ov, body + bytes(sk.signature(body)), "noncanonical-key", "junk-resigned-by-owner(authentic)"))
    # a SHORTER encoding of the same key pair (compressed point; signature longer than key field + 2), signed by the owner
    for ck in compressed_encodings(sp["key_field"]):
        body = d[:23] + len(ck).to_bytes(2, "big") + ck + d[25 + kl:-n]
        sg_ = bytes(sk.signature(body))
        if spec_eval(body + sg_)["authentic"]:
            out.append((ov, body + sg_, "noncanonical-key", "compressed-point-resigned-by-owner(authentic)"))
            out.append((ov, body + d[-n:], "noncanonical-key", "compressed-point-old-signature"))
            if real_parse(ck)[1] > 25 + len(ck) + 8:
                # the key's signature length exceeds the whole datagram: `data[:-n]` is empty, `data[-n:]` is everything
                out.append((ov, d[:23] + len(ck).to_bytes(2, "big") + ck + bytes(8), "noncanonical-key",
                            "compressed-point-datagram-shorter-than-signature"))
            head2 = d[:23] + len(ck).to_bytes(2, "big") + ck       # no payload at all: the signed part is header + key only
            out.append((ov, head2 + bytes(sk.signature(head2)), "noncanonical-key", "compressed-point-no-payload(authentic)"))
    return out


def identity_cases(ctx: Ctx, pk: dict):
    """Who is the Peer?  An AUTHENTIC datagram of a fresh key B (the captured datagram with B's key substituted and
    re-signed by B) is delivered while the receiver's Network is in each combination of
        signer B:  unknown | already verified (recorded at address R)
        source  :  never seen | the address at which ANOTHER verified peer A is recorded | R
    The handler must be handed B in every combination, and only B may become verified."""
    from ipv8.keyvault.crypto import _CURVES
    from ipv8.messaging.interfaces.udp.endpoint import UDPv4Address
    r = rust()
    rng = ctx.rng
    d = pk["data"]
    sp = spec_eval(d)
    if sp["canon"] is None or sp["n"] >= len(d) - 25:
        return []
    kl, n = len(sp["key_field"]), sp["n"]
    out = []

    def addr():
        return UDPv4Address("10.%d.%d.%d" % (rng.randrange(1, 255), rng.randrange(256), rng.randrange(1, 255)),
                            rng.randrange(1024, 65535))
    for signer, src in (("unknown", "fresh"), ("unknown", "other-peers-address"), ("known", "own-recorded-address"),
                        ("known", "fresh"), ("known", "other-peers-address")):
        kb_ = fresh_key(ctx, pk["curve"])
        ka_ = fresh_key(ctx, rng.choice(["curve25519", pk["curve"]]))
        bpub, apub = bytes(kb_.pub().key_to_bin()), bytes(ka_.pub().key_to_bin())
        body = d[:23] + len(bpub).to_bytes(2, "big") + bpub + d[25 + kl:-n]
        data = body + bytes(kb_.signature(body))
        x, rr = addr(), addr()
        pre = []
        if src == "other-peers-address":
            pre.append((apub, x))
        if signer == "known":
            pre.append((bpub, x if src == "own-recorded-address" else rr))
        out.append({"target": pk["overlay"], "data": data, "op": "identity-matrix", "cls": f"signer-{signer}/src-{src}",
                    "origin": pk["overlay"], "curve": pk["curve"], "src": x, "pre": pre})
    return out


BLACKLIST = b"__blacklist__"      # pseudo key in a `pre` list: the address is put into Network.blacklist (bootstrap servers)


def apply_pre(node, pre):
    from ipv8.peer import Peer
    for pub, a in pre:
        if pub == BLACKLIST:
            node.overlay.network.blacklist.append(a)
            continue
        p = Peer(pub, a)
        node.overlay.network.add_verified_peer(p)
        node.overlay.network.discover_services(p, [node.overlay.community_id])


def undo_pre(node, pre, extra_keys=()):
    net = node.overlay.network
    for pub, a in pre:
        if pub == BLACKLIST:
            while a in net.blacklist:
                net.blacklist.remove(a)
    for pub in [k for k, _ in pre if k != BLACKLIST] + list(extra_keys):
        p = net.verified_by_public_key_bin.get(pub)
        if p is not None:
            net.remove_peer(p)


# ------------------------------------------------------------------------------------------------ receivers
class Receivers:
    def __init__(self, tables, obs: Observer):
        self.tables = {t["overlay"]: t for t in tables}
        self.obs = obs
        self.nodes = {}

    def get(self, name):
        if name not in self.nodes:
            t = self.tables[name]
            node = gen_c01.make_node(t["cls"])
            node.endpoint.send = lambda addr, packet: None       # answers go nowhere
            node.overlay.max_peers = -1      # configuration, not code: the receivers see hundreds of peers in one run and the
            #                                  max_peers gates (raw discovery handler, on_introduction_request) are not C01's subject
            self.nodes[name] = node
            node._c01_async_handlers = any(asyncio.iscoroutinefunction(getattr(h["func"], "__func__", h["func"]))
                                           for h in t["handlers"])
            self.register_targets(node, t)
        return self.nodes[name]

    def register_targets(self, node, t):
        from ipv8.peerdiscovery.network import Network
        for h in t["handlers"]:
            f = h["func"]
            f = getattr(f, "__func__", f)
            if h["kind"] in ("signed", "signedWd", "unsigned", "unsignedWd"):
                self.obs.add(f.__code__, ("handler", h["kind"]))
            elif h["kind"] == "raw":
                self.obs.add(f.__code__, ("raw-entry", h["kind"]))
        self.obs.add(Network.add_verified_peer.__code__, ("add_verified_peer", ""))
        from ipv8.peer import Peer
        self.obs.add(Peer.add_address.__code__, ("add_address", ""))

    async def stop(self):
        for n in self.nodes.values():
            try:
                await n.stop()
            except BaseException:
                pass


def handler_for(table, data: bytes):
    if len(data) < 23 or data[:22] != table["prefix"]:
        return None
    return next((h for h in table["handlers"] if h["msg_id"] == data[22]), None)


def RAW_FORMATS():
    from ipv8.messaging.payload import IntroductionRequestPayload
    from ipv8.messaging.payload_headers import GlobalTimeDistributionPayload
    from ipv8.peerdiscovery.payload import DiscoveryIntroductionRequestPayload
    return ([GlobalTimeDistributionPayload, DiscoveryIntroductionRequestPayload],
            [GlobalTimeDistributionPayload, IntroductionRequestPayload])


def decode_bit(node, classes, buf: bytes) -> bool:
    try:
        if node is None:
            from ipv8.messaging.serialization import default_serializer
            default_serializer.unpack_serializable_list(classes, buf, offset=23)
            return True
        node.overlay.serializer.unpack_serializable_list(classes, buf, offset=23)
        return True
    except BaseException:
        return False


def peer_state(p):
    """the part of a stored Peer that says where it is (never its liveness timestamps)"""
    return tuple(sorted((c.__name__, tuple(a)) for c, a in p.addresses.items())), tuple(p.address)


def _hand_over(overlay, src, template: bytearray):
    """what a transport does: a FRESH bytes object per packet, dropped after the listeners returned.
    (Allocation matters to code that remembers id(data): CPython reuses the block of a freed object.)"""
    tmp = bytes(template)
    ident = id(tmp)
    try:
        overlay.on_packet((src, tmp))
    finally:
        del tmp
    return ident


async def deliver(node, obs: Observer, src, data: bytes, watch=(), prelude: bytes | None = None):
    net = node.overlay.network
    template = bytearray(data)          # made BEFORE the prelude object is freed, so that the only allocation between the
    reused = None                       # two hand-overs is the datagram object itself
    if prelude is not None:
        # back-to-back pair: an authentic datagram is processed and freed, the next packet to arrive is `data`
        obs.active = False
        pt = bytearray(prelude)
        try:
            id1 = _hand_over(node.overlay, src, pt)
        except BaseException:
            id1 = None
        if getattr(node, "_c01_async_handlers", False):
            await asyncio.sleep(0)      # its handlers are coroutines: let the prelude's handler start before we look
            await asyncio.sleep(0)
        reused = id1
    before = set(net.verified_by_public_key_bin.keys())
    before_peers = {bytes(p.public_key.key_to_bin()) for p in net.verified_peers}
    watched = {}
    for k in watch:
        pr = net.verified_by_public_key_bin.get(k)
        if pr is not None:
            watched[bytes(k)] = (pr, peer_state(pr), pr.last_response,
                                 any(tuple(a) == tuple(src) for a in pr.addresses.values()))
    obs.events = []
    obs.current = data
    obs.active = True
    try:
        try:
            id2 = _hand_over(node.overlay, src, template)
            if reused is not None:
                obs.reuse = getattr(obs, "reuse", 0) + (1 if id2 == reused else 0)
                obs.pairs = getattr(obs, "pairs", 0) + 1
        except BaseException as e:      # escapes on_packet's own try (e.g. IndexError on data[22]): C03's business
            obs.events.append((("escaped", type(e).__name__), None, {}, None, ""))
        await asyncio.sleep(0)
        await asyncio.sleep(0)
    finally:
        obs.active = False
    after = set(net.verified_by_public_key_bin.keys())
    after_peers = {bytes(p.public_key.key_to_bin()) for p in net.verified_peers}
    moved = [k for k, (pr, st, _lr, _at) in watched.items() if peer_state(pr) != st]
    # liveness credited to a stored Peer that is NOT recorded at the datagram's source address: the credit then comes from
    # what the datagram says (the credit by transport address alone is seen, not judged)
    obs.credited = [k for k, (pr, _st, lr, at_src) in watched.items() if pr.last_response != lr and not at_src]
    return list(obs.events), (after - before) | (after_peers - before_peers), moved


# Every branch of the HAND-WRITTEN model definitions (onPacket, unpackVarlenH/keyField, pySlice, discRaw, the interpreter's
# stages per wrapper kind, touchedBy) that carries a clause of the property.  They are tied to the code only by the
# correspondence, so every one of them must be reached in every run: a class that stays at zero ends the run with exit 2.
REQUIRED_BRANCHES = [
    "onPacket:dropped-prefix", "onPacket:dropped-short", "onPacket:no-handler", "onPacket:other:deprecated",
    "onPacket:handler:signed", "onPacket:handler:signedWd", "onPacket:handler:unsigned", "onPacket:handler:raw",
    "keyField:no-room-for-length-bytes", "keyField:declared-length-beyond-datagram", "keyField:ok",
    "parse:fails", "parse:canonical", "parse:non-canonical-encoding",
    "pySlice:signature-fits", "pySlice:signature-longer-than-datagram",
    "signed:rejected-decode", "signed:rejected-signature", "signed:called-lookup-miss", "signed:called-lookup-hit",
    "signedWd:rejected-decode", "signedWd:rejected-signature", "signedWd:called-lookup-miss", "signedWd:called-lookup-hit",
    "unsigned:called-addr", "unsigned:rejected-decode",
    "discRaw:first-format", "discRaw:second-format", "discRaw:rejected-signature", "discRaw:rejected-decode-both",
    "discRaw:rejected-keyparse", "touchedBy:some", "touchedBy:none-for-a-called-handler",
]


def model_branches(rep: str, c: dict, h, touched: bool):
    """which branches of the hand-written model definitions the datagram of case `c` takes (from the model's reply and the
    answers the harness gave to the model's questions)"""
    out = []
    head = rep.split(" ")[0]
    data = c["data"]
    if head in ("dropped-prefix", "dropped-short", "no-handler"):
        return ["onPacket:" + head]
    if head == "other":
        return ["onPacket:other:" + rep.split(" ")[1]]
    if h is None:
        return out
    kind = h["kind"]
    out.append("onPacket:handler:" + kind)
    if kind in ("unsigned", "unsignedWd"):
        out.append(f"{kind}:{'called-addr' if head == 'called-addr' else 'rejected-decode'}")
        return out
    if c.get("m_kf") is None:
        out.append("keyField:no-room-for-length-bytes" if len(data) < 25 else "keyField:declared-length-beyond-datagram")
        return out
    out.append("keyField:ok")
    if not c.get("m_parse"):
        out.append("parse:fails")
        if kind == "raw":
            out.append("discRaw:rejected-keyparse")
        return out
    out.append("parse:canonical" if c["m_parse"][2] == c["m_kf"] else "parse:non-canonical-encoding")
    out.append("pySlice:signature-fits" if c["m_parse"][1] <= len(data) else "pySlice:signature-longer-than-datagram")
    if kind in ("signed", "signedWd"):
        if head == "called":
            out.append(f"{kind}:called-lookup-{'hit' if c.get('net_hit') else 'miss'}")
            out.append("touchedBy:some" if touched else "touchedBy:none-for-a-called-handler")
        elif rep.startswith("rejected"):
            out.append(f"{kind}:rejected-{rep.split(' ')[1]}")
    elif kind == "raw":
        dec = c.get("dec", "00")
        if head == "called":
            out.append("discRaw:first-format" if dec[0] == "1" else "discRaw:second-format")
        elif rep == "rejected signature":
            out.append("discRaw:rejected-signature")
        elif rep == "rejected decode":
            out.append("discRaw:rejected-decode-both")
    return out


def primitives_phase(ctx: Ctx, drv, scale):
    """`pySlice` vs CPython slicing and `unpackVarlenH` vs the live varlenH packer: every (length <= 4, lo, hi in
    {omitted, -7..7}) combination, every small (declared length, actual length, offset) combination, plus random ones"""
    from ipv8.messaging.serialization import default_serializer
    rng = ctx.rng
    strict = "1" if gen_c01.probe_varlen_strict() else "0"
    packer = default_serializer.get_packer_for("varlenH")
    lines, want = [], []
    bounds = [None, *range(-7, 8)]
    for ln in range(5):
        d = bytes(range(1, ln + 1))
        for lo in bounds:
            for hi in bounds:
                lines.append(f"slice {d.hex() or '-'} {'-' if lo is None else lo} {'-' if hi is None else hi}")
                want.append(d[lo:hi].hex() or "-")
    for _ in range(scale.get("primitive_random", 300)):
        d = bytes(rng.randrange(256) for _ in range(rng.choice([0, 1, 23, 24, 25, 26, 60, 150, 300])))
        lo = rng.choice([None, rng.randrange(-400, 400), 2 + rng.randrange(200)])
        hi = rng.choice([None, -rng.randrange(0, 200), rng.randrange(-400, 400)])
        lines.append(f"slice {d.hex() or '-'} {'-' if lo is None else lo} {'-' if hi is None else hi}")
        want.append(d[lo:hi].hex() or "-")
    ctx.count("primitive:slice", len(lines))

    def real_varlen(d, off):
        out = []
        try:
            end = packer.unpack(d, off, out)
            return f"{out[0].hex() or '-'} {end}"
        except BaseException:
            return "err"
    nv = 0
    for declared in range(6):
        for actual in range(7):
            for off in range(4):
                for have_len_bytes in (0, 1, 2):
                    d = bytes(off) + declared.to_bytes(2, "big")[:have_len_bytes] + bytes(range(10, 10 + actual))
                    lines.append(f"varlen {strict} {d.hex() or '-'} {off}")
                    want.append(real_varlen(d, off))
                    nv += 1
    for _ in range(scale.get("primitive_random", 300)):
        off = rng.choice([0, 1, 23, 23, 23, 40])
        body = bytes(rng.randrange(256) for _ in range(rng.randrange(0, 120)))
        declared = rng.choice([len(body), len(body), max(0, len(body) - 1), len(body) + 1, 0, 65535, rng.randrange(0, 300)])
        d = bytes(rng.randrange(256) for _ in range(off)) + declared.to_bytes(2, "big") + body
        if rng.random() < 0.15:
            d = d[:off + rng.randrange(0, 3)]
        lines.append(f"varlen {strict} {d.hex() or '-'} {off}")
        want.append(real_varlen(d, off))
        nv += 1
    ctx.count("primitive:varlen", nv)
    for ln, rep, w in zip(lines, drv.batch(lines), want):
        if rep != w:
            ctx.count("primitive:disagree")
            ctx.disagree(f"hand-written primitive differs from the real one on `{ln[:120]}`: model `{rep[:80]}` real `{w[:80]}`",
                         {"line": ln, "model": rep, "real": w})
            break
    ctx.evaluations += len(lines)


async def history_phase(ctx: Ctx, drv, steps, tbn):
    from ipv8.messaging.anonymization.pex import PexCommunity, PexSettings
    node = gen_c01.make_node(tbn["DiscoveryCommunity"]["cls"])
    node.endpoint.send = lambda addr, packet: None
    pex = PexCommunity(PexSettings(my_peer=node.my_peer, endpoint=node.endpoint, network=node.network,
                                   info_hash=b"\x07" * 20))
    overlays = {"DiscoveryCommunity": node.overlay, "PexCommunity": pex}
    for ov in overlays.values():
        ov.max_peers = -1
    if bytes(pex.get_prefix()) != tbn["PexCommunity"]["prefix"] or pex.network is not node.overlay.network:
        ctx.count("history:setup-mismatch")
        return
    lines, impl = ["hist-reset"], [None]
    signed_for = {name: set() for name in overlays}     # keys that signed a datagram carrying THAT overlay's prefix
    delivered = []

    def membership_oracle(label):
        # an overlay counts a key among its peers (get_peers(): services_per_peer) only if that key signed for that overlay
        for name, ov in overlays.items():
            for p_ in ov.get_peers():
                k_ = bytes(p_.public_key.key_to_bin())
                if k_ not in signed_for[name]:
                    ctx.oracle_fail(f"{name}:overlay-membership-unauthenticated",
                                    f"{name}.get_peers() contains {k_.hex()[:24]}… although that key never signed a datagram "
                                    f"carrying {name}'s prefix (two overlays sharing one Network; after step `{label}`)",
                                    {"overlay": name, "then": "strategies", "scenario": "history",
                                     "history": [{"overlay": o_, "src": list(s_), "data": d_.hex(), "verified_before": []}
                                                 for o_, s_, d_ in delivered[-12:]]})
                    return False
        return True
    for c in steps:
        data, tgt = c["data"], c["target"]
        h = handler_for(tbn[tgt], data)
        dec = "00"
        if h is not None and c.get("m_rem") is not None:
            if h["kind"] == "raw":
                dec = "".join("1" if decode_bit(None, fm, c["m_rem"]) else "0" for fm in RAW_FORMATS())
            elif h["kind"] in ("signed", "signedWd"):
                dec = "1" if decode_bit(None, h["payload_classes"], c["m_rem"]) else "0"
        try:
            overlays[tgt].on_packet((c["src"], bytes(bytearray(data))))
        except BaseException:
            pass
        await asyncio.sleep(0)
        sp_ = spec_eval(data)
        if sp_["authentic"] and data[:22] == tbn[tgt]["prefix"]:
            signed_for[tgt].add(sp_["canon"])
        delivered.append((tgt, tuple(c["src"]), data))
        membership_oracle(c["cls"])
        net = node.overlay.network
        keys = {bytes(k) for k in net.verified_by_public_key_bin} | {bytes(p.public_key.key_to_bin()) for p in net.verified_peers}
        impl.append("verified " + " ".join(sorted(k.hex() for k in keys)))
        pa = "none" if not c.get("m_parse") else f"{c['m_parse'][1]}:{c['m_parse'][2].hex()}"
        lines.append(f"hist {tgt} {data.hex()} {pa} {1 if c.get('m_verify') else 0} {dec}")
        ctx.count(f"history:step:{c['cls']}")
        ctx.case(("history", tgt, data[22], c["cls"]), True)
    replies = drv.batch(lines)        # one driver process: the Node state lives in it
    for i, (ln, rep, im) in enumerate(zip(lines, replies, impl)):
        if im is None:
            continue
        if rep.strip() != im.strip():
            ctx.count("history:disagree")
            ctx.disagree(f"history step {i} ({steps[i - 1]['cls']} to {steps[i - 1]['target']}): model key index `{rep[:120]}` vs "
                         f"implementation `{im[:120]}`",
                         {"history": [{"overlay": s_["target"], "src": list(s_["src"]), "data": s_["data"].hex()}
                                      for s_ in steps[:i]]})
            break
    ctx.count("history:final-keys", len(impl[-1].split(" ")) - 1 if impl[-1] else 0)
    # a member M of ONE overlay (its own key, authentic datagram) names the ADDRESS of a key that is verified through the
    # OTHER overlay in an introduction-response: that key must not thereby become a peer of M's overlay
    try:
        from ipv8.peer import Peer as _P
        net = node.overlay.network
        victims = [p_ for p_ in node.overlay.get_peers() if bytes(p_.public_key.key_to_bin()) not in signed_for["PexCommunity"]]
        if victims:
            v_ = victims[0]
            m_node = gen_c01.make_node(tbn["PexCommunity"]["cls"])
            me = node.endpoint.wan_address
            for new_style in (False, True):
                pkt = m_node.overlay.create_introduction_response(me, me, 77, introduction=_P(v_.public_key, v_.address),
                                                                  new_style=new_style)
                pex.on_packet((m_node.endpoint.wan_address, bytes(bytearray(pkt))))
                await asyncio.sleep(0)
                signed_for["PexCommunity"].add(bytes(m_node.my_peer.public_key.key_to_bin()))
                delivered.append(("PexCommunity", tuple(m_node.endpoint.wan_address), bytes(pkt)))
                ok_ = membership_oracle("introduction-response naming the address of a key verified via the other overlay")
                ctx.count(f"history:cross-overlay-introduction:{'clean' if ok_ else 'VOUCHED'}")
                ctx.case(("history", "cross-overlay-introduction", new_style), True)
            await m_node.stop()
        else:
            ctx.count("history:cross-overlay-introduction:no-victim")
    except BaseException as e:
        ctx.count(f"history:cross-overlay-introduction:error:{type(e).__name__}")
    try:
        await pex.unload()
        await node.stop()
    except BaseException:
        pass


def fresh_key(ctx: Ctx, curve: str):
    """Rust private key; curve25519 keys are derived from ctx.rng (reproducible from VERIF_SEED), the sect curves can only
    be generated from OS entropy by the library (their signatures are randomised anyway)"""
    from ipv8.keyvault.crypto import _CURVES
    r = rust()
    if curve == "curve25519":
        return r.PrivateKey(b"LibNaCLSK:" + bytes(ctx.rng.randrange(256) for _ in range(64)))
    return r.PrivateKey.generate(_CURVES[curve])


async def run_strategies(ctx: Ctx, recv, auth_keys: dict, accepted: dict, scenario: str | None = None):
    out = {"strategies_run": 0, "receivers": 0, "unauthenticated_keys": 0}
    for name, node in sorted(recv.nodes.items()):
        ov = node.overlay
        net = ov.network
        before = {bytes(k) for k in net.verified_by_public_key_bin} | \
                 {bytes(p.public_key.key_to_bin()) for p in net.verified_peers}
        try:
            strategies = dict(ov.get_available_strategies())
        except BaseException:
            strategies = {}
        try:
            from ipv8.peerdiscovery.discovery import EdgeWalk, RandomWalk
            strategies.setdefault("RandomWalk", RandomWalk)
            strategies.setdefault("EdgeWalk", EdgeWalk)
        except BaseException:
            pass
        out["receivers"] += 1
        for sname, scls in sorted(strategies.items()):
            try:
                st = scls(ov)
                for _ in range(2):
                    st.take_step()
                    await asyncio.sleep(0)
                    await asyncio.sleep(0)
                out["strategies_run"] += 1
                ctx.count(f"late:strategy:{sname}")
            except BaseException as e:
                ctx.count(f"late:strategy-failed:{sname}:{type(e).__name__}")
        after = {bytes(k) for k in net.verified_by_public_key_bin} | \
                {bytes(p.public_key.key_to_bin()) for p in net.verified_peers}
        ok = auth_keys.get(name, set())
        for k in sorted((after - before) | ((before - ok) if scenario else set())):
            kc = (real_parse(k) or (None, None, k))[2]
            if kc in ok:
                continue
            out["unauthenticated_keys"] += 1
            hist = [(s_, d_, pre_) for (s_, d_, pre_) in accepted.get(name, []) if k in d_ or kc in d_][-20:]
            ctx.oracle_fail(f"{name.split('#')[0]}:verified-peer-unauthenticated-late",
                            f"{name}: after its maintenance strategies ran, verified_by_public_key_bin holds {k.hex()[:24]}… "
                            f"which no delivered datagram authenticated (it was only NAMED in {len(hist)} accepted datagram(s))",
                            {"overlay": name.split("#")[0], "late_key": k.hex(), "then": "strategies", "scenario": scenario,
                             "history": [{"src": list(s_), "data": d_.hex(),
                                          "verified_before": [[a.hex(), list(b)] for a, b in pre_]} for s_, d_, pre_ in hist]})
    return out


# ------------------------------------------------------------------------------------------------ main run
def auth_required_set(spec):
    return {(o, int(m)) for o, ms in spec["auth_required"].items() for m in ms}


def _phase(ctx: Ctx, name: str):
    """wall-clock per phase, for the evidence (never used for a verdict)"""
    import time as _t
    now = _t.time()
    ph = ctx.extra.setdefault("phase_seconds", {})
    last = ctx.extra.get("_phase_last")
    if last:
        ph[last[0]] = round(ph.get(last[0], 0) + now - last[1], 2)
    ctx.extra["_phase_last"] = (name, now)


async def run_async(ctx: Ctx, use_model: bool, scale: dict):
    from ipv8.messaging.payload_headers import GlobalTimeDistributionPayload
    import ipv8.peerdiscovery.payload as pdp
    import ipv8.messaging.payload as mp
    logging.disable(logging.CRITICAL)
    global LEAN
    LEAN = bool(scale.get("lean", False))
    _random.seed(ctx.rng.getrandbits(64))
    tables = _INFO.get("tables") or gen_c01.collect_tables()
    spec = _INFO.get("spec") or gen_c01.load_spec()
    required = auth_required_set(spec)
    tbn = {t["overlay"]: t for t in tables}
    r = rust()

    # the observer runs from the start: forged datagrams are also interleaved into the protocol runs of the capture phase
    obs = Observer()
    recv = Receivers(tables, obs)
    for t_ in tables:
        recv.register_targets(None, t_)
    obs.start()
    inject = {"obs": obs, "ctx": ctx, "required": required, "seen": {}, "per_id": scale.get("interleave_per_id", 2),
              "busy": False}
    _phase(ctx, "capture")
    # ---- capture ---------------------------------------------------------------------------------------------
    packets = await capture_all(ctx, tables, scale["capture_rounds"], inject=inject)
    have = {(p["overlay"], p["data"][22]) for p in packets if len(p["data"]) > 22}
    if required - have:          # a scenario step timed out on a loaded machine: try once more before giving up
        ctx.count("capture:retry")
        packets += await capture_all(ctx, tables, 1)
    signed = []
    seen_pairs = {}
    for p in packets:
        d = p["data"]
        t = tbn[p["overlay"]]
        h = handler_for(t, d)
        ctx.count(f"captured:{'signed' if (p['overlay'], d[22]) in required else 'unsigned'}")
        if h is None or (p["overlay"], d[22]) not in required:
            continue
        sp = spec_eval(d)
        if not sp["authentic"]:
            # a sender of the working tree produced an unauthentic datagram for an authenticated id; it is still
            # delivered (unmodified and mutated): if a handler accepts it, that is a violation with a concrete input
            ctx.count("captured:signed-but-not-authentic")
        # one base datagram per (overlay, msg id, sender curve, payload shape): which of the handler's decoders accepts the
        # payload (the raw handler has two formats) and a coarse length class
        shape = ""
        if h["kind"] == "raw":
            rem_ = bytes(23) + d[25 + len(sp["key_field"]):-sp["n"]] if sp["canon"] else b""
            shape = "".join("1" if decode_bit(None, fm, rem_) else "0" for fm in RAW_FORMATS())
        key = (p["overlay"], d[22], p["curve"], shape)
        seen_pairs[key] = seen_pairs.get(key, 0) + 1
        if seen_pairs[key] <= scale["per_pair"]:
            signed.append(p)
    covered = {(o, m) for (o, m, *_rest) in seen_pairs}
    ctx.extra["auth_pairs_required"] = len(required)
    ctx.extra["auth_pairs_with_captured_datagram"] = len(covered & required)
    ctx.extra["auth_pairs_without_captured_datagram"] = sorted(f"{o}:{m}" for o, m in required - covered)
    ctx.extra["captured_datagrams"] = len(packets)
    ctx.extra["captured_signed_used"] = len(signed)

    # attacker keys, one per curve in use
    other_keys = {}
    for lvl in ("curve25519", "very-low", "low", "medium", "high"):
        other_keys[lvl] = fresh_key(ctx, lvl)
    # the receivers exist before the mutants are made: some mutants name the receiver's own key
    other_keys["__receiver__"] = {name: bytes(recv.get(name).my_peer.public_key.key_to_bin()) for name in tbn}

    _phase(ctx, "mutants")
    # ---- mutants ---------------------------------------------------------------------------------------------
    cases = []
    for i, p in enumerate(signed):
        if i % scale.get("base_stride", 1):
            continue
        every = scale["every_byte_upto"] and len(p["data"]) <= scale["every_byte_upto"] \
            and i % scale["every_byte_stride"] == 0
        for tgt, data, op, cls_name, *more in mutants_of(ctx, p, signed, tbn, other_keys, scale["flips"], bool(every)):
            cases.append({"target": tgt, "data": data, "op": op, "cls": cls_name, "origin": p["overlay"],
                          "signer": spec_eval(p["data"])["canon"], "pre": (more[0] if more and more[0] else None),
                          "curve": p["curve"], "src": p["src"]})
    # -- receiver-state dimension: what the receiver already believes about the SOURCE ADDRESS of the mutant ------------
    #    as-captured (nobody verified there, unless an earlier accepted datagram put the sender there) |
    #    another verified peer A sits at the source address | the original signer is verified at the source address.
    #    Dispatch-level mutants (replay into another overlay, prefix swap, flipped prefix / msg-id byte, cut-to-header)
    #    get all three states; every other mutant gets one state drawn at random.
    from ipv8.keyvault.crypto import _CURVES as _CV
    from ipv8.messaging.interfaces.udp.endpoint import UDPv4Address
    extra = []
    for c in cases:
        dispatch_level = c["op"] in ("replay-other-overlay", "prefix-swap", "unmodified") or \
            (c["op"] == "bitflip" and c["cls"] in ("prefix", "msgid"))
        src = UDPv4Address(*c["src"])
        okey = c.get("signer")

        def with_state(cc, state):
            cc = dict(cc)
            cc["srcstate"] = state
            if state == "other-verified-peer-at-src":
                cc["pre"] = (cc.get("pre") or []) + [(bytes(fresh_key(ctx, "curve25519").pub().key_to_bin()), src)]
            elif state == "signer-verified-at-src" and okey is not None:
                cc["pre"] = (cc.get("pre") or []) + [(okey, src)]
            elif state == "source-blacklisted":
                cc["pre"] = (cc.get("pre") or []) + [(BLACKLIST, src)]
            elif state == "signer-verified-elsewhere" and okey is not None:
                cc["pre"] = (cc.get("pre") or []) + [(okey, UDPv4Address("10.%d.%d.%d" % (ctx.rng.randrange(1, 255), ctx.rng.randrange(256),
                                                                 ctx.rng.randrange(1, 255)), ctx.rng.randrange(1024, 65535)))]
            return cc
        if dispatch_level:
            c["srcstate"] = "as-captured"
            extra.append(with_state(c, "other-verified-peer-at-src"))
            if c["op"] in ("unmodified", "replay-other-overlay"):
                extra.append(with_state(c, "source-blacklisted"))
            if okey is not None:
                extra.append(with_state(c, "signer-verified-at-src"))
                extra.append(with_state(c, "signer-verified-elsewhere"))
        else:
            st = ctx.rng.choice(["as-captured", "other-verified-peer-at-src", "signer-verified-at-src",
                                 "signer-verified-elsewhere", "signer-verified-elsewhere", "source-blacklisted"])
            if st != "as-captured" and (st in ("other-verified-peer-at-src", "source-blacklisted") or okey is not None):
                c.update(with_state(c, st))
            else:
                c["srcstate"] = "as-captured"
    cases.extend(extra)
    for i, p in enumerate(signed):
        if i % scale["identity_stride"] == 0:
            cases.extend(identity_cases(ctx, p))
    # -- back-to-back pairs: an authentic datagram is processed and its object freed; the very next packet is a forged one of
    #    the SAME length (flipped payload byte / another key of the same length with a random signature).  Transports hand
    #    over a fresh object per packet, so the forged one typically gets the memory block — and id() — of the freed one.
    for i, p in enumerate(signed):
        if i % scale.get("pair_stride", 1):
            continue
        d = p["data"]
        spb = spec_eval(d)
        if not spb["authentic"]:
            continue
        kl_, n_ = len(spb["key_field"]), spb["n"]
        lo, hi = 25 + kl_, len(d) - n_
        forged = []
        if hi > lo:
            j = ctx.rng.randrange(lo, hi)
            forged.append(("flipped-payload", d[:j] + bytes([d[j] ^ 0x01]) + d[j + 1:]))
        ak = bytes(fresh_key(ctx, "curve25519").pub().key_to_bin())
        if len(ak) == kl_:
            forged.append(("other-key-random-signature",
                           d[:25] + ak + d[25 + kl_:-n_] + bytes(ctx.rng.randrange(256) for _ in range(n_))))
        vk_ = bytes(fresh_key(ctx, p["curve"]).pub().key_to_bin())
        if len(vk_) == kl_:
            # names ANOTHER key but is signed by the sender of the datagram just before it, from the same address
            body_ = d[:25] + vk_ + d[25 + kl_:-n_]
            forged.append(("other-key-signed-by-previous-sender", body_ + bytes(r.PrivateKey(p["sk"]).signature(body_))))
        for lab, fd in forged:
            cases.append({"target": p["overlay"], "data": fd, "op": "back-to-back", "cls": lab, "origin": p["overlay"],
                          "curve": p["curve"], "src": p["src"], "prelude": d, "srcstate": "after-authentic-datagram"})
    # -- a HISTORY for the node model (`Node.recv` / `history_sound`): two overlays that share one Network, fed a sequence of
    #    forged and authentic introduction datagrams of several keys; after every step the model's verified-key set is
    #    compared with the implementation's key index
    hist_cases = []
    for p in signed:
        if p["overlay"] not in ("DiscoveryCommunity", "PexCommunity") or p["data"][22] not in (233, 234, 245, 246):
            continue
        d = p["data"]
        spb = spec_eval(d)
        if not spb["authentic"]:
            continue
        kl_, n_ = len(spb["key_field"]), spb["n"]
        other = "PexCommunity" if p["overlay"] == "DiscoveryCommunity" else "DiscoveryCommunity"
        ak = fresh_key(ctx, "curve25519")
        apub = bytes(ak.pub().key_to_bin())
        body = d[:23] + len(apub).to_bytes(2, "big") + apub + d[25 + kl_:-n_]
        swapped = tbn[other]["prefix"] + body[22:]
        for tgt_, dd, lab in ((p["overlay"], d[:-1] + bytes([d[-1] ^ 1]), "forged"), (p["overlay"], d, "authentic"),
                              (other, d, "foreign-prefix"), (p["overlay"], body + bytes(ak.signature(body)), "authentic-new-key"),
                              (other, swapped + bytes(ak.signature(swapped)), "authentic-new-key-other-overlay"),
                              (p["overlay"], d, "authentic-again")):
            hist_cases.append({"target": tgt_, "data": dd, "op": "history", "cls": lab, "origin": p["overlay"],
                               "curve": p["curve"], "src": p["src"], "hist": True})
    cases.extend(hist_cases[:scale.get("history_steps", 60)])
    # unsigned datagrams are delivered unmodified (they must keep working and must never yield a Peer)
    uns = [p for p in packets if (p["overlay"], p["data"][22]) not in required]
    for p in uns[:scale["unsigned_samples"]]:
        cases.append({"target": p["overlay"], "data": p["data"], "op": "unsigned-unmodified", "cls": "-",
                      "origin": p["overlay"], "curve": p["curve"], "src": p["src"]})

    _phase(ctx, "passAB")
    # ---- model pass A/B (what the model will ask the crypto) ----------------------------------------------------
    drv = ctx.driver() if use_model else None
    if drv:
        kf = drv.batch([f"keyfield {c['data'].hex() or '-'}" for c in cases])
        for c, k in zip(cases, kf):
            c["m_kf"] = None if k == "err" else (b"" if k == "-" else bytes.fromhex(k))
            c["m_parse"] = real_parse(c["m_kf"]) if c["m_kf"] is not None else None
        qs = drv.batch([f"query {c['data'].hex() or '-'} {c['m_parse'][1] if c['m_parse'] else 0}" for c in cases])
        for c, q in zip(cases, qs):
            if q == "err" or c["m_parse"] is None:
                c["m_verify"], c["m_rem"] = False, None
                continue
            m, s, rem = [b"" if x == "-" else bytes.fromhex(x) for x in q.split(" ")]
            try:
                c["m_verify"] = bool(c["m_parse"][0].verify(s, m))
            except BaseException:
                c["m_verify"] = False
            c["m_rem"] = rem

    _phase(ctx, "deliveries")
    # ---- deliveries + oracle ---------------------------------------------------------------------------------
    obs.start()
    keys_seen = {}
    lines, expected = [], []
    hyp_live = {"entries_checked": 0, "netok_violations": 0}
    exact_seen = set()
    last_delivered = {}
    auth_keys = {}          # receiver -> keys authenticated by some delivered datagram carrying its prefix
    accepted = {}           # receiver -> [(src, data)] of deliveries that entered a handler (for history replays)
    try:
        for c in cases:
            if c.get("hist"):
                continue
            data, tgt = c["data"], c["target"]
            node = recv.get(tgt)
            t = tbn[tgt]
            h = handler_for(t, data)
            sp = spec_eval(data)
            if sp["canon"] is not None:
                keys_seen[sp["key_field"]] = (sp["canon"], sp["n"])
            pre = c.get("pre") or []
            if pre:
                apply_pre(node, pre)
            net_hit = None
            pa_ = node.overlay.network.get_verified_by_address(tuple(c["src"]) if not hasattr(c["src"], "_fields") else c["src"])
            net_addr = bytes(pa_.public_key.key_to_bin()) if pa_ is not None else None
            if drv and c.get("m_kf") is not None:
                pr = node.overlay.network.verified_by_public_key_bin.get(c["m_kf"])
                net_hit = bytes(pr.public_key.key_to_bin()) if pr is not None else None
            dec = "00"
            if drv and h is not None:
                if h["kind"] in ("signed", "signedWd") and c.get("m_rem") is not None:
                    dec = "1" if decode_bit(node, h["payload_classes"], c["m_rem"]) else "0"
                elif h["kind"] in ("unsigned", "unsignedWd"):
                    dec = "1" if decode_bit(node, h["payload_classes"], data) else "0"
                elif h["kind"] == "raw" and c.get("m_rem") is not None:
                    dec = ("1" if decode_bit(node, [GlobalTimeDistributionPayload, pdp.DiscoveryIntroductionRequestPayload],
                                             c["m_rem"]) else "0") + \
                          ("1" if decode_bit(node, [GlobalTimeDistributionPayload, mp.IntroductionRequestPayload],
                                             c["m_rem"]) else "0")
            watch = [k for k, _ in pre if k != BLACKLIST] + [x for x in (sp["canon"], sp["key_field"], net_addr) if x]
            events, new_keys, moved = await deliver(node, obs, c["src"], data, watch, c.get("prelude"))
            # NetOK on the live index, while the prepared / newly added entries are still there
            netw = node.overlay.network
            for k in set(watch) | set(new_keys):
                pr = netw.verified_by_public_key_bin.get(k)
                if pr is not None:
                    hyp_live["entries_checked"] += 1          # only entries that exist are counted
                    if bytes(pr.public_key.key_to_bin()) != bytes(k):
                        hyp_live["netok_violations"] += 1
            # WellSized.exact on the real verifier: nothing shorter or longer than sigLen verifies (once per key)
            if sp["authentic"] and sp["canon"] not in exact_seen:
                exact_seen.add(sp["canon"])
                pk_ = real_parse(sp["key_field"])[0]
                n_ = sp["n"]
                try:
                    bad = pk_.verify(data[-n_:] + b"\0", data[:-n_]) or pk_.verify(data[-n_ + 1:], data[:-n_]) \
                        or pk_.verify(data[-n_ - 1:], data[:-n_ - 1])
                except BaseException:
                    bad = False
                hyp_live["siglen_exact_checked"] = hyp_live.get("siglen_exact_checked", 0) + 1
                if bad:
                    hyp_live["siglen_exact_violations"] = hyp_live.get("siglen_exact_violations", 0) + 1
            if pre:
                undo_pre(node, pre, [sp["canon"]] if sp["canon"] else [])

            # -- what the implementation did
            entered = [(lab, second, rest, name) for (lab, second, rest, _, name) in events if lab[0] == "handler"]
            avp = [second for (lab, second, _, _, _) in events if lab[0] == "add_verified_peer"]
            raw_entered = any(lab[0] == "raw-entry" for (lab, *_rest) in events)
            impl = "not-called"
            peer_keys = []
            for lab, second, rest, name in entered:
                k = peer_key_of(second)
                if k is not None:
                    peer_keys.append(k)
                    wd = any(isinstance(v, (bytes, bytearray)) and bytes(v) == data for v in rest.values())
                    impl = f"called {k.hex()} {1 if wd else 0}"
                elif impl == "not-called":
                    wd = any(isinstance(v, (bytes, bytearray)) and bytes(v) == data for v in rest.values())
                    impl = f"called-addr {1 if wd else 0}"
            if h is not None and h["kind"] == "raw" and raw_entered and avp:
                k = peer_key_of(avp[0])
                if k is not None:
                    peer_keys.append(k)
                    impl = f"called {k.hex()} 0"

            # -- the property, evaluated on the implementation -------------------------------------------------
            reached = h is not None
            is_req = reached and (tgt, data[22]) in required
            hname = h["name"] if h else "-"
            replay = {"overlay": tgt, "data": data.hex(), "src": list(c["src"]), "operator": c["op"],
                      "position": c["cls"], "origin_overlay": c["origin"], "sender_curve": c["curve"],
                      "verified_before": [[k.hex(), list(a)] for k, a in pre]}
            # history: what this receiver processed just before (object identity / caches may make the outcome depend on it)
            # (the last datagram this receiver ACCEPTED: that is the one whose traces — markers, caches — are still there)
            prev = c.get("prelude") if c.get("prelude") is not None else last_delivered.get(tgt)
            if prev is not None:
                replay["delivered_immediately_before"] = prev.hex()
            # a raw (undecorated) function registered under an authenticated id: the reviewed one (spec raw_modelled)
            # authenticates inside and counts as entered when it reaches add_verified_peer; any OTHER raw function is the
            # handler itself — its body runs for whatever arrives, so entering it is the handler invocation
            raw_reviewed = len(data) > 22 and data[22] in spec.get("raw_modelled", {}).get(tgt, [])
            any_entry = bool(entered) or (raw_entered and (bool(avp) or not raw_reviewed))
            if raw_entered and not raw_reviewed and impl == "not-called":
                impl = "called-raw"
            if any_entry and data[:22] != t["prefix"]:
                ctx.oracle_fail("Community.on_packet:foreign-prefix",
                                f"{tgt} ran a handler for a datagram whose prefix is not the overlay's ({c['op']})", replay)
            if is_req and any_entry and not sp["authentic"]:
                ctx.oracle_fail(f"{hname}:unauthentic-delivery",
                                f"{tgt} msg {data[22]} handler {hname} entered although the datagram does not end in a valid "
                                f"signature by the key it carries ({c['op']}/{c['cls']})", replay)
            for k in peer_keys:
                if sp["canon"] is None or k != sp["canon"]:
                    ctx.oracle_fail(f"{hname}:peer-identity",
                                    f"{tgt} msg {data[22]}: the Peer handed to {hname} has key {k.hex()[:24]}… which is "
                                    f"not the key carried in the datagram ({c['op']}/{c['cls']})", replay)
            for k in new_keys:
                canon = real_parse(k)
                kc = canon[2] if canon else k
                if not (sp["authentic"] and kc == sp["canon"]):
                    ctx.oracle_fail(f"{hname}:verified-peer-unauthenticated",
                                    f"{tgt} msg {data[22] if len(data) > 22 else '-'}: verified_by_public_key_bin gained "
                                    f"{k.hex()[:24]}… which the delivered datagram does not authenticate ({c['op']})", replay)
            # the stored Peer of a key is re-pointed / gets a new address only by a datagram authentic for that key
            for k in moved:
                kc = (real_parse(k) or (None, None, k))[2]
                if not (sp["authentic"] and kc == sp["canon"] and data[:22] == t["prefix"]):
                    ctx.oracle_fail(f"{hname}:verified-peer-moved",
                                    f"{tgt} msg {data[22] if len(data) > 22 else '-'}: the address book of the stored verified "
                                    f"Peer {k.hex()[:24]}… changed although the datagram is not authentic for that key "
                                    f"({c['op']}/{c['cls']}/{c.get('srcstate')})", replay)
            # liveness of a stored Peer refreshed because the datagram NAMES its key (not because it came from its address)
            for k in getattr(obs, "credited", []):
                kc = (real_parse(k) or (None, None, k))[2]
                if not (sp["authentic"] and kc == sp["canon"] and data[:22] == t["prefix"]):
                    ctx.oracle_fail("Community.on_packet:liveness-credited-to-named-key",
                                    f"{tgt}: last_response of the stored verified Peer {k.hex()[:24]}… (not recorded at the "
                                    f"source address) was refreshed by a datagram that is not authentic for that key "
                                    f"({c['op']}/{c['cls']}/{c.get('srcstate')})", replay)
            # payloads handed to the handler are the ones encoded in the signed bytes
            if sp["authentic"] and h is not None and h["kind"] in ("signed", "signedWd") and entered:
                try:
                    want = node.overlay.serializer.unpack_serializable_list(
                        h["payload_classes"], bytes(23) + data[25 + len(sp["key_field"]):-sp["n"]], offset=23)
                    got = [v for v in entered[-1][2].values() if hasattr(v, "to_pack_list")]
                    if len(got) == len(want) and [g.to_pack_list() for g in got] != [w.to_pack_list() for w in want]:
                        ctx.oracle_fail(f"{hname}:payload-not-from-signed-bytes",
                                        f"{tgt} msg {data[22]}: the payloads handed to {hname} differ from the payloads "
                                        f"encoded between key field and signature ({c['op']}/{c['cls']})", replay)
                    ctx.count("payload-args:compared" if len(got) == len(want) else "payload-args:arity-differs")
                except BaseException:
                    ctx.count("payload-args:not-comparable")
            if sp["authentic"] and data[:22] == t["prefix"]:
                auth_keys.setdefault(tgt, set()).add(sp["canon"])
            if c.get("prelude") is not None:          # the datagram delivered immediately before also authenticates its key
                spp = spec_eval(c["prelude"])
                if spp["authentic"] and c["prelude"][:22] == t["prefix"]:
                    auth_keys.setdefault(tgt, set()).add(spp["canon"])
            if any_entry and sp["authentic"]:
                last_delivered[tgt] = data
            if any_entry:
                accepted.setdefault(tgt, []).append((tuple(c["src"]), data, [(k, tuple(a)) for k, a in pre]))
            # wrapper-level address update of a stored Peer (compared with the model's `touched`)
            impl_touched = sorted({peer_key_of(sec[0]).hex() for (lab, sec, _, _, _) in events
                                   if lab[0] == "add_address" and sec[2].endswith("/lazy_community.py")
                                   and peer_key_of(sec[0]) is not None})
            c["impl_touched"] = impl_touched
            # -- bookkeeping
            ctx.count(f"op:{c['op']}")
            ctx.count(f"pos:{c['op']}:{c['cls']}" if c["op"] in ("bitflip", "truncate", "identity-matrix")
                      else f"sub:{c['op']}:{c['cls'][:12]}")
            ctx.count(f"target:{tgt}")
            ctx.count(f"srcstate:{c.get('srcstate', 'identity-matrix' if c['op'] == 'identity-matrix' else 'as-captured')}")
            if c["op"] in ("replay-other-overlay", "prefix-swap"):
                ctx.count(f"dispatch:{c['op']}:{c.get('srcstate', 'as-captured')}")
            ctx.count(f"curve:{c['curve']}")
            ctx.count(f"kind:{h['kind'] if h else 'no-handler/foreign-prefix'}")
            ctx.count(f"spec:{'authentic' if sp['authentic'] else 'not-authentic'}")
            ctx.count(f"impl:{impl.split(' ')[0]}")
            ctx.count("len:%s" % ("<64" if len(data) < 64 else "<256" if len(data) < 256 else "<1024" if len(data) < 1024 else ">=1024"))
            ctx.case((tgt, data[22] if len(data) > 22 else -1, c["op"], c["cls"], c["curve"], c.get("srcstate")),
                     reached and h["kind"] in ("signed", "signedWd", "unsigned", "unsignedWd", "raw"))
            if len(ctx.samples) < 6 and c["op"] in ("key-substitution+resign", "prefix-swap", "identity-matrix") \
                    and not any(x["operator"] == c["op"] and x["position"] == c["cls"] for x in ctx.samples):
                ctx.sample({"target": tgt, "msg_id": data[22], "operator": c["op"], "position": c["cls"],
                            "source_address_state": c.get("srcstate"), "src": list(c["src"]),
                            "verified_before": [[k.hex(), list(a)] for k, a in pre],
                            "spec_authentic": sp["authentic"], "implementation": impl, "datagram": data.hex()})
            if drv:
                pa = "none" if not c.get("m_parse") else f"{c['m_parse'][1]}:{c['m_parse'][2].hex()}"
                lines.append(f"recv {tgt} {data.hex() or '-'} {pa} {1 if c.get('m_verify') else 0} {dec} "
                             f"{net_hit.hex() if net_hit else '-'} {net_addr.hex() if net_addr else '-'}")
                c["dec"], c["net_hit"] = dec, net_hit
                expected.append((impl, c, h))
    finally:
        obs.stop()

    _phase(ctx, "primitives")
    # ---- the hand-written primitives against the real thing, exhaustively in a small scope + random ----------------------
    if drv:
        primitives_phase(ctx, drv, scale)

    # ---- history correspondence: Node.recv vs the shared Network of two live overlays -----------------------------------
    if drv and any(c.get("hist") for c in cases):
        await history_phase(ctx, drv, [c for c in cases if c.get("hist")], tbn)

    _phase(ctx, "passC")
    # ---- model pass C and comparison ----------------------------------------------------------------------------
    if drv:
        replies = drv.batch(lines)
        for ln, rep, (impl, c, h) in zip(lines, replies, expected):
            m_touched = []
            if " touched=" in rep:
                rep, tk = rep.split(" touched=")
                m_touched = [tk]
            if rep.split(" ")[0] != "other" and m_touched != c.get("impl_touched", []):
                ctx.count("touched:disagree")
                ctx.disagree(f"model says the wrapper updates the stored Peer {m_touched} but the implementation updated "
                             f"{c.get('impl_touched')} for {c['target']} msg {c['data'][22] if len(c['data']) > 22 else '-'} "
                             f"({c['op']}/{c['cls']}/{c.get('srcstate')})",
                             {"overlay": c["target"], "data": c["data"].hex(), "src": list(c["src"]), "operator": c["op"],
                              "verified_before": [[k.hex(), list(a)] for k, a in (c.get("pre") or [])]})
            elif m_touched:
                ctx.count("touched:agree-some")
            head = rep.split(" ")[0]
            ctx.count(f"model:{rep if head in ('rejected', 'other') else head}")
            for b_ in model_branches(rep, c, h, bool(m_touched)):
                ctx.count("branch:" + b_)
            if head == "other":
                continue                       # deprecated / cell / unreviewed raw handlers: not modelled
            if head == "called":
                model = " ".join(rep.split(" ")[:3])
            elif head == "called-addr":
                model = rep
            else:
                model = "not-called"
            if model != impl:
                ctx.disagree(f"model `{rep[:90]}` vs implementation `{impl[:90]}` for {c['target']} msg "
                             f"{c['data'][22] if len(c['data']) > 22 else '-'} ({c['op']}/{c['cls']})",
                             {"overlay": c["target"], "data": c["data"].hex(), "src": list(c["src"]), "operator": c["op"],
                              "position": c["cls"], "line": ln[:200], "model": rep[:200], "implementation": impl})

    _phase(ctx, "late")
    # ---- later effects: maintenance strategies run on what the handlers left behind -------------------------------
    # (routing tables, introduction caches …): nothing they do may create a verified-peer entry for a key that no
    # delivered datagram authenticated
    late = await run_strategies(ctx, recv, auth_keys, accepted)
    ctx.extra["late_effects"] = late
    ctx.extra["back_to_back_pairs"] = {"pairs": getattr(obs, "pairs", 0), "second_object_got_id_of_first": getattr(obs, "reuse", 0)}

    # ---- hypotheses of the theorems, checked on every key met ----------------------------------------------------
    hyp = {"keys": 0, "wellsized_violations": 0, "canon_violations": 0, "netok_violations": 0}
    for kb, (canon, n) in keys_seen.items():
        hyp["keys"] += 1
        if n <= 0:
            hyp["wellsized_violations"] += 1
        if n > len(kb) + 2:
            hyp["keys_with_signature_longer_than_encoding_plus_2"] = hyp.get("keys_with_signature_longer_than_encoding_plus_2", 0) + 1
        pc = real_parse(canon)
        if pc is None or pc[2] != canon:
            hyp["canon_violations"] += 1
    for name, node in recv.nodes.items():
        for k, peer in node.overlay.network.verified_by_public_key_bin.items():
            if bytes(peer.public_key.key_to_bin()) != bytes(k):
                hyp["netok_violations"] += 1
    hyp["netok_live_entries_checked"] = hyp_live["entries_checked"]
    hyp["siglen_exact_keys_checked"] = hyp_live.get("siglen_exact_checked", 0)
    hyp["wellsized_violations"] += hyp_live.get("siglen_exact_violations", 0)
    hyp["netok_violations"] += hyp_live["netok_violations"]
    ctx.extra["hypothesis_checks"] = hyp
    if hyp["wellsized_violations"] or hyp["canon_violations"] or hyp["netok_violations"]:
        ctx.disagree(f"a hypothesis of the theorems does not hold on the real crypto/network: {hyp}", {"hypotheses": hyp})

    _phase(ctx, "pack")
    # ---- sender side: Gen.ezrPack vs ezr_pack -----------------------------------------------------------------
    if drv:
        from ipv8.messaging.anonymization.payload import DestroyPayload
        plines, pexp = [], []
        for name in ("TunnelCommunity", "DHTCommunity", "IdentityCommunity"):
            if name not in tbn:
                continue
            node = recv.get(name)
            ov = node.overlay
            for _ in range(scale["pack_cases"]):
                pl = DestroyPayload(ctx.rng.randrange(2 ** 32), ctx.rng.randrange(2 ** 16))
                m = ctx.rng.randrange(256)
                real = ov.ezr_pack(m, pl)
                body = ov.serializer.pack_serializable_list([pl])
                pub = bytes(ov.my_peer.public_key.key_to_bin())
                n = rust().PublicKey(pub).get_signature_length()
                plines.append(f"pack {ov.get_prefix().hex()} {m} {pub.hex()} {body.hex()} {real[-n:].hex()}")
                pexp.append(real.hex())
                spr = spec_eval(real)
                ctx.count("pack:authentic" if spr["authentic"] and spr["canon"] == pub else "pack:NOT-authentic")
                if not (spr["authentic"] and spr["canon"] == pub):
                    ctx.disagree("ezr_pack(sig=True) output is not authentic for the sender's key",
                                 {"datagram": real.hex(), "overlay": name})
                ctx.case(("pack", name, m), True)
        for ln, rep, ex in zip(plines, drv.batch(plines), pexp):
            if rep != ex:
                ctx.disagree("Gen.ezrPack differs from ezr_pack", {"line": ln[:300], "model": rep[:300], "impl": ex[:300]})
    await recv.stop()
    if drv:
        zero = [b_ for b_ in REQUIRED_BRANCHES if not ctx.counts.get("branch:" + b_)]
        zero += [k for k in ("history:step:authentic", "history:step:forged", "history:step:authentic-new-key-other-overlay",
                             "primitive:slice", "primitive:varlen", "interleaved:rejected", "dht:hinted-connect-peer",
                             "history:cross-overlay-introduction:clean", "tunnel-circuit:built") if not ctx.counts.get(k)]
        ctx.extra["model_branches_required"] = len(REQUIRED_BRANCHES)
        ctx.extra["model_branches_not_reached"] = zero
        if zero and not ctx.failures and not ctx.disagreements and not ctx.broken and not ctx.searching:
            from vlib import InfraError
            raise InfraError(f"branches of the hand-written model that no case of this run reached: {zero} — the "
                             f"correspondence would not have noticed a difference there")
    missing = ctx.extra.get("auth_pairs_without_captured_datagram")
    if missing and not ctx.failures and not ctx.disagreements and not ctx.broken and not ctx.searching:
        # never report green on shrunken coverage: an authenticated id without a captured datagram was not checked
        from vlib import InfraError
        raise InfraError(f"no datagram captured for authenticated ids {missing} (capture scenario failed or timed out)")


SCALES = {
    "quick": {"lean": True, "capture_rounds": 1, "per_pair": 1, "flips": 1, "every_byte_upto": 0, "every_byte_stride": 1,
              "unsigned_samples": 40, "pack_cases": 20, "identity_stride": 2},
    "thorough": {"capture_rounds": 3, "per_pair": 1, "flips": 8, "every_byte_upto": 1500, "every_byte_stride": 4,
                 "unsigned_samples": 300, "pack_cases": 300, "identity_stride": 1},
    # the widened search after a broken obligation is bounded (a failing quick run must end within ~3 min): one more
    # capture round with other random choices, not a bigger one
    "search": {"lean": True, "capture_rounds": 1, "per_pair": 1, "flips": 3, "every_byte_upto": 0, "every_byte_stride": 1,
               "unsigned_samples": 40, "pack_cases": 0, "identity_stride": 2, "base_stride": 2},
    # the same implementation-only run in a child interpreter started with -O (assert statements compiled away)
    "child": {"lean": True, "history_steps": 0, "capture_rounds": 1, "per_pair": 1, "flips": 1, "every_byte_upto": 0, "every_byte_stride": 1,
              "unsigned_samples": 10, "pack_cases": 0, "identity_stride": 8, "base_stride": 6, "pair_stride": 4},
}


def run(ctx: Ctx):
    if ctx.replay_input is not None:
        r = ctx.replay_input.get("replay", ctx.replay_input)
        if r.get("python_flags") and not sys.flags.optimize:
            return run_in_child(ctx, r["python_flags"], replay_file=r)
        return asyncio.run(replay(ctx, ctx.replay_input))
    if "tables" not in _INFO:
        try:
            _INFO["tables"] = gen_c01.collect_tables()
        except TranslatorError:
            raise
    asyncio.run(run_async(ctx, ctx.model_ok, SCALES[ctx.tier]))
    # configuration dimension: the same receive path under `python -O` / PYTHONOPTIMIZE (no assert statements)
    _phase(ctx, "child-O")
    run_in_child(ctx, "-O")
    _phase(ctx, "end")
    ctx.extra.pop("_phase_last", None)


def run_in_child(ctx: Ctx, flags: str, replay_file: dict | None = None):
    """implementation-only oracle run (or a replay) in a child interpreter started with `flags`; its oracle failures are
    merged into this run with `python_flags` recorded in the replay"""
    import json
    import os
    import subprocess
    import tempfile
    from vlib import InfraError, VERIF
    work = VERIF / "replays" / "C01"
    work.mkdir(parents=True, exist_ok=True)
    with tempfile.NamedTemporaryFile("w", suffix=".json", dir=work, delete=False) as f:
        json.dump({"seed": ctx.seed, "replay": replay_file}, f)
        job = f.name
    try:
        p = subprocess.run([sys.executable, *flags.split(), "-c",
                            "import sys, c01; c01.child_main(sys.argv[1])", job],
                           capture_output=True, timeout=600, env=dict(os.environ))
        if p.returncode != 0:
            raise InfraError(f"child interpreter {flags} failed: {p.stderr.decode()[-400:]}")
        res = json.loads(p.stdout.decode().strip().split("\n")[-1])
    finally:
        os.unlink(job)
    ctx.extra.setdefault("child_runs", {})[flags] = {"cases": res["cases"], "oracle_failures": len(res["failures"]),
                                                     "optimize_flag_in_child": res["optimize"]}
    ctx.evaluations += res["cases"]
    for k, v in res["counts"].items():
        ctx.count(f"python{flags}:{k}", v)
    for fl in res["failures"][:50]:
        rp = dict(fl["replay"])
        rp["python_flags"] = flags
        ctx.oracle_fail(fl["signature"], f"[interpreter started with {flags}] " + fl["what"], rp)
    if replay_file is not None:
        print(f"replay in a child interpreter started with {flags}: property {'FAILS' if res['failures'] else 'holds'}")


def child_main(job_path: str):
    import json
    from vlib import Ctx as _Ctx
    job = json.load(open(job_path))
    ctx = _Ctx(PROPERTY, "quick", int(job["seed"]) + 1000003)
    _INFO["tables"] = gen_c01.collect_tables()
    if job.get("replay"):
        asyncio.run(replay(ctx, job["replay"]))
    else:
        asyncio.run(run_async(ctx, False, SCALES["child"]))
    keep = ("op:", "impl:", "spec:", "kind:")
    print(json.dumps({"cases": ctx.evaluations, "optimize": sys.flags.optimize,
                      "counts": {k: v for k, v in ctx.counts.items() if k.startswith(keep)},
                      "failures": [{"signature": f["signature"], "what": f["what"], "replay": f["replay"]}
                                   for f in ctx.failures[:50]]}, default=str))


def search(ctx: Ctx, reason: str):
    asyncio.run(run_async(ctx, False, SCALES["search"]))


async def replay_history(ctx: Ctx, r: dict):
    """replay of a `…-late` finding: deliver the recorded accepted datagrams, run the strategies, look at the key index"""
    from ipv8.messaging.interfaces.udp.endpoint import UDPv4Address
    tables = _INFO.get("tables") or gen_c01.collect_tables()
    obs = Observer()
    recv = Receivers(tables, obs)
    node = recv.get(r["overlay"])
    auth = set()
    for ev in r["history"]:
        data = bytes.fromhex(ev["data"])
        pre = [(bytes.fromhex(k), UDPv4Address(*a)) for k, a in ev.get("verified_before", [])]
        apply_pre(node, pre)
        await deliver(node, obs, UDPv4Address(*ev["src"]), data)
        sp = spec_eval(data)
        undo_pre(node, pre)
        if sp["authentic"]:
            auth.add(sp["canon"])
    late = await run_strategies(ctx, recv, {r["overlay"]: auth}, {})
    print(f"replay: {r['overlay']}: {len(r['history'])} datagram(s) delivered, strategies run; keys verified without an "
          f"authenticating datagram: {late['unauthenticated_keys']}; property {'FAILS' if late['unauthenticated_keys'] else 'holds'}")
    ctx.case(("replay",), True)
    await recv.stop()


async def replay(ctx: Ctx, rec: dict):
    logging.disable(logging.CRITICAL)
    r = rec.get("replay", rec)
    if r.get("then") == "strategies" and r.get("scenario") == "history":
        # found in the history phase (two overlays sharing one Network): that phase needs the captured datagrams, so the
        # whole quick run is repeated and its oracle failures are counted
        before = len(ctx.failures)
        await run_async(ctx, ctx.model_ok, SCALES["quick"])
        bad = len([f for f in ctx.failures[before:] if f["signature"].endswith("overlay-membership-unauthenticated")])
        print(f"replay: history phase re-run; overlay-membership failures: {bad}; property {'FAILS' if bad else 'holds'}")
        return None
    if r.get("then") == "strategies" and r.get("scenario"):
        # found inside a protocol run (pending requests, routing tables in place): re-run that overlay's scenarios
        _random.seed(0)
        tables = _INFO.get("tables") or gen_c01.collect_tables()
        before = len(ctx.failures)
        obs_ = Observer()
        rc_ = Receivers(tables, obs_)
        for t_ in tables:
            rc_.register_targets(None, t_)
        obs_.start()
        try:
            await capture_all(ctx, tables, 1, only=r["overlay"],
                              inject={"obs": obs_, "ctx": ctx, "required": auth_required_set(_INFO.get("spec") or gen_c01.load_spec()),
                                      "seen": {}, "per_id": 2, "busy": False})
        finally:
            obs_.stop()
        bad = len(ctx.failures) - before
        print(f"replay: protocol scenarios of {r['overlay']} re-run (protocol-run oracles, maintenance strategies); oracle "
              f"failures: {bad}; property {'FAILS' if bad else 'holds'}")
        ctx.case(("replay",), True)
        return None
    if r.get("then") == "strategies":
        return await replay_history(ctx, r)
    tables = _INFO.get("tables") or gen_c01.collect_tables()
    spec = _INFO.get("spec") or gen_c01.load_spec()
    required = auth_required_set(spec)
    tbn = {t["overlay"]: t for t in tables}
    obs = Observer()
    recv = Receivers(tables, obs)
    node = recv.get(r["overlay"])
    data = bytes.fromhex(r["data"])
    from ipv8.messaging.interfaces.udp.endpoint import UDPv4Address
    src = UDPv4Address(*r.get("src", ("1.2.3.4", 5)))
    apply_pre(node, [(bytes.fromhex(k), UDPv4Address(*a)) for k, a in r.get("verified_before", [])])
    sp = spec_eval(data)
    pa_ = node.overlay.network.get_verified_by_address(src)
    watch = [bytes.fromhex(k) for k, _ in r.get("verified_before", [])] + \
            [x for x in (sp["canon"], sp["key_field"], bytes(pa_.public_key.key_to_bin()) if pa_ else None) if x]
    obs.start()
    try:
        events, new_keys, moved = await deliver(node, obs, src, data, watch,
                                                bytes.fromhex(r["delivered_immediately_before"])
                                                if r.get("delivered_immediately_before") else None)
    finally:
        obs.stop()
    h = handler_for(tbn[r["overlay"]], data)
    entered = [e for e in events if e[0][0] in ("handler",)]
    avp = [e for e in events if e[0][0] == "add_verified_peer"]
    raw_e = any(e[0][0] == "raw-entry" for e in events)
    raw_reviewed = len(data) > 22 and data[22] in spec.get("raw_modelled", {}).get(r["overlay"], [])
    any_entry = bool(entered) or (raw_e and (bool(avp) or not raw_reviewed))
    bad = any_entry and ((h is not None and (r["overlay"], data[22]) in required and not sp["authentic"])
                         or data[:22] != tbn[r["overlay"]]["prefix"])
    bad = bad or any(peer_key_of(e[1]) not in (None, sp["canon"]) for e in entered)
    bad = bad or bool(new_keys and not sp["authentic"])
    # the same per-delivery oracles as the run: stored Peer re-pointed, payloads not from the signed bytes
    moved_bad = [k for k in moved
                 if not (sp["authentic"] and (real_parse(k) or (None, None, k))[2] == sp["canon"]
                         and data[:22] == tbn[r["overlay"]]["prefix"])]
    payload_bad = False
    if sp["authentic"] and h is not None and h["kind"] in ("signed", "signedWd") and entered:
        try:
            want = node.overlay.serializer.unpack_serializable_list(
                h["payload_classes"], bytes(23) + data[25 + len(sp["key_field"]):-sp["n"]], offset=23)
            got = [v for v in entered[-1][2].values() if hasattr(v, "to_pack_list")]
            payload_bad = len(got) == len(want) and [g.to_pack_list() for g in got] != [w.to_pack_list() for w in want]
        except BaseException:
            payload_bad = False
    credited_bad = [k for k in getattr(obs, "credited", [])
                    if not (sp["authentic"] and (real_parse(k) or (None, None, k))[2] == sp["canon"]
                            and data[:22] == tbn[r["overlay"]]["prefix"])]
    bad = bad or bool(moved_bad) or payload_bad or bool(credited_bad)
    print(f"replay: {r['overlay']} msg {data[22] if len(data) > 22 else '-'} operator {r.get('operator')}: "
          f"spec authentic={sp['authentic']}; handler entered={any_entry}; new verified keys={len(new_keys)}; "
          f"stored peers re-pointed without authentication={len(moved_bad)}; liveness credited to a named key={len(credited_bad)}; "
          f"payloads differ from signed bytes={payload_bad}; "
          f"property {'FAILS' if bad else 'holds'}")
    if bad:
        ctx.oracle_fail("replay", "replayed input still fails", r)
    ctx.case(("replay",), True)
    await recv.stop()
