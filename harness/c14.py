"""
C14 — the DHT routing table stays a valid Kademlia tree (ipv8/dht/routing.py, ipv8/dht/trie.py).

Link to the code:
  * translator tools/gen_c14.py regenerates lean/Ipv8/C14/GenConst.lean (MAX_BUCKET_SIZE, identifier width, status codes,
    BAD threshold, rtt ratio, closest_nodes break test) from routing.py on every run;
  * correspondence (driver drv_c14): seeded op sequences (add / external status+rtt change / remove_bad_nodes /
    closest_nodes / get / get_bucket / generate_id with a scripted random source / full table dump) are run against the
    real RoutingTable and the Lean model and compared reply by reply; the same for the bare Trie class
    (set / del / get / longest_prefix_item / suffixes / values), randomly for key lengths up to 6 and exhaustively for
    every trie over keys of length <= 2 (quick) or <= 3 (thorough);
  * oracle (independent of the model): after the ops of every scenario (and at every closest/dump point) the real table is
    checked against the property text from first principles: bucket keys form a prefix-free complete cover, every node
    sits in the bucket owning its id and get_bucket finds it, no bucket above capacity, every split key lies on the own
    id's path, closest_nodes == brute-force k smallest XOR distances of live nodes, generate_id inside its bucket.
"""
from __future__ import annotations

import gen_c14
from vlib import Ctx, InfraError

PROPERTY = "C14"
LEAN_TARGETS = ["Ipv8.C14.Props"]
PROPS_FILE = "Ipv8/C14/Props.lean"
DRIVER = "drv_c14"
RULE = ("evaluations = executed ops (routing), queries/deletions (trie), draws (generate_id), grid cells (Node.status). "
        "distinct_nontrivial is the number of distinct keys over these families, each with its own criterion (per-family counts: "
        "distribution keys nontrivial-cases:<family>): routing-scenario = digest of (own id, capacity, op list), non-trivial iff it "
        "split a bucket and ran a closest_nodes query over a table with more than k live nodes; ss = one exhaustive small-scope "
        "add sequence, non-trivial iff it split; trie / trie-ex / trie-ex-del = one trie sequence / key set / deletion, non-trivial "
        "iff more than one key is present (deletion: the key was present); genid / genid-scripted = one bucket depth x seed or "
        "scripted draw, non-trivial iff the bucket is below the root; status = one (failed, contact class) cell, non-trivial iff "
        "failed >= 2 with recent contact; regression = fixed scenarios.  Generator classes and their measured frequencies: "
        "distribution keys id:*, profile:*, max-depth:*, capacity:*, rtt:*, node:*, readd:*, closest-*, evicted:*, op:*, trie-op:*")
TRUSTED_BASE = [
    "tools/gen_c14.py: AST extraction of the routing constants and comparison operators",
    "hand-written model of Trie / Bucket / RoutingTable (Ipv8/C14/Model.lean), tied by the correspondence run; python dict "
    "insertion order of trie children is not modelled (values()/suffixes() are compared as sorted collections); object identity "
    "and the write-only back pointer Node.bucket are not modelled (re-adds of earlier objects are ordinary adds in the model)",
    "the clock (routing.time) is replaced by a fixed virtual time and the global random source is seeded / scripted by the harness",
    "Node.id is scripted by the harness (arbitrary 160-bit strings); Node.status is the real property, driven through failed / "
    "last_response / last_queries; the oracle's own notion of a dead node is failed >= 2 (BEP-5: failed multiple queries in a row), "
    "independent of Node.status; calc_node_id (crc32/sha1) is outside the model",
]
ASSUMPTIONS = [
    "identifiers added to one table all have the table's width (160 bits in the code)",
    "bucket capacity >= 1",
        "rtts are multiples of 2^-20 s (floats from ~1 us to 19 s) for which n.rtt / node.rtt >= 2.0 is exact; non-dyadic floats are not exercised",
    "the random source honours its contract (getrandbits(n) < 2^n) - explicit hypothesis of generated_id_in_bucket",
    "a node is dead iff it failed 2 or more queries in a row (pinned: code_constants_admissible and the oracle use the same 2)",
]

W = 160
UNIT = 1 << 20     # rtts travel as integers counting 2^-20 s; the node gets the float k / 2^20 (exact)


# ------------------------------------------------------------------------------------------------------------------
# real-code helpers (ipv8 imported lazily so that VERIF_REPO is honoured)
_KEYS: list = []


def _key(i: int):
    from ipv8.keyvault.crypto import default_eccrypto
    while len(_KEYS) <= i:
        j = len(_KEYS)
        _KEYS.append(default_eccrypto.key_from_private_bin(b"LibNaCLSK:" + (j + 1).to_bytes(64, "big")).pub())
    return _KEYS[i]


_NODE_CLS = None


def node_cls():
    global _NODE_CLS
    if _NODE_CLS is None:
        from ipv8.dht.routing import Node

        class VNode(Node):
            """Node with a scripted identifier; status stays the real property (driven by `failed`)."""

            def __init__(self, tag: int, ident: int, port: int, key_index: int | None = None) -> None:
                super().__init__(_key(tag if key_index is None else key_index), ("1.1.1.1", port))
                self._id = ident.to_bytes(W // 8, "big")
                self.tag = tag

            @property
            def id(self) -> bytes:
                return self._id

        _NODE_CLS = VNode
    return _NODE_CLS


def case(ctx: Ctx, key=None, nontrivial: bool = True, n: int = 1):
    """ctx.case plus a per-family histogram of what `distinct_nontrivial` is made of (see RULE)"""
    ctx.case(key, nontrivial, n)
    fam = key[0] if isinstance(key, tuple) and key and isinstance(key[0], str) else "routing-scenario"
    ctx.count(("nontrivial-cases:" if nontrivial else "trivial-cases:") + fam)


def model_batch(ctx: Ctx, d, lines):
    """driver replies with the branch tags (" #tag tag ...") stripped and counted as model-branch:<tag>"""
    out = []
    for rep in d.batch(lines):
        if " #" in rep:
            rep, tags = rep.split(" #", 1)
            for t in tags.split():
                ctx.count("model-branch:" + t)
        out.append(rep)
    return out


# Branch classes of the hand-written model definitions (and of the implementation-side generators) that every full run must
# reach at least once.  A class at zero makes the run end with exit 2 (infrastructure), never with a pass.
REQUIRED_MODEL_BRANCHES = [
    "bucket-add:not-owned", "bucket-add:accepted", "bucket-add:refused-full", "bucket-split:refused-not-full", "bucket-split:done",
    "add:update", "add:insert-room", "add:evict-bad", "add:evict-slow", "add:evict-bad+slow", "add:split",
    "add:refuse-off-own-path", "add:one-split", "add:repeated-split", "getbucket:root-fallback", "getbucket:lpi",
    "closest:single-bucket", "closest:first-level", "closest:inner-level", "closest:root-reached", "closest:cut-to-k",
    "closest:fewer-than-k", "closest:no-exclude", "closest:exclude-stored", "closest:exclude-absent",
    "rmbad:nothing-removed", "rmbad:some-removed", "setnode:hit", "setnode:miss",
    "refresh:none-stale", "refresh:one-stale", "refresh:several-stale",
    "genid:no-suffix", "genid:in-range", "genid:overflow-raises", "genid:overflow-outside",
    "status:rule0", "status:rule1", "status:default",
    "trie-set:overwrite", "trie-set:new-node", "trie-set:value-on-inner-node",
    "trie-del:absent", "trie-del:last-key(keyerror-quirk)", "trie-del:pruned", "trie-del:kept-inner-node",
    "trie-lpi:nothing", "trie-lpi:falsy-value", "trie-lpi:direct-child", "trie-lpi:deeper",
]
REQUIRED_IMPL_CLASSES = [
    "readd:object-currently-stored", "readd:object-never-stored", "readd:object-removed,old-bucket-still-in-tree",
    "readd:object-removed,old-bucket-was-split", "add:same-public-key-as-stored-node",
    "evicted:bad", "evicted:slow", "full-bucket:no-eviction",
    "closest-walk:whole-table-needed", "closest-walk:own-bucket-suffices", "closest-walk:stops-at-an-inner-level",
    "closest-boundary-k:with-exclusion-in-own-bucket", "closest-exclude:stored-object-itself", "closest-exclude:fresh-object-with-that-id", "closest-k:default",
    "refresh-class:one", "refresh-class:few", "refresh-class:all", "refresh-class:none",
    "genid-pipeline-vs-cpython:overflow", "genid-pipeline-vs-cpython:in-range", "real-node-id:ipv4", "real-node-id:ipv6",
    "community-find:answered,neighbourhood-mixed-good-and-unknown", "community-answer:from-another-ip", "community-answer:from-the-asked-address", "two-threads:worker-waited-at-the-lock",
    "community-op:request", "community-op:discover", "community-op:churn", "community-op:move", "community-op:move-self",
    "rtt:zero", "rtt:sub-millisecond", "rtt:sub-second", "rtt:one-second-or-more", "profile:deep", "profile:clustered",
]


def require_coverage(ctx: Ctx):
    """called at the end of a full, failure-free run with the model available"""
    missing = [b for b in REQUIRED_MODEL_BRANCHES if not ctx.counts.get("model-branch:" + b)]
    missing += [c for c in REQUIRED_IMPL_CLASSES if not ctx.counts.get(c)]
    deep = [k for k in ctx.counts if k.startswith("max-depth:") and int(k.split(":")[1].rstrip("+")) >= 100]
    if not deep:
        missing.append("max-depth >= 100")
    ctx.extra["required_branch_classes"] = {"listed": len(REQUIRED_MODEL_BRANCHES) + len(REQUIRED_IMPL_CLASSES) + 1, "missing": missing}
    if missing:
        raise InfraError("coverage lost: these listed branch / input classes were not reached in this run: " + ", ".join(missing))


def bits(x: int, n: int = W) -> str:
    return format(x, "0%db" % n) if n else ""


def pb(s: str) -> str:
    return s if s else "-"


class Unscriptable(Exception):
    """raised by the harness' scripted random source for an entry point it cannot answer - never a fault of the code"""


class FakeRandom:
    """scripted replacement for python's global random source inside routing.py: every entry point answers from the bits
    of `r`, within its documented range.  `returned` lists the integer draws (the model compares only single-draw uses)."""

    def __init__(self, r: int):
        self.r = r
        self.pos = 0            # successive draws consume successive bits of r (cyclically over 256 bits)
        self.calls = []
        self.returned = []

    def _take(self, bound: int) -> int:
        """a value in range(bound) derived from r; the first draw uses r itself so that single draws stay r mod bound"""
        if bound <= 0:
            raise ValueError("empty range")
        if not self.returned:
            v = self.r % bound
        else:
            rot = ((self.r >> (self.pos % 256)) | (self.r << (256 - self.pos % 256))) & ((1 << 256) - 1)
            v = (rot ^ (self.pos * 0x9E3779B97F4A7C15)) % bound
        self.pos += max(1, bound.bit_length() - 1)
        self.returned.append(v)
        return v

    def getrandbits(self, n):
        self.calls.append(("getrandbits", n))
        return self._take(1 << n) if n > 0 else self._take(1)

    def randint(self, a, b):
        self.calls.append(("randint", a, b))
        return a + self._take(b - a + 1)

    def randrange(self, a, b=None, step=1):
        self.calls.append(("randrange", a, b))
        if b is None:
            a, b = 0, a
        return a + step * self._take((b - a + step - 1) // step)

    def randbytes(self, n):
        self.calls.append(("randbytes", n))
        return self._take(1 << (8 * n)).to_bytes(n, "big") if n > 0 else b""

    def choice(self, seq):
        self.calls.append(("choice", len(seq)))
        return seq[self._take(len(seq))]

    def choices(self, population, weights=None, *, cum_weights=None, k=1):
        if weights is not None or cum_weights is not None:
            raise Unscriptable("weighted choices")
        return [self.choice(population) for _ in range(k)]

    def sample(self, population, k):
        pool = list(population)
        return [pool.pop(self._take(len(pool))) for _ in range(k)]

    def shuffle(self, x):
        for i in reversed(range(1, len(x))):
            j = self._take(i + 1)
            x[i], x[j] = x[j], x[i]

    def random(self):
        return self._take(1 << 53) / (1 << 53)

    def uniform(self, a, b):
        return a + (b - a) * self.random()

    def seed(self, *a, **k):
        return None

    def __getattr__(self, name):
        raise Unscriptable(f"random.{name} is not scripted by the harness")


def raised_by_harness(e: BaseException) -> bool:
    """True when the innermost frame of the traceback is harness code (or the exception is the harness' own marker): such an
    exception says nothing about the code under test and must never be judged as a property failure"""
    import traceback
    if isinstance(e, Unscriptable):
        return True
    tb = traceback.extract_tb(e.__traceback__)
    return bool(tb) and "/ipv8/" not in tb[-1].filename and tb[-1].filename.endswith(("c14.py", "vlib.py"))


VNOW = 2_000_000_000.0   # virtual "now": Node.status reads the clock through routing.time, which the harness replaces


class _VTime:
    """stands in for the `time` module inside routing.py: a fixed clock, everything else delegated"""

    def __init__(self, real):
        self._real = real

    def time(self):
        return VNOW

    def __getattr__(self, name):
        return getattr(self._real, name)


def install_clock(routing):
    """idempotent; every module global of routing.py that is the `time` module or the function `time.time` (whatever name it
    was imported under) is replaced by the virtual clock"""
    import time as _real
    import types
    for name, val in list(vars(routing).items()):
        if isinstance(val, types.ModuleType) and val is _real:
            setattr(routing, name, _VTime(_real))
        elif val is _real.time:
            def vtime():
                return VNOW
            vtime._c14_virtual = True
            setattr(routing, name, vtime)


def now(routing=None):
    return VNOW


class scripted_random:
    """context manager: every name through which routing.py could reach the global random source answers from `fake`
    (`import random` as well as `from random import getrandbits/randint/randrange/randbytes`)"""
    NAMES = ("getrandbits", "randint", "randrange", "randbytes")

    def __init__(self, routing, fake):
        self.routing, self.fake, self.saved = routing, fake, {}

    def __enter__(self):
        import types
        r = self.routing
        if isinstance(getattr(r, "random", None), types.ModuleType) or isinstance(getattr(r, "random", None), FakeRandom):
            self.saved["random"] = r.random
            r.random = self.fake
        for nm in self.NAMES:
            if nm in vars(r):
                self.saved[nm] = vars(r)[nm]
                setattr(r, nm, getattr(self.fake, nm))
        return self.fake

    def __exit__(self, *a):
        for nm, v in self.saved.items():
            setattr(self.routing, nm, v)
        return False


def seed_real_random(seed: int):
    """the code draws from python's global generator (module `random`), however it imported it"""
    import random as _r
    _r.seed(seed)


DEAD_AFTER = 2   # "nodes become bad when they fail to respond to multiple queries in a row" (BEP-5, cited by Node.status):
                 # the harness' own definition of a dead node, independent of Node.status: failed >= 2, whatever the last contact

# contact classes: (last_response age in s or None=never, last_query age or None) -> recent contact?
CONTACT = {0: (None, None), 1: (0, None), 2: (5000, None), 3: (5000, 0), 4: (None, 0), 5: (5000, 5000), 6: (0, 5000)}


def contact_code(c):
    return {True: 1, False: 0}.get(c, c) if isinstance(c, bool) else int(c)


def is_recent(c) -> bool:
    resp, query = CONTACT[contact_code(c)]
    return (resp is not None and resp < 900) or (resp is not None and query is not None and query < 900)


def script_contact(routing, n, c):
    t = now(routing)
    resp, query = CONTACT[contact_code(c)]
    n.last_response = 0 if resp is None else t - resp
    n.last_queries.clear()
    if query is not None:
        n.last_queries.append(t - query)
    n.v_recent = is_recent(c)


class ConstRandom(FakeRandom):
    """every draw answers from the same r (within the asked range): the targets of one refresh round then do not depend
    on the order in which the code visits the buckets"""

    def _take(self, bound: int) -> int:
        if bound <= 0:
            raise ValueError("empty range")
        v = self.r % bound
        self.returned.append(v)
        return v


def run_maintenance(routing, tables: dict, fail_lookups=frozenset()):
    """one round of the real DHTCommunity.node_maintenance over the given routing tables ({address class: RoutingTable});
    returns the looked-up targets in call order.  `fail_lookups`: indices of find_values calls that raise DHTError."""
    import asyncio
    from types import SimpleNamespace
    from ipv8.dht import DHTError, community
    install_clock(community)
    targets = []

    async def find_values(target, *args, **kwargs):
        targets.append(target)
        if len(targets) - 1 in fail_lookups:
            raise DHTError("scripted lookup failure")
        return []

    overlay = SimpleNamespace(routing_tables=tables, find_values=find_values)
    loop = asyncio.new_event_loop()
    try:
        loop.run_until_complete(community.DHTCommunity.node_maintenance(overlay))
    finally:
        loop.close()
    return targets


def judge_refresh(stale_keys, all_keys, targets):
    """independent of the code: every stale prefix must get exactly one lookup whose target starts with that prefix, and no
    other lookups happen.  `all_keys`: prefix-free bucket keys.  Returns a (kind, text) or None."""
    owners = []
    for t in targets:
        tb = bits(int.from_bytes(t, "big"), 8 * len(t)) if len(t) == W // 8 else None
        own = [k for k in all_keys if tb is not None and tb.startswith(k)]
        owners.append(own[0] if own else None)
    if sorted("?" if o is None else o for o in owners) != sorted(stale_keys):
        missing = sorted(set(stale_keys) - {o for o in owners if o is not None})
        return ("refresh-target-outside-bucket",
                f"stale buckets {sorted(stale_keys)} were refreshed with lookups for ids owned by buckets {owners}"
                + (f"; no lookup inside {missing}" if missing else ""))
    return None


class Impl:
    """the real RoutingTable driven op by op; produces the canonical reply for every op and evaluates the oracle"""

    def __init__(self, me: int, m: int | None):
        from ipv8.dht import routing
        self.routing = routing
        install_clock(routing)
        self.me = me
        self.ntag = 0
        self.fail = None        # first oracle failure: (signature, what)
        import collections
        self.stats = collections.Counter()
        # the CONFIGURED capacity (what the oracle compares with; never read back from the buckets under test)
        self.m = m if m is not None else routing.MAX_BUCKET_SIZE
        try:
            self.rt = routing.RoutingTable(me.to_bytes(W // 8, "big"))
            if m is not None:
                self.rt.trie[""].max_size = m
        except Exception as e:
            self.rt = None
            self.fail = ("RoutingTable.__init__:raises", f"constructing the table raised {type(e).__name__}: {str(e)[:120]}")
        self.splits = 0
        self.rich_query = False
        self.objs = {}          # tag -> Node object ever handed to add (for re-adding the same object later)

    # -- oracle pieces ---------------------------------------------------------------------------------------
    def _fail(self, sig, what):
        if self.fail is None:
            self.fail = (sig, what)

    def keys(self):
        """all (key, bucket) pairs by walking the python trie nodes directly (not through suffixes())"""
        out = []
        if self.rt is None:
            return out
        try:
            stack = [("", self.rt.trie.root)]
            while stack:
                k, n = stack.pop()
                if n.value is not None:
                    out.append((k, n.value))
                for c, ch in n.children.items():
                    stack.append((k + c, ch))
        except AttributeError:   # another internal layout: use the public queries instead
            out = [(k, self.rt.trie[k]) for k in self.rt.trie.suffixes("")]
        return sorted(out, key=lambda kv: kv[0])

    def all_nodes(self):
        return [n for _, b in self.keys() for n in b.nodes.values()]

    def check_tree(self, where: str):
        try:
            return self._check_tree(where)
        except Exception as e:
            if raised_by_harness(e):
                raise InfraError(f"harness error while inspecting the table: {type(e).__name__}: {e}") from e
            return self._fail("RoutingTable.get_bucket:raises", f"{where}: inspecting the table raised {type(e).__name__}: {str(e)[:120]}")

    def _check_tree(self, where: str):
        rt = self.rt
        kb = self.keys()
        ks = [k for k, _ in kb]
        me_bits = bits(self.me)
        # partition: prefix-free and complete
        for a, b in zip(ks, ks[1:]):
            if b.startswith(a):
                return self._fail("RoutingTable.trie:not-prefix-free", f"{where}: bucket key {a!r} is a prefix of bucket key {b!r}")
        total = sum(1 << (W - len(k)) for k in ks if len(k) <= W)
        if total != 1 << W or any(len(k) > W for k in ks):
            return self._fail("RoutingTable.trie:not-complete", f"{where}: bucket keys {ks[:6]}.. do not cover the identifier space "
                                                                 f"(covered fraction {total / (1 << W):.6f})")
        seen = {}
        for k, b in kb:
            if b.prefix_id != k:
                return self._fail("RoutingTable.trie:bucket-key-mismatch", f"{where}: bucket with prefix {b.prefix_id!r} stored at key {k!r}")
            if len(b.nodes) > self.m:
                return self._fail("Bucket.add:over-capacity", f"{where}: bucket {k!r} holds {len(b.nodes)} nodes, the table was "
                                                               f"configured with capacity {self.m} (the bucket itself claims {getattr(b, 'max_size', '?')})")
            if k and not me_bits.startswith(k[:-1]):
                return self._fail("RoutingTable.add:split-off-own-path", f"{where}: bucket {k!r} exists although {k[:-1]!r} is not a prefix of the own id")
            for nid, n in b.nodes.items():
                ib = bits(int.from_bytes(n.id, "big"))
                if nid != n.id:
                    return self._fail("Bucket.nodes:key-mismatch", f"{where}: node stored under another id")
                if not ib.startswith(k):
                    return self._fail("Bucket.add:node-outside-owner", f"{where}: node {ib[:24]}.. stored in bucket {k!r}")
                if rt.get_bucket(n.id) is not b or rt.get(n.id) is not n:
                    return self._fail("RoutingTable.get_bucket:node-not-found", f"{where}: stored node {ib[:24]}.. is not found by get_bucket/get")
                if n.id in seen:
                    return self._fail("RoutingTable.trie:duplicate-id", f"{where}: id {ib[:24]}.. stored twice")
                seen[n.id] = n
        return None

    def brute_closest(self, target: int, k: int, excl):
        live = [n for n in self.all_nodes() if n.failed < DEAD_AFTER and (excl is None or n.id != excl)]
        live.sort(key=lambda n: int.from_bytes(n.id, "big") ^ target)
        return live, live[:k]

    # -- ops ---------------------------------------------------------------------------------------------------
    SITE = {"add": "RoutingTable.add", "set": "RoutingTable.get", "rmbad": "RoutingTable.remove_bad_nodes",
            "closest": "RoutingTable.closest_nodes", "get": "RoutingTable.get", "bucket": "RoutingTable.get_bucket",
            "dump": "RoutingTable.trie", "genid": "Bucket.generate_id", "readd": "RoutingTable.add",
            "status": "Node.status", "refresh": "DHTCommunity.node_maintenance"}

    def _bucket_reply(self, ident: int) -> str:
        b = self.rt.get_bucket(ident.to_bytes(W // 8, "big"))
        key = [k for k, v in self.keys() if v is b]
        return f"{pb(key[0]) if key else '?'} {pb(b.prefix_id)}"

    def fallback_line(self, op):
        """the protocol line of an op computed without touching the code under test"""
        kind = op[0]
        if kind == "add":
            return f"rt.add {bits(op[1])} {op[2]} {1 if is_recent(op[5]) else 0} {op[3]} {op[4]} {self.ntag - 1}"
        if kind == "set":
            return f"rt.set {bits(op[1])} {op[2]} {1 if len(op) > 4 and op[4] is not None and is_recent(op[4]) else 0} {op[3]}"
        if kind == "readd":
            return f"rt.readd {op[1]}"
        if kind == "status":
            return f"rt.status {bits(op[1])}"
        if kind == "refresh":
            return f"rt.refresh {op[2]} none"
        if kind == "closest":
            return f"rt.closest {bits(op[1])} {'default' if op[2] is None else op[2]} {bits(op[3]) if op[3] is not None else 'none'}"
        if kind in ("get", "bucket"):
            return f"rt.{kind} {bits(op[1])}"
        if kind == "genid":
            return f"rt.genid ? {W} {op[2]}"
        return {"rmbad": "rt.rmbad", "dump": "rt.dump"}.get(kind, "rt." + kind)

    def apply(self, op, idx: int):
        """returns (protocol line, canonical implementation reply).  Any exception the code under test raises on these
        legal calls is classified here: it is an oracle failure `<call site>:raises` (the property promises a valid tree,
        an exact answer and an id inside the bucket for every history), never a harness crash."""
        try:
            return self._apply(op, idx)
        except Exception as e:
            if raised_by_harness(e):     # the harness could not observe the code (its own bug, or internals it relies on are gone)
                raise InfraError(f"harness error while applying {op[0]}: {type(e).__name__}: {e}") from e
            import traceback
            tb = traceback.extract_tb(e.__traceback__)
            where = next((f"{fr.filename.split('/ipv8/')[-1]}:{fr.lineno}" for fr in reversed(tb) if "/ipv8/" in fr.filename), "?")
            self._fail(self.SITE.get(op[0], op[0]) + ":raises",
                       f"op {idx}: {op[0]} raised {type(e).__name__}: {str(e)[:120]} (at {where})")
            return self.fallback_line(op), "raised:" + type(e).__name__

    def _apply(self, op, idx: int):
        kind = op[0]
        rt = self.rt
        thr = 2
        if kind in ("add", "readd"):
            if kind == "add":
                _, ident, failed, rtt, port, contact = op[:6]
                # optional 7th field: reuse the public key of the node object with that tag (same peer, other address/id)
                n = node_cls()(self.ntag, ident, port, op[6] if len(op) > 6 else None)
                self.objs[n.tag] = n
                self.ntag += 1
                n.failed = failed
                n.rtt = rtt / float(UNIT)
                script_contact(self.routing, n, contact)
            else:
                # the very same python object that was handed to add earlier (stored, evicted, removed or refused since);
                # when it is not in the table at the moment its failure count / rtt / contact times may have moved on
                _, tag, failed, rtt, contact = op
                if not self.objs:
                    return "rt.get " + bits(self.me), "none" if rt.get(self.me.to_bytes(W // 8, "big")) is None else "some"
                n = self.objs[sorted(self.objs)[tag % len(self.objs)]]
                ident = int.from_bytes(n.id, "big")
                port = n.address[1]
                if rt.get(n.id) is not n:
                    if failed is not None:
                        n.failed = failed
                    if rtt is not None:
                        n.rtt = rtt / float(UNIT)
                    if contact is not None:
                        script_contact(self.routing, n, contact)
                failed, rtt = n.failed, round(n.rtt * UNIT)
            nkeys = len(self.keys())
            tb = None
            try:
                tb = rt.get_bucket(n.id)
                before = list(tb.nodes.values())
            except Exception:
                before = []
            try:
                res = rt.add(n)
            except KeyError:
                self._fail("RoutingTable.add:KeyError", f"op {idx}: add({bits(ident)[:24]}..) raised KeyError")
                res = "keyerror"
            except RecursionError:
                self._fail("RoutingTable.add:no-termination", f"op {idx}: add({bits(ident)[:24]}..) recursed without end")
                res = "fuel"
            self.splits += max(0, len(self.keys()) - nkeys)
            if tb is not None and len(self.keys()) == nkeys:
                gone = [x for x in before if x.id not in tb.nodes]
                if gone:
                    self.stats["evicted:" + "+".join(sorted({"bad" if x.failed >= DEAD_AFTER else "slow" for x in gone}))
                               + (",two-at-once" if len(gone) > 1 else "")] += 1
                elif len(before) >= self.m and n.id not in {x.id for x in before}:
                    self.stats["full-bucket:no-eviction"] += 1
            line = f"rt.add {bits(ident)} {failed} {1 if n.v_recent else 0} {rtt} {port} {n.tag}"
            if isinstance(res, str):
                return line, res
            if res is None:
                if kind == "readd" and self.fail is None:
                    self.check_tree(f"op {idx} (re-add refused)")
                return line, "none"
            if rt.get(res.id) is not res or res.id != n.id:
                self._fail("RoutingTable.add:returned-node-not-stored", f"op {idx}: add returned a node that the table does not hold under that id")
            if kind == "readd" and self.fail is None:
                self.check_tree(f"op {idx} (re-add of the object with tag {n.tag})")
            return line, f"stored {res.tag} {res.address[1]}"
        if kind == "set":
            _, ident, failed, rtt = op[:4]
            contact = op[4] if len(op) > 4 else None
            n = rt.get(ident.to_bytes(W // 8, "big"))
            recent = is_recent(contact) if contact is not None else False
            if n is not None:
                n.failed = failed
                n.rtt = rtt / float(UNIT)
                if contact is not None:
                    script_contact(self.routing, n, contact)
                recent = n.v_recent
            return f"rt.set {bits(ident)} {failed} {1 if recent else 0} {rtt}", "ok"
        if kind == "status":
            _, ident = op
            n = rt.get(ident.to_bytes(W // 8, "big"))
            if n is None:
                return f"rt.status {bits(ident)}", "none"
            st = n.status
            if (st == self.routing.NODE_STATUS_BAD) != (n.failed >= DEAD_AFTER):
                self._fail("Node.status:failed-node-not-bad",
                           f"op {idx}: stored node with failed={n.failed}, last response {now(self.routing) - n.last_response:.0f}s ago "
                           f"reports status {st} (BAD is {self.routing.NODE_STATUS_BAD})")
            return f"rt.status {bits(ident)}", "bad" if st == self.routing.NODE_STATUS_BAD else "live"
        if kind == "rmbad":
            before = self.all_nodes()
            expect = sorted(n.tag for n in before if n.failed >= DEAD_AFTER)
            removed = rt.remove_bad_nodes()
            got = sorted(n.tag for n in removed)
            left = [n for n in self.all_nodes() if n.failed >= DEAD_AFTER]
            if got != expect or left:
                self._fail("RoutingTable.remove_bad_nodes:wrong-set",
                           f"op {idx}: removed tags {got}; nodes with {DEAD_AFTER}+ failures in a row were {expect}; such nodes left: {[n.tag for n in left]}")
            return "rt.rmbad", "[" + ",".join(map(str, got)) + "]"
        if kind == "closest":
            _, target, k, excl = op[:4]
            by_object = len(op) > 4 and op[4]
            exn = None
            exid = None
            if excl is not None:
                stored = rt.get(excl.to_bytes(W // 8, "big"))
                # what the community passes is the requester's own Node object when it is in the table
                exn = stored if (by_object and stored is not None) else node_cls()(0, excl, 1)
                exid = exn.id
            kwargs = {"exclude_node": exn}
            if k is None:
                import inspect
                k_eff = inspect.signature(rt.closest_nodes).parameters["max_nodes"].default
            else:
                kwargs["max_nodes"] = k
                k_eff = k
            res = rt.closest_nodes(target.to_bytes(W // 8, "big"), **kwargs)
            live, want = self.brute_closest(target, k_eff, exid)
            if len(live) > k_eff and self.splits:
                self.rich_query = True
            own = rt.get_bucket(target.to_bytes(W // 8, "big"))
            n_own = len([x for x in own.nodes.values() if x.failed < DEAD_AFTER and x.id != exid])
            self.stats["closest-walk:" + ("whole-table-needed" if len(live) <= k_eff else
                                          "own-bucket-suffices" if n_own > k_eff else "stops-at-an-inner-level")] += 1
            self.stats["closest-result:" + ("k" if len(want) == k_eff else "fewer-than-k")] += 1
            if n_own <= k_eff:
                # levels the walk has to climb from the target's bucket until more than k live nodes are in the sub-tree
                tb_bits, d0 = bits(target), len(own.prefix_id)
                lb = [bits(int.from_bytes(x.id, "big")) for x in live]
                lvl = d0
                while lvl > 0 and sum(1 for y in lb if y.startswith(tb_bits[:lvl])) <= k_eff:
                    lvl -= 1
                climbed = d0 - lvl
                self.stats["closest-levels-climbed:%s" % (climbed if climbed < 10 else "%d0+" % (climbed // 10))] += 1
            if len(res) != len(want) or any(a is not b for a, b in zip(res, want)):
                self._fail("RoutingTable.closest_nodes:not-k-closest",
                           f"op {idx}: closest_nodes(target={bits(target)[:24]}.., k={k_eff}{' (default)' if k is None else ''}) returned tags "
                           f"{[n.tag for n in res]}, the k live nodes nearest by XOR are {[n.tag for n in want]} (of {len(live)} live)")
            return (f"rt.closest {bits(target)} {'default' if k is None else k} {bits(excl) if excl is not None else 'none'}",
                    "[" + ",".join(str(n.tag) for n in res) + "]")
        if kind == "get":
            _, ident = op
            n = rt.get(ident.to_bytes(W // 8, "big"))
            if rt.has(ident.to_bytes(W // 8, "big")) != (n is not None):
                self._fail("RoutingTable.has:disagrees-with-get", f"op {idx}: has() and get() disagree on id {bits(ident)[:24]}..")
            stored = [x for x in self.all_nodes() if int.from_bytes(x.id, "big") == ident]
            if (n is None) != (not stored) or (n is not None and n is not stored[0]):
                self._fail("RoutingTable.get:disagrees-with-membership", f"op {idx}: get({bits(ident)[:24]}..) answers "
                           f"{'nothing' if n is None else 'tag %d' % n.tag} but the buckets hold {[x.tag for x in stored]}")
            return f"rt.get {bits(ident)}", "none" if n is None else str(n.tag)
        if kind == "bucket":
            _, ident = op
            try:
                b = rt.get_bucket(ident.to_bytes(W // 8, "big"))
                key = [k for k, v in self.keys() if v is b]
                rep = f"{pb(key[0]) if key else '?'} {pb(b.prefix_id)}"
                if not bits(ident).startswith(b.prefix_id):
                    self._fail("RoutingTable.get_bucket:not-owner", f"op {idx}: get_bucket returned bucket {b.prefix_id!r} for id {bits(ident)[:24]}..")
            except KeyError:
                rep = "keyerror"
                self._fail("RoutingTable.get_bucket:KeyError", f"op {idx}: no bucket for id {bits(ident)[:24]}..")
            return f"rt.bucket {bits(ident)}", rep
        if kind == "dump":
            self.check_tree(f"op {idx}")
            items = []
            BAD = self.routing.NODE_STATUS_BAD
            for k, b in self.keys():
                ns = ",".join(f"{n.tag}.{n.address[1]}.{1 if n.status == BAD else 0}.{round(n.rtt * UNIT)}"
                              for n in sorted(b.nodes.values(), key=lambda n: n.tag))
                items.append(f"{pb(k)}:{pb(b.prefix_id)}/{getattr(b, 'max_size', '?')}={ns}")
            return "rt.dump", "|".join(sorted(items))
        if kind == "refresh":
            # one round of the periodic refresh: `mask` picks which buckets are stale (unchanged for an hour), all others
            # were just changed; every random draw of the round answers from r
            _, mask, r, fail_first = op
            kb = self.keys()
            stale = [k for j, (k, b) in enumerate(kb) if (mask >> (j % 64)) & 1]
            for k, b in kb:
                b.last_changed = VNOW - 3600 if k in stale else VNOW - 1
            with scripted_random(self.routing, ConstRandom(r)):
                targets = run_maintenance(self.routing, {"v4": rt}, frozenset({0}) if fail_first else frozenset())
            verdict = judge_refresh(stale, [k for k, _ in kb], targets)
            if verdict is not None:
                self._fail("DHTCommunity.node_maintenance:" + verdict[0], f"op {idx}: {verdict[1]}")
            unstamped = [k for k, b in kb if k in stale and b.last_changed != VNOW]
            touched = [k for k, b in kb if k not in stale and b.last_changed != VNOW - 1]
            if unstamped or touched:
                self._fail("DHTCommunity.node_maintenance:wrong-buckets-stamped",
                           f"op {idx}: stale buckets {stale}: not stamped {unstamped}, stamped although fresh {touched}")
            self.stats["refresh:stale-buckets=%s-of-%s" % (min(len(stale), 3) if len(stale) < 3 else "3+", "1" if len(kb) == 1 else "many")] += 1
            owners = {}
            for t in targets:
                tb = bits(int.from_bytes(t, "big"), 8 * len(t))
                own = [k for k in stale if tb.startswith(k)]
                owners.setdefault(own[0] if own else "?", []).append(tb)
            # reply: refreshed key > target, by key (targets of one round use the same r, so the visiting order is immaterial)
            items = sorted(f"{pb(k)}>{v}" for k, vs in owners.items() for v in vs) if "?" not in owners else \
                sorted(f"?>{bits(int.from_bytes(t, 'big'), 8 * len(t))}" for t in targets)
            return f"rt.refresh {r} {','.join(pb(k) for k in stale) if stale else 'none'}", "|".join(items)
        if kind == "genid":
            _, which, r = op
            kb = self.keys()
            k, b = kb[which % len(kb)]
            # oracle: the real random source, seeded from the op so that a replay draws the same values
            seed_real_random(r)
            for _ in range(4):
                try:
                    g = b.generate_id()
                except Exception as e:
                    self._fail("Bucket.generate_id:raises", f"op {idx}: bucket {k!r}: generate_id raised {type(e).__name__}: {e}")
                    break
                gb = bits(int.from_bytes(g, "big")) if len(g) == W // 8 else None
                if gb is None or not gb.startswith(k) or not b.owns(g):
                    self._fail("Bucket.generate_id:outside-bucket",
                               f"op {idx}: bucket {k!r} generated id {g.hex()} which does not start with its prefix")
                    break
            # correspondence: scripted random source; the model is given the value the source actually returned
            line, rep = scripted_genid(self.routing, b, k, r)
            if rep == "raised":
                self._fail("Bucket.generate_id:raises", f"op {idx}: bucket {k!r}, scripted draw {r}: generate_id raised")
            elif rep == "unscriptable":
                self.stats["genid-scripted:source-not-scriptable"] += 1
            return (line or f"rt.bucket {bits(self.me)}"), (rep if line else self._bucket_reply(self.me))
        raise ValueError(kind)


def scripted_genid(routing, b, key: str, r: int):
    """generate_id with every global-random entry point answered from `r`.  Returns (model line or None, reply).  The line
    carries the value the source RETURNED (the model's generateId takes that as its input) and exists only when the code
    made exactly one integer draw (or none, for a bucket without suffix).  reply "unscriptable" = the harness could not
    answer the code's randomness request (nothing to compare or judge; the real-random oracle still applies)."""
    fake = FakeRandom(r)
    try:
        with scripted_random(routing, fake):
            g = b.generate_id()
        rep = bits(int.from_bytes(g, "big"), 8 * len(g)) if g else "-"
    except Exception as e:
        if raised_by_harness(e):
            return None, "unscriptable"
        rep = "raised"
    if len(fake.returned) == 1:
        return f"rt.genid {pb(key)} {W} {fake.returned[0]}", rep
    if not fake.returned and len(key) == W:
        return f"rt.genid {pb(key)} {W} {r}", rep          # no suffix, no draw: the model ignores r as well
    return None, rep


def ref_pipeline(prefix: str, r: int) -> str:
    """CPython's own format / int / unhexlify applied to a given draw r, exactly as the (repaired) generate_id composes them;
    used to tie the model's formatBin / hexBytes - including the overflow branch r >= 2^n and the no-suffix branch - to
    CPython, independently of routing.py"""
    import binascii
    n = W - len(prefix)
    suffix = format(r, f"0{n}b") if n else ""
    try:
        g = binascii.unhexlify(format(int(prefix + suffix, 2) if prefix + suffix else 0, "0%dX" % (W // 4)))
    except binascii.Error:
        return "raised"
    return bits(int.from_bytes(g, "big"), 8 * len(g))


def readd_after_split_ops():
    """a node object is stored, removed as BAD, its old bucket is split by later insertions, the object comes back"""
    ops = [("add", (i << (W - 4)) | 1, 0, 1, 1 + i, 1) for i in (0, 1, 2, 3, 4, 8, 9, 10)]      # root bucket full
    ops += [("set", (2 << (W - 4)) | 1, 2, 1, 1), ("rmbad",)]                                        # tag 2 leaves
    ops += [("add", (i << (W - 4)) | 1, 0, 1, 20 + i, 1) for i in (5, 6, 7, 11)]                    # root splits ...
    ops += [("add", (i << (W - 5)) | 1, 0, 1, 40 + i, 1) for i in (1, 3, 5, 7, 9)]                  # ... and "0" splits
    ops += [("dump",), ("readd", 2, 0, None, 1), ("dump",), ("get", (2 << (W - 4)) | 1),
            ("closest", (2 << (W - 4)) | 1, 3, None), ("readd", 2, None, None, None), ("readd", 0, None, None, None), ("dump",)]
    return ops


def run_ops(me: int, m, ops, upto=None):
    """run a concrete op list on the implementation; returns (impl, lines, replies)"""
    im = Impl(me, m)
    lines = [f"rt.new {bits(me)} {im.m}"]
    replies = ["ok"]
    for i, op in enumerate(ops):
        ln, rep = im.apply(op, i)
        lines.append(ln)
        replies.append(rep)
        if upto is not None and im.fail is not None:
            break
    if im.fail is None:
        im.check_tree("end")
    return im, lines, replies


# ------------------------------------------------------------------------------------------------------------------
# generators

def gen_id(rng, me: int, state: dict) -> tuple[int, str]:
    cls = rng.choices(["uniform", "own-prefix", "own-prefix-long", "anchor", "narrow", "known", "near-known"],
                      weights=state["weights"])[0]
    if cls == "uniform":
        return rng.getrandbits(W), cls
    if cls in ("own-prefix", "own-prefix-long"):
        L = min(W - 1, int(rng.expovariate(1.0 / state["own_scale"]))) if cls == "own-prefix" else rng.randrange(W - 12, W + 1)
        if L >= W:
            return me, cls
        x = (me >> (W - L)) << (W - L) if L else 0
        x |= (1 - ((me >> (W - L - 1)) & 1)) << (W - L - 1) if rng.random() < 0.6 else ((me >> (W - L - 1)) & 1) << (W - L - 1)
        rest = W - L - 1
        if rest:
            x |= rng.getrandbits(rest) if rng.random() < 0.7 else 0
        return x, cls
    if cls == "anchor":
        a = state["anchor"]
        L = state["anchor_len"]
        return ((a >> (W - L)) << (W - L)) | rng.getrandbits(W - L), cls
    if cls == "narrow":
        w = state["narrow"]
        return rng.getrandbits(w) << (W - w), cls
    if cls == "known" and state["ids"]:
        return rng.choice(state["ids"]), cls
    if cls == "near-known" and state["ids"]:
        return rng.choice(state["ids"]) ^ (1 << rng.randrange(0, 24)), cls
    return rng.getrandbits(W), "uniform"


RTTS = [0, 0, 1, 100, 200, 201, 524, 1048, 2097, 13000, 52429, 104858, 209715, 209716, 524288, 1048576, 2097152, 2097153,
        9000000, 20000000]   # units of 2^-20 s (~1 us): from sub-millisecond to 19 s, exact ratios 2 (and just below/above) included


def gen_scenario(ctx: Ctx, rng, n_ops: int, profile: str):
    """ops are generated online against the running implementation (so that they can refer to stored ids)"""
    me = rng.getrandbits(W) if rng.random() < 0.8 else rng.choice([0, (1 << W) - 1, 1 << (W - 1), 0b1010 << (W - 4)])
    weights = {"mixed": [3, 5, 0, 2, 1, 1, 1], "clustered": [1, 7, 0, 1, 0, 1, 2], "deep": [1, 3, 5, 1, 0, 1, 2],
               "narrow": [0, 1, 0, 0, 8, 2, 0], "foreign": [2, 1, 0, 8, 0, 1, 1], "uniform": [10, 1, 0, 0, 0, 1, 0]}[profile]
    state = {"weights": weights, "anchor": rng.getrandbits(W), "anchor_len": rng.randrange(1, 40),
             "narrow": rng.randrange(3, 9), "ids": [],
             "own_scale": {"mixed": 8, "clustered": rng.choice([12, 25, 40]), "deep": 60}.get(profile, 8)}
    q_closest = 0.87 if profile == "deep" else 0.93
    if profile == "foreign" and rng.random() < 0.5:
        # anchor diverges from own id at the first bit: that bucket can never split again once the root has
        state["anchor"] = me ^ (1 << (W - 1))
    m = None
    if profile == "narrow" or rng.random() < 0.15:
        m = rng.choice([1, 2, 3, 4])
    im = Impl(me, m)
    ops, lines, replies = [], [f"rt.new {bits(me)} {im.m}"], ["ok"]

    def do(op):
        ln, rep = im.apply(op, len(ops))
        ops.append(op)
        lines.append(ln)
        replies.append(rep)
        ctx.count("op:" + op[0])

    contacts = [0, 1, 1, 1, 2, 3, 4, 5, 6]
    for i in range(n_ops):
        x = rng.random()
        if x < 0.07 and im.objs:
            # hand an object back to add that add has seen before (as the community does with nodes taken from the table)
            stored_tags = {n.tag for n in im.all_nodes()}
            away = [t for t in im.objs if t not in stored_tags]
            tag = rng.choice(away) if away and rng.random() < 0.8 else rng.choice(list(im.objs))
            obj = im.objs[tag]
            live_buckets = {id(b) for _, b in im.keys()}
            ctx.count("readd:" + ("object-currently-stored" if tag in stored_tags else
                                  "object-never-stored" if getattr(obj, "bucket", None) is None else
                                  "object-removed,old-bucket-still-in-tree" if id(obj.bucket) in live_buckets else
                                  "object-removed,old-bucket-was-split"))
            do(("readd", tag, rng.choice([None, 0, 0, 1, 2]), rng.choice([None, None] + RTTS), rng.choice([None] + contacts)))
            ctx.count("readd-result:" + replies[-1].split(" ")[0])
        elif x < 0.68:
            ident, cls = gen_id(rng, me, state)
            ctx.count("id:" + cls)
            failed = rng.choice([0, 0, 0, 0, 1, 2, 3])
            rtt = rng.choice(RTTS)
            ctx.count("rtt:" + ("zero" if rtt == 0 else "sub-millisecond" if rtt < 1049 else "sub-second" if rtt < UNIT else "one-second-or-more"))
            same_key = None
            if rng.random() < 0.04:
                stored = im.all_nodes()
                if stored:
                    same_key = rng.choice(stored).tag
                    ctx.count("add:same-public-key-as-stored-node")
            if same_key is None:
                do(("add", ident, failed, rtt, rng.randrange(1, 60000), rng.choice(contacts)))
            else:
                do(("add", ident, failed, rtt, rng.randrange(1, 60000), rng.choice(contacts), same_key))
            ctx.count("node:failed=%d,%s" % (failed, "recent-contact" if is_recent(ops[-1][5]) else "no-recent-contact"))
            ctx.count("add:" + replies[-1].split(" ")[0])
            if replies[-1].startswith("stored") and len(state["ids"]) < 4000:
                state["ids"].append(ident)
        elif x < 0.78 and state["ids"]:
            do(("set", rng.choice(state["ids"]), rng.choice([0, 1, 2, 3]), rng.choice(RTTS),
                rng.choice([None, None] + contacts)))
        elif x < 0.80:
            do(("rmbad",))
        elif x < q_closest:
            t, cls = gen_id(rng, me, state)
            k = rng.randrange(1, 21) if rng.random() < 0.93 else None
            excl = None
            by_object = False
            if rng.random() < 0.3 and state["ids"]:
                excl = rng.choice(state["ids"]) if rng.random() < 0.8 else rng.getrandbits(W)
                by_object = rng.random() < 0.5
                ctx.count("closest-exclude:" + ("stored-object-itself" if by_object else "fresh-object-with-that-id"))
            do(("closest", t, k, excl, by_object))
            ctx.count("closest-target:" + cls)
            ctx.count("closest-k:%s" % ("default" if k is None else k))
            ctx.count("closest-returned:%d" % (replies[-1].count(",") + 1 if replies[-1] != "[]" else 0))
        elif x < 0.94:
            ident, _ = gen_id(rng, me, state)
            do(("get", ident))
        elif x < 0.955 and state["ids"]:
            do(("status", rng.choice(state["ids"])))
            ctx.count("status-reply:" + replies[-1])
        elif x < 0.97:
            ident, _ = gen_id(rng, me, state)
            do(("bucket", ident))
        elif x < 0.975:
            cls = rng.choice(["one", "one", "few", "all", "random", "none"])
            nb = max(1, len(im.keys()))
            mask = {"one": 1 << rng.randrange(min(nb, 64)), "few": (1 << rng.randrange(min(nb, 64))) | (1 << rng.randrange(min(nb, 64))),
                    "all": (1 << 64) - 1, "random": rng.getrandbits(64), "none": 0}[cls]
            do(("refresh", mask, rng.getrandbits(rng.choice([8, 64, 160, 200])), rng.random() < 0.2))
            ctx.count("refresh-class:" + cls)
        elif x < 0.985:
            do(("genid", rng.randrange(0, 1000), rng.getrandbits(rng.choice([1, 8, 64, 159, 160, 161, 200]))))
        else:
            do(("dump",))
        if im.fail is not None:
            break
    if im.fail is None:
        do(("dump",))
        if im.fail is None:
            # closing queries over the final table: every k once for a handful of targets
            for k in (1, 2, 7, 8, 9, 20):
                t, _ = gen_id(rng, me, state)
                do(("closest", t, k, None))
            nb = len(im.keys())
            for j in sorted({0, nb // 2, nb - 1}):
                do(("refresh", 1 << (j % 64), rng.getrandbits(160), False))
                ctx.count("refresh-class:one")
            do(("refresh", (1 << 0) | (1 << ((nb - 1) % 64)), rng.getrandbits(160), True))
            ctx.count("refresh-class:few")
            do(("refresh", 0, rng.getrandbits(160), False))
            ctx.count("refresh-class:none")
            do(("refresh", (1 << 64) - 1, rng.getrandbits(160), False))
            ctx.count("refresh-class:all")
            # boundary k: exactly / just below / just above the number of live nodes in the target's own bucket, with and without
            # an excluded node taken from that bucket (where the "enough candidates" test and the exclusion meet)
            stored_now = im.all_nodes()
            for _ in range(2 if stored_now else 0):
                tn = rng.choice(stored_now)
                tb_ = im.rt.get_bucket(tn.id)
                mates = [x for x in tb_.nodes.values() if x.failed < DEAD_AFTER]
                for k in sorted({max(1, len(mates) - 1), max(1, len(mates)), len(mates) + 1}):
                    ex = int.from_bytes(rng.choice(mates).id, "big") if mates and rng.random() < 0.7 else None
                    do(("closest", int.from_bytes(tn.id, "big"), k, ex, rng.random() < 0.5))
                    ctx.count("closest-boundary-k:" + ("with-exclusion-in-own-bucket" if ex is not None else "no-exclusion"))
            # queries that start at the deepest bucket (target = own id and its neighbours) and have to climb
            for k, t in ((20, me), (20, me ^ 1), (12, me ^ 3), (len(im.all_nodes()) or 1, me ^ 5)):
                do(("closest", t, k, None))
            do(("genid", rng.randrange(0, 1000), rng.getrandbits(160)))
    return im, me, m, ops, lines, replies


SHRINK_RUNS = 40          # candidate re-executions per shrink
SHRINK_OP_BUDGET = 5000  # executed ops per shrink (closest_nodes counts 30: the real walk is slow on deep tries)
SHRINKS_PER_RUN = 2       # later failures are reported unshrunk (cut at the failing op)


def _cost(ops):
    return sum(30 if o[0] == "closest" else 1 for o in ops)


def shrink(me, m, ops, sig):
    """greedy chunk removal on the implementation only, keeping the same oracle signature; strictly bounded"""
    budget = {"runs": SHRINK_RUNS, "ops": SHRINK_OP_BUDGET}

    def fails(cand):
        budget["runs"] -= 1
        budget["ops"] -= _cost(cand)
        try:
            im, _, _ = run_ops(me, m, cand, upto=True)
        except Exception:
            return False
        return im.fail is not None and im.fail[0] == sig
    cur = list(ops)
    chunk = max(1, len(cur) // 2)
    while chunk >= 1 and budget["runs"] > 0 and budget["ops"] > 0:
        i = 0
        changed = False
        while i < len(cur) and budget["runs"] > 0 and budget["ops"] > 0:
            cand = cur[:i] + cur[i + chunk:]
            if cand and fails(cand):
                cur = cand
                changed = True
            else:
                i += chunk
        if not changed:
            chunk //= 2
    return cur


def report_failure(ctx: Ctx, im, me, m, ops):
    sig, what = im.fail
    n_shrunk = ctx.extra.setdefault("shrinks", 0)
    small = ops
    if len(ops) > 3 and n_shrunk < SHRINKS_PER_RUN:
        ctx.extra["shrinks"] = n_shrunk + 1
        small = shrink(me, m, ops, sig)
    ctx.oracle_fail(sig, what, {"kind": "routing", "me": me, "m": m, "ops": [list(o) for o in small][-3000:],
                                "original_ops": len(ops)})


def compare(ctx: Ctx, lines, replies, meta):
    if not ctx.model_ok:
        return
    d = ctx.driver()
    model = model_batch(ctx, d, lines)
    for i, (ln, a, b) in enumerate(zip(lines, model, replies)):
        if a != b:
            ctx.disagree(f"op {i - 1} `{ln[:120]}`: model {a[:200]!r} != implementation {b[:200]!r}",
                         dict(meta, line_index=i, line=ln, model=a, impl=b))
            return


def routing_scenarios(ctx: Ctx, n: int, sizes, use_model=True):
    import hashlib
    rng = ctx.rng
    for s in range(n):
        if len(ctx.failures) >= (1 if ctx.searching else 12):
            ctx.count("scenarios-skipped-after-failures", n - s)
            break
        profile = rng.choice(["mixed", "mixed", "mixed", "clustered", "clustered", "clustered", "narrow", "foreign",
                              "uniform", "deep"])
        if s < 2 and n > 4:
            profile = ("deep", "clustered")[s]      # depth coverage must not depend on the seed
        n_ops = min(rng.choice(sizes), 250) if profile == "deep" else rng.choice(sizes)
        if n_ops >= 2000 and profile in ("deep", "clustered"):
            profile = "mixed"       # the 2000-node histories are about size; depth is covered by the scenarios above
        im, me, m, ops, lines, replies = gen_scenario(ctx, rng, n_ops, profile)
        ctx.count("profile:" + profile)
        ctx.count("scenario-ops:%d" % (50 * round(len(ops) / 50)))
        nb = len(im.keys())
        ctx.count("final-buckets:%s" % (nb if nb < 10 else "%d0+" % (nb // 10)))
        nn = len(im.all_nodes())
        ctx.count("final-nodes:%s" % ("%d0+" % (nn // 10)))
        ctx.count("capacity:%d" % im.m)
        for kk, vv in im.stats.items():
            ctx.count(kk, vv)
        depth = max((len(k) for k, _ in im.keys()), default=0)
        ctx.count("max-depth:%s" % ("%d0+" % (depth // 10)))
        key = hashlib.sha1(repr((me, m, ops)).encode()).hexdigest()
        case(ctx, key, nontrivial=bool(im.splits and im.rich_query), n=len(ops))
        if s < 2:
            ctx.sample({"own_id": bits(me)[:32] + "..", "profile": profile, "ops": len(ops), "buckets": nb, "nodes": nn,
                        "first_lines": [ln[:80] for ln in lines[:3]], "first_replies": [r[:80] for r in replies[:3]]})
        if im.fail is not None:
            report_failure(ctx, im, me, m, ops)
        if use_model:
            compare(ctx, lines, replies, {"kind": "routing", "me": me, "m": m, "ops": [list(o) for o in ops][:400]})


# ---- exhaustive small scope on the routing table: every add sequence over a reduced identifier width -----------------
def small_scope(ctx: Ctx, w: int, length: int, m: int, mes, use_model=True):
    import itertools
    ids = [i << (W - w) for i in range(1 << w)]
    all_lines, all_replies = [], []
    for me in mes:
        for seq in itertools.product(range(len(ids)), repeat=length):
            ops = []
            for j, a in enumerate(seq):
                ops.append(("add", ids[a], 2 if (j + a) % 5 == 4 else 0, (0, 100000, 200000, 400000)[(a * 3 + j) % 4], 1 + j, (1, 3, 0)[(a + j) % 3]))
            ops.append(("dump",))
            for t in (ids[seq[0]], ids[-1 - seq[-1]]):
                ops.append(("closest", t, 1 + (seq[0] % 3), None))
            im, lines, replies = run_ops(me, m, ops)
            case(ctx, ("ss", w, m, me, seq), nontrivial=im.splits > 0, n=len(ops))
            ctx.count("smallscope-splits:%d" % im.splits)
            if im.fail is not None:
                report_failure(ctx, im, me, m, ops)
            all_lines += lines
            all_replies += replies
    if use_model and ctx.model_ok:
        d = ctx.driver()
        model = model_batch(ctx, d, all_lines)
        for i, (ln, a, b) in enumerate(zip(all_lines, model, all_replies)):
            if a != b:
                ctx.disagree(f"small scope w={w} m={m}: `{ln[:100]}`: model {a[:200]!r} != implementation {b[:200]!r}",
                             {"kind": "smallscope", "w": w, "m": m, "line_index": i, "line": ln, "model": a, "impl": b,
                              "context": all_lines[max(0, i - length - 4):i + 1]})
                break


# ---- the bare Trie class -----------------------------------------------------------------------------------------
def same_reply(a: str, b: str, deleted_present: bool) -> bool:
    """model vs implementation reply.  Deleting a key that is present: the code (and the model, which mirrors it) ends in a
    KeyError when the trie becomes empty although the deletion was carried out; whether that quirk is kept or repaired is
    not something this check judges, so "ok" and "keyerror" count as the same answer there."""
    if deleted_present and {a, b} <= {"ok", "keyerror"}:
        return True
    return a == b


TRIE_SITE = {"lpi!": "Trie.longest_prefix_item", "lp": "Trie.longest_prefix", "lpv": "Trie.longest_prefix_value",
             "set": "Trie.__setitem__", "del": "Trie.__delitem__", "get": "Trie.__getitem__",
             "lpi": "Trie.longest_prefix_item", "suf": "Trie.suffixes", "vals": "Trie.values"}


def trie_do(ctx: Ctx, t, op, hist):
    """trie_apply with classification: an exception other than the documented KeyError on these legal calls is an
    oracle failure `<method>:raises` (the routing table relies on every one of them), not a harness crash"""
    try:
        return trie_apply(t, op)
    except Exception as e:
        if raised_by_harness(e):
            raise InfraError(f"harness error in trie op {op[0]}: {type(e).__name__}: {e}") from e
        ctx.oracle_fail(TRIE_SITE[op[0]] + ":raises", f"after {len(hist)} ops, {op!r} raised {type(e).__name__}: {str(e)[:100]}",
                        {"kind": "trie", "ops": [list(o) for o in hist] + [list(op)]})
        line = {"set": f"t.set {pb(op[1]) if len(op) > 1 else ''} {op[2] if len(op) > 2 else ''}", "vals": "t.vals"}.get(
            op[0], f"t.{op[0]} {pb(op[1]) if len(op) > 1 else ''}")
        return line, "raised:" + type(e).__name__


def trie_apply(t, op):
    kind = op[0]
    if kind == "set":
        t[op[1]] = op[2]
        return f"t.set {pb(op[1])} {op[2]}", "ok"
    if kind == "del":
        try:
            del t[op[1]]
            rep = "ok"
        except KeyError:
            rep = "keyerror"
        return f"t.del {pb(op[1])}", rep
    if kind == "get":
        try:
            rep = str(t[op[1]])
        except KeyError:
            rep = "keyerror"
        return f"t.get {pb(op[1])}", rep
    if kind == "lpi":
        r = t.longest_prefix_item(op[1], default=None)
        return f"t.lpi {pb(op[1])}", "none" if r is None else f"{pb(r[0])} {r[1]}"
    if kind == "lpi!":      # no default: KeyError when nothing matches
        try:
            r = t.longest_prefix_item(op[1])
            return f"t.lpi {pb(op[1])}", f"{pb(r[0])} {r[1]}"
        except KeyError:
            return f"t.lpi {pb(op[1])}", "none"
    if kind == "lp":
        r = t.longest_prefix(op[1], default="")
        return f"t.lp {pb(op[1])}", r if r else "none"
    if kind == "lpv":
        r = t.longest_prefix_value(op[1], default=None)
        return f"t.lpv {pb(op[1])}", "none" if r is None else str(r)
    if kind == "suf":
        return f"t.suf {pb(op[1])}", "[" + ",".join(sorted(pb(s) for s in t.suffixes(op[1]))) + "]"
    if kind == "vals":
        return "t.vals", "[" + ",".join(map(str, sorted(t.values()))) + "]"
    raise ValueError(kind)


def trie_oracle(ctx: Ctx, t, ref: dict, where, replay):
    try:
        _trie_oracle(ctx, t, ref, where, replay)
    except Exception as e:
        if raised_by_harness(e):
            raise InfraError(f"harness error in the trie oracle: {type(e).__name__}: {e}") from e
        ctx.oracle_fail("Trie:raises", f"{where}: a query raised {type(e).__name__}: {str(e)[:100]}", replay)


def _trie_oracle(ctx: Ctx, t, ref: dict, where, replay):
    """reference = plain dict of key -> value; checks the Trie queries the routing table relies on"""
    for k, v in ref.items():
        try:
            if t[k] != v:
                ctx.oracle_fail("Trie.__getitem__:wrong-value", f"{where}: trie[{k!r}] != {v}", replay)
        except KeyError:
            ctx.oracle_fail("Trie.__getitem__:missing-key", f"{where}: key {k!r} was set and not deleted but is missing", replay)
    if sorted(t.values()) != sorted(ref.values()):
        ctx.oracle_fail("Trie.values:wrong", f"{where}: values() {sorted(t.values())} != {sorted(ref.values())}", replay)
    for q in sorted({k[:i] for k in list(ref) + ["0101", "111"] for i in range(len(k) + 1)}):
        want = sorted(k[len(q):] for k in ref if k.startswith(q))
        got = sorted(t.suffixes(q))
        if got != want:
            ctx.oracle_fail("Trie.suffixes:wrong", f"{where}: suffixes({q!r}) = {got}, keys below are {want}", replay)
            break


def trie_random(ctx: Ctx, n_seq: int, use_model=True):
    from ipv8.dht.trie import Trie
    rng = ctx.rng
    lines, replies = [], []
    present_del = set()
    for s in range(n_seq):
        L = rng.choice([2, 3, 4, 5, 6])
        t = Trie("01")
        ref = {}
        ops = []
        lines.append("t.new")
        replies.append("ok")
        for i in range(rng.randrange(4, 40)):
            klen = rng.randrange(0, L + 1)
            key = bits(rng.getrandbits(klen), klen) if klen else ""
            if ref and rng.random() < 0.4:
                key = rng.choice(list(ref))
                if rng.random() < 0.4:
                    key = key + rng.choice(["0", "1", "01"])
            x = rng.random()
            if x < 0.4:
                op = ("set", key, rng.choice([0, 1, 2, 3, 5, 7]) if rng.random() < 0.3 else 1 + i)
                ref[key] = op[2]
            elif x < 0.6:
                op = ("del", key)
            elif x < 0.7:
                op = ("get", key)
            elif x < 0.85:
                op = (rng.choice(["lpi", "lpi", "lpi!", "lp", "lpv"]), key + bits(rng.getrandbits(3), 3))
            elif x < 0.95:
                op = ("suf", key[:rng.randrange(0, len(key) + 1)])
            else:
                op = ("vals",)
            ops.append(op)
            ln, rep = trie_do(ctx, t, op, ops[:-1])
            if op[0] == "del" and key in ref:
                del ref[key]
                present_del.add(len(lines))
                # quirk, mirrored by the model but not judged: deleting the last key raises KeyError after the deletion
            ctx.count("trie-op:" + op[0] + (":keyerror" if rep == "keyerror" else ""))
            lines.append(ln)
            replies.append(rep)
            if op[0] in ("set", "del"):
                trie_oracle(ctx, t, ref, f"trie sequence {s} op {i}", {"kind": "trie", "ops": [list(o) for o in ops]})
        case(ctx, ("trie", tuple(ops)), nontrivial=len(ref) > 1, n=len(ops))
    if use_model and ctx.model_ok:
        d = ctx.driver()
        model = model_batch(ctx, d, lines)
        for i, (ln, a, b) in enumerate(zip(lines, model, replies)):
            if not same_reply(a, b, i in present_del):
                j = max(k for k in range(i + 1) if lines[k] == "t.new")
                ctx.disagree(f"trie: `{ln}`: model {a!r} != implementation {b!r}",
                             {"kind": "trie-lines", "lines": lines[j:i + 1], "model": a, "impl": b})
                break


def trie_exhaustive(ctx: Ctx, L: int, use_model=True):
    """every set of keys of length <= L (inserted in two different orders), every single deletion, every query"""
    from ipv8.dht.trie import Trie
    keys = [""] + [bits(v, n) for n in range(1, L + 1) for v in range(1 << n)]
    full = [bits(v, L + 1) for v in range(1 << (L + 1))]
    lines, replies = [], []
    present_del = set()
    for mask in range(1 << len(keys)):
        present = [k for i, k in enumerate(keys) if mask >> i & 1]
        order = present if mask % 2 else list(reversed(present))
        ref = {k: 1 + keys.index(k) for k in present}

        def build():
            t = Trie("01")
            lines.append("t.new")
            replies.append("ok")
            for k in order:
                ln, rep = trie_do(ctx, t, ("set", k, ref[k]), [])
                lines.append(ln)
                replies.append(rep)
            return t
        t = build()
        trie_oracle(ctx, t, ref, f"trie with keys {present}", {"kind": "trie", "ops": [["set", k, ref[k]] for k in order]})
        for q in full:
            ln, rep = trie_do(ctx, t, ("lpi", q), [("set", k, ref[k]) for k in order])
            lines.append(ln)
            replies.append(rep)
            # oracle: longest proper-or-equal non-empty prefix present (the root key "" is never reported by the code)
            cands = [k for k in present if k and q.startswith(k)]
            want = "none" if not cands else f"{max(cands, key=len)} {ref[max(cands, key=len)]}"
            if rep != want:
                ctx.oracle_fail("Trie.longest_prefix_item:wrong", f"keys {present}: longest_prefix_item({q!r}) = {rep}, expected {want}",
                                {"kind": "trie", "ops": [["set", k, ref[k]] for k in order] + [["lpi", q]]})
        for k in keys:
            ln, rep = trie_do(ctx, t, ("suf", k), [("set", a, ref[a]) for a in order])
            lines.append(ln)
            replies.append(rep)
        case(ctx, ("trie-ex", L, mask), nontrivial=len(present) > 1, n=len(full) + len(keys))
        # single deletions (rebuild each time)
        if len(present) <= 4 or mask % 7 == 0:
            for k in keys:
                t2 = build()
                ln, rep = trie_do(ctx, t2, ("del", k), [("set", a, ref[a]) for a in order])
                if k in ref:
                    present_del.add(len(lines))
                lines.append(ln)
                replies.append(rep)
                ref2 = {a: b for a, b in ref.items() if a != k}
                trie_oracle(ctx, t2, ref2, f"trie with keys {present} after del {k!r}",
                            {"kind": "trie", "ops": [["set", a, ref[a]] for a in order] + [["del", k]]})
                for op in (("vals",), ("suf", ""), ("lpi", full[mask % len(full)])):
                    ln, rep = trie_do(ctx, t2, op, [("set", a, ref[a]) for a in order] + [("del", k)])
                    lines.append(ln)
                    replies.append(rep)
                case(ctx, ("trie-ex-del", L, mask, k), nontrivial=k in ref, n=4)
    ctx.count(f"trie-exhaustive-L{L}-tries", 1 << len(keys))
    if use_model and ctx.model_ok:
        d = ctx.driver()
        model = model_batch(ctx, d, lines)
        for i, (ln, a, b) in enumerate(zip(lines, model, replies)):
            if not same_reply(a, b, i in present_del):
                j = max(k for k in range(i + 1) if lines[k] == "t.new")
                ctx.disagree(f"trie exhaustive L={L}: `{ln}`: model {a!r} != implementation {b!r}",
                             {"kind": "trie-lines", "lines": lines[j:i + 1], "model": a, "impl": b})
                break


# ------------------------------------------------------------------------------------------------------------------
def generate(ctx: Ctx):
    src, consts = gen_c14.translate()
    ctx.extra["generated_constants"] = consts
    return [("Ipv8/C14/GenConst.lean", src)]


def known_regressions(ctx: Ctx, use_model=True):
    """fixed scenarios that once failed (kept small; always run first)"""
    ops = readd_after_split_ops()
    im, lines, replies = run_ops(0, None, ops)
    case(ctx, ("regression", "readd"), nontrivial=True, n=len(ops))
    if im.fail is not None:
        report_failure(ctx, im, 0, None, ops)
    if use_model:
        compare(ctx, lines, replies, {"kind": "routing", "me": 0, "m": None, "ops": [list(o) for o in ops]})
    # refresh ids of buckets below the root (section 6 item 9)
    me = int("101" + "0" * (W - 3), 2)
    ops = [("add", (i << (W - 5)) | 1, 0, 1, 1 + i, True) for i in range(20)]
    ops += [("genid", j, r) for j in range(6) for r in (0, 1, (1 << 160) - 1, 1 << 157, 12345678901234567890)]
    ops.append(("dump",))
    im, lines, replies = run_ops(me, None, ops)
    case(ctx, ("regression", "genid"), nontrivial=True, n=len(ops))
    if im.fail is not None:
        report_failure(ctx, im, me, None, ops)
    if use_model:
        compare(ctx, lines, replies, {"kind": "routing", "me": me, "m": None, "ops": [list(o) for o in ops]})


def genid_sweep(ctx: Ctx, use_model=True, factor=4):
    """Bucket.generate_id on buckets of every depth, densely on the deepest ones: for suffix lengths n = 0..12
    (prefix length 160-n) at least factor*2^n real random draws (seeded, so that the replay redraws the same values), plus
    the scripted draws 0, 1, 2^n-1, 2^n, 2^n+1 and random ones against the model; then a sample of shallower depths."""
    from ipv8.dht import routing
    rng = ctx.rng
    lines, replies = [], []
    ref_lines, ref_replies = [], []
    depths = [(W - n, max(16, factor * (1 << n))) for n in range(0, 13)] + [(L, 40) for L in (0, 1, 2, 3, 7, 8, 9, 63, 64, 65, 100, 127, 128, 140)]
    for L, draws in depths:
        prefix = bits(rng.getrandbits(L), L) if L else ""
        b = routing.Bucket(prefix)
        seed = rng.getrandbits(32)
        replay = {"kind": "genid", "prefix": prefix, "draws": draws, "random_seed": seed}
        ctx.count("genid-sweep-suffix-bits:%s" % (W - L if W - L <= 12 else "13+"), draws)
        bad = genid_draws(routing, b, prefix, draws, seed)
        if bad is not None:
            ctx.oracle_fail(bad[0], f"bucket with a {L}-bit prefix (suffix {W - L} bits), draw {bad[2]} of {draws} (random.seed({seed})): {bad[1]}",
                            replay)
        case(ctx, ("genid", L, seed), nontrivial=L > 0, n=draws)
        n = W - L
        for r in [0, 1, (1 << n) - 1, 1 << n, (1 << n) + 1, rng.getrandbits(160), rng.getrandbits(max(1, n))]:
            line, rep = scripted_genid(routing, b, prefix, r)
            if rep == "unscriptable":
                ctx.count("genid-scripted:source-not-scriptable")
                continue
            if rep == "raised":
                ctx.oracle_fail("Bucket.generate_id:raises",
                                f"bucket with prefix {prefix[-24:]!r} ({L} bits): with every random entry point answering from {r}, generate_id raised",
                                {"kind": "genid-scripted", "prefix": prefix, "r": r})
            elif len(rep) != W or not rep.startswith(prefix):
                ctx.oracle_fail("Bucket.generate_id:outside-bucket",
                                f"bucket with prefix {prefix[-24:]!r} ({L} bits): with every random entry point answering from {r} "
                                f"(each within its documented range) the id is {rep}",
                                {"kind": "genid-scripted", "prefix": prefix, "r": r})
            if line is None:
                ctx.count("genid-scripted:several-draws(not-compared-with-model)")
                continue
            lines.append(line)
            replies.append(rep)
            case(ctx, ("genid-scripted", L, r), nontrivial=L > 0)
        # the model's formatting pipeline against CPython's format/int/unhexlify for ARBITRARY draws, including the overflow
        # branch (r >= 2^n: wider suffix, odd hex length) and the no-suffix branch, which the unchanged code never reaches
        for r in [0, (1 << n) - 1, 1 << n, (1 << n) + 1, (1 << (n + 3)) + 5, (1 << (n + 4)) - 1, rng.getrandbits(n + 9)]:
            ref_lines.append(f"rt.genid {pb(prefix)} {W} {r}")
            ref_replies.append(ref_pipeline(prefix, r))
            ctx.count("genid-pipeline-vs-cpython:" + ("in-range" if r < (1 << n) else "overflow"))
    if use_model and ctx.model_ok:
        d = ctx.driver()
        model = model_batch(ctx, d, lines)
        for ln, a, b_ in zip(lines, model, replies):
            if a != b_:
                ctx.disagree(f"generate_id: `{ln[:80]}`: model {a[:170]!r} != implementation {b_[:170]!r}",
                             {"kind": "genid-lines", "line": ln, "model": a, "impl": b_})
                break
        model = model_batch(ctx, d, ref_lines)
        for ln, a, b_ in zip(ref_lines, model, ref_replies):
            if a != b_:
                ctx.disagree(f"generate_id pipeline: `{ln[:80]}`: model {a[:170]!r} != CPython format/unhexlify {b_[:170]!r}",
                             {"kind": "genid-pipeline", "line": ln, "model": a, "cpython": b_})
                break


def genid_draws(routing, b, prefix, draws, seed):
    """real random source, seeded; returns (signature, what, draw index) for the first bad draw, else None"""
    seed_real_random(seed)
    for i in range(draws):
        try:
            g = b.generate_id()
        except Exception as e:
            return ("Bucket.generate_id:raises", f"generate_id raised {type(e).__name__}: {e}", i)
        if len(g) != W // 8 or not bits(int.from_bytes(g, "big")).startswith(prefix) or not b.owns(g):
            return ("Bucket.generate_id:outside-bucket", f"generated id {g.hex()} does not start with the bucket prefix {prefix[-24:]!r}", i)
    return None


def status_grid(ctx: Ctx, use_model=True):
    """Node.status for every failure count 0..4 x every contact class, against the model and against the harness' own
    reading of "live": a node that failed DEAD_AFTER queries in a row is BAD whatever its last contact was"""
    from ipv8.dht import routing
    install_clock(routing)
    lines, replies = [], []
    for failed in range(5):
        for c in CONTACT:
            n = node_cls()(0, 0, 1)
            n.failed = failed
            script_contact(routing, n, c)
            try:
                st = n.status
            except Exception as e:
                ctx.oracle_fail("Node.status:raises", f"failed={failed}, contact class {CONTACT[c]}: {type(e).__name__}: {e}",
                                {"kind": "status", "failed": failed, "contact": c})
                st = "raised:" + type(e).__name__
            if st != "raised" and (st == routing.NODE_STATUS_BAD) != (failed >= DEAD_AFTER):
                ctx.oracle_fail("Node.status:failed-node-not-bad",
                                f"a node with failed={failed} and (last_response age, last_query age)={CONTACT[c]} reports status {st}; "
                                f"BAD={routing.NODE_STATUS_BAD} is expected exactly for failed >= {DEAD_AFTER}",
                                {"kind": "status", "failed": failed, "contact": c})
            lines.append(f"node.status {failed} {1 if is_recent(c) else 0}")
            replies.append(st if isinstance(st, str) else "bad" if st == routing.NODE_STATUS_BAD else "live")
            case(ctx, ("status", failed, c), nontrivial=failed >= DEAD_AFTER and is_recent(c))
            ctx.count("status-grid:%s" % st)
    if use_model and ctx.model_ok:
        model = model_batch(ctx, ctx.driver(), lines)
        for ln, a, b in zip(lines, model, replies):
            if a != b:
                ctx.disagree(f"Node.status: `{ln}`: model {a!r} != implementation {b!r}", {"kind": "status-line", "line": ln})
                break


def deep_walk_scenarios(ctx: Ctx, n: int, use_model=True):
    """closest_nodes on tables that are deep (a cluster of ids sharing 150+ bits with the own id) AND sparse below the top:
    the level walk starts at depth ~155 and has to climb (almost) to the root because fewer than k live nodes sit in the
    deep sub-trees.  Targets at the bottom of the tree, k up to the table size and beyond, some deep nodes dead."""
    rng = ctx.rng
    for s in range(n):
        if len(ctx.failures) >= (1 if ctx.searching else 12):
            break
        me = rng.getrandbits(W)
        ops = []
        deep = rng.sample(range(1, 16), rng.randrange(10, 15))
        rtt0 = rng.choice(RTTS[2:])     # one rtt for all: no eviction while the tree is built, so the buckets have to split
        for t in deep:          # all alive while the tree is built: ten nodes sharing 156 bits force splits down to depth ~156
            ops.append(("add", me ^ t, rng.choice([0, 0, 1]), rtt0, 1 + t, rng.choice([0, 1, 1, 3])))
        shallow_bits = rng.sample([W - 1, W - 2, W - 3, W - 6, W - 12, W - 40, W - 90, 30, 12], rng.randrange(1, 5))
        for j in shallow_bits:
            for _ in range(rng.randrange(1, 4)):
                ops.append(("add", (me ^ (1 << j)) ^ rng.getrandbits(min(j, 24)), 0, rtt0, 100 + j, 1))
        rng.shuffle(ops)
        total = len(ops)
        for t in rng.sample(deep, rng.randrange(0, 4)):      # some of the deep nodes die afterwards (they stay stored)
            ops.append(("set", me ^ t, 2, rng.choice(RTTS), rng.choice([None, 1, 3])))
        ops.append(("dump",))
        for t in ((me, me ^ 1, me ^ rng.choice(deep), me ^ (1 << rng.choice(shallow_bits))) if ctx.thorough() or ctx.searching
                  else (me, me ^ rng.choice(deep))):
            for k in {20, total, rng.randrange(1, 20)}:
                ops.append(("closest", t, k, rng.choice([None, None, me ^ rng.choice(deep)]), rng.random() < 0.5))
        im, lines, replies = run_ops(me, None, ops)
        for kk, vv in im.stats.items():
            ctx.count(kk, vv)
        depth = max((len(k) for k, _ in im.keys()), default=0)
        ctx.count("deep-walk-scenario-depth:%d0+" % (depth // 10))
        case(ctx, ("deepwalk", me, tuple(ops)), nontrivial=depth >= 100, n=len(ops))
        if im.fail is not None:
            report_failure(ctx, im, me, None, ops)
        if use_model:
            compare(ctx, lines, replies, {"kind": "routing", "me": me, "m": None, "ops": [list(o) for o in ops]})


def build_two_tables(me, idlists, stale_draw):
    import random as _r
    pick = _r.Random(stale_draw)
    ims = [Impl(me, None), Impl(me, None)]
    stale = set()
    for im, ids in zip(ims, idlists):
        for i, ident in enumerate(ids):
            im.apply(("add", ident, 0, 1000, 1 + i, 1), i)
        for k, b in im.keys():
            if pick.random() < 0.4:
                b.last_changed = VNOW - 3600
                stale.add(k)
            else:
                b.last_changed = VNOW - 1
    return ims, stale


def refresh_two_tables(ctx: Ctx, n: int):
    """node_maintenance over TWO routing tables (as with IPv4 + IPv6): buckets are grouped by prefix, one lookup per stale
    prefix.  Oracle only: the lookups can be matched one-to-one to the stale prefixes, each target inside its prefix."""
    from ipv8.dht import routing
    rng = ctx.rng
    for s in range(n):
        me = rng.getrandbits(W)
        idlists = [[rng.getrandbits(W) if rng.random() < 0.5 else (me ^ (1 << rng.randrange(W - 12, W))) ^ rng.getrandbits(100)
                    for i in range(rng.choice([3, 12, 30, 60]))] for _ in range(2)]
        stale_draw = rng.getrandbits(64)
        seed = rng.getrandbits(32)
        rec = {"kind": "refresh2", "me": me, "ids": idlists, "stale_draw": stale_draw, "seed": seed}
        ims, stale = build_two_tables(me, idlists, stale_draw)
        seed_real_random(seed)
        try:
            targets = run_maintenance(routing, {"v4": ims[0].rt, "v6": ims[1].rt})
        except Exception as e:
            if raised_by_harness(e):
                raise
            ctx.oracle_fail("DHTCommunity.node_maintenance:raises", f"two tables: {type(e).__name__}: {e}", rec)
            continue
        tbs = [bits(int.from_bytes(t, "big"), 8 * len(t)) for t in targets]
        prefixes = sorted(stale, key=len, reverse=True)
        match = {}

        def assign(pi, seen):
            for ti, tb in enumerate(tbs):
                if tb.startswith(prefixes[pi]) and len(tb) == W and ti not in seen:
                    seen.add(ti)
                    if ti not in match or assign(match[ti], seen):
                        match[ti] = pi
                        return True
            return False
        ok = len(tbs) == len(prefixes) and all(assign(pi, set()) for pi in range(len(prefixes)))
        ctx.count("refresh-two-tables:stale-prefixes=%s" % (len(prefixes) if len(prefixes) < 5 else "5+"))
        case(ctx, ("refresh2", me, seed), nontrivial=len(prefixes) > 1, n=len(targets) + 1)
        if not ok:
            ctx.oracle_fail("DHTCommunity.node_maintenance:refresh-target-outside-bucket",
                            f"two routing tables, stale prefixes {sorted(stale)}: the {len(tbs)} lookups {[t[:12] + '..' for t in tbs]} cannot be "
                            f"matched one-to-one to the stale prefixes (each target inside its prefix)",
                            rec)


def bucket_direct(ctx: Ctx, n: int, use_model=True):
    """the Bucket class on its own (branches the routing table never reaches: add of an id the bucket does not own, split of a
    bucket that is not full), plus add sequences with all eviction kinds at small capacities"""
    from ipv8.dht import routing
    install_clock(routing)
    rng = ctx.rng
    lines, replies = [], []

    def show(b):
        BAD = routing.NODE_STATUS_BAD
        ns = ",".join(f"{x.tag}.{x.address[1]}.{1 if x.status == BAD else 0}.{round(x.rtt * UNIT)}"
                      for x in sorted(b.nodes.values(), key=lambda x: x.tag))
        return f"{pb(b.prefix_id)}/{getattr(b, 'max_size', '?')}={ns}"
    for s in range(n):
        L = rng.randrange(0, 6)
        prefix = bits(rng.getrandbits(L), L) if L else ""
        cap = rng.choice([1, 2, 3, 8])
        b = routing.Bucket(prefix, cap)
        n0 = len(lines)
        lines.append(f"b.new {pb(prefix)} {cap}")
        replies.append("ok")
        for i in range(rng.randrange(1, 3 * cap + 3)):
            inside = rng.random() < 0.8
            head = prefix if inside else bits(rng.getrandbits(max(L, 1)), max(L, 1))
            ident = int((head + bits(rng.getrandbits(W), W))[:W], 2)
            if i and rng.random() < 0.15 and b.nodes:
                ident = int.from_bytes(rng.choice(list(b.nodes)), "big")
            nd = node_cls()(1000 * s + i, ident, 1 + i, key_index=i)
            nd.failed = rng.choice([0, 0, 1, 2])
            rtt = rng.choice(RTTS)
            nd.rtt = rtt / float(UNIT)
            c = rng.choice([0, 1, 3])
            script_contact(routing, nd, c)
            try:
                ok = b.add(nd)
            except Exception as e:
                if raised_by_harness(e):
                    raise
                ctx.oracle_fail("Bucket.add:raises", f"Bucket({prefix!r}, {cap}).add raised {type(e).__name__}: {e}", {"kind": "bucket-direct", "seed": ctx.seed})
                break
            ib = bits(ident)
            if ok and not ib.startswith(prefix):
                ctx.oracle_fail("Bucket.add:node-outside-owner", f"Bucket({prefix!r}).add accepted id {ib[:16]}..", {"kind": "bucket-direct", "seed": ctx.seed})
            if len(b.nodes) > cap:
                ctx.oracle_fail("Bucket.add:over-capacity", f"Bucket({prefix!r}, {cap}) holds {len(b.nodes)} nodes", {"kind": "bucket-direct", "seed": ctx.seed})
            lines.append(f"b.add {ib} {nd.failed} {1 if nd.v_recent else 0} {rtt} {1 + i} {nd.tag}")
            replies.append(("true " if ok else "false ") + show(b))
            if rng.random() < 0.25:
                sp = b.split()
                lines.append("b.split")
                replies.append("none" if sp is None else show(sp[0]) + " " + show(sp[1]))
                if sp is not None:
                    for j, ch in enumerate(sp):
                        for x in ch.nodes.values():
                            if not bits(int.from_bytes(x.id, "big")).startswith(prefix + str(j)) or len(ch.nodes) > cap:
                                ctx.oracle_fail("Bucket.split:wrong-children", f"split of Bucket({prefix!r}, {cap}) misplaces a node or overfills a child",
                                                {"kind": "bucket-direct", "seed": ctx.seed})
        case(ctx, ("bucket-direct", s, prefix, cap), nontrivial=cap < 8, n=len(lines) - n0)
    if use_model and ctx.model_ok:
        model = model_batch(ctx, ctx.driver(), lines)
        for ln, a, b_ in zip(lines, model, replies):
            if a != b_:
                ctx.disagree(f"Bucket (direct): `{ln[:90]}`: model {a[:160]!r} != implementation {b_[:160]!r}", {"kind": "bucket-direct", "line": ln})
                break


def real_node_ids(ctx: Ctx):
    """the hypothesis of every theorem - identifiers have the table's width - checked for the code's own identifier function:
    real Node objects (no scripted id; IPv4 and IPv6 addresses) have W/8-byte ids and a table filled with them stays valid"""
    from ipv8.dht import routing
    from ipv8.messaging.interfaces.udp.endpoint import UDPv6Address
    rng = ctx.rng
    im = Impl(rng.getrandbits(W), None)
    for i in range(60):
        addr = (("%d.%d.%d.%d" % tuple(rng.randrange(1, 255) for _ in range(4)), rng.randrange(1, 65000)) if i % 3 else
                UDPv6Address("2001:db8::%x:%x" % (rng.randrange(1, 65000), rng.randrange(1, 65000)), rng.randrange(1, 65000)))
        try:
            n = routing.Node(_key(i), addr)
            n.last_response = VNOW
            ident = n.id
            if len(ident) != W // 8:
                ctx.oracle_fail("Node.id:wrong-width", f"Node(key, {addr}).id has {len(ident)} bytes, the routing table works on {W // 8}",
                                {"kind": "real-id", "index": i, "address": list(addr)})
                break
            im.rt.add(n)
        except Exception as e:
            if raised_by_harness(e):
                raise
            ctx.oracle_fail("Node.id:raises", f"Node(key, {addr}).id / add raised {type(e).__name__}: {e}",
                            {"kind": "real-id", "index": i, "address": list(addr)})
            break
        ctx.count("real-node-id:" + ("ipv6" if i % 3 == 0 else "ipv4"))
    im.check_tree("table of real nodes")
    if im.fail is not None:
        ctx.oracle_fail(im.fail[0], im.fail[1] + " (real Node objects, ids from calc_node_id)", {"kind": "real-id"})
    case(ctx, ("real-id",), nontrivial=True, n=60)


# ---- the table inside the real DHTCommunity: state the table depends on must not be mutated from outside the table ------------
def _table_view(routing, rt):
    """an Impl around an existing RoutingTable (real Node ids from calc_node_id, own id as the table holds it now)"""
    import collections
    im = object.__new__(Impl)
    im.routing, im.rt, im.fail = routing, rt, None
    im.me = int.from_bytes(rt.my_node_id, "big")
    im.m = routing.MAX_BUCKET_SIZE
    im.stats = collections.Counter()
    im.splits, im.rich_query, im.objs, im.ntag = 1, False, {}, 0
    return im


def run_community(rec: dict, counts=None):
    """one history of a real DHTCommunity (MockIPv8, no network): signed requests of peers arrive through the packet
    handler, peers are discovered, PingChurn steps run, peers change their address (NAT rebinding / roaming), our own
    public address changes.  After every op every routing table of the overlay is judged like any other table, with the
    nodes' REAL identifiers (calc_node_id of their current address) and the table's own id.  Returns (signature, what) or None."""
    import asyncio
    from ipv8.dht import routing
    from ipv8.dht.churn import PingChurn
    from ipv8.dht.community import DHTCommunity
    from ipv8.dht import community as dht_community
    from ipv8.dht.payload import FindRequestPayload, FindResponsePayload, PingRequestPayload, PingResponsePayload
    from ipv8.keyvault.crypto import default_eccrypto
    from ipv8.messaging.interfaces.udp.endpoint import UDPv4Address
    from ipv8.peer import Peer
    from ipv8.test.mocking.endpoint import AutoMockEndpoint, MockEndpoint
    from ipv8.test.mocking.ipv8 import MockIPv8
    from ipv8.dht import churn as dht_churn
    for mod in (routing, dht_community, dht_churn):     # one virtual clock for the table, the community and the churn strategy
        install_clock(mod)
    AutoMockEndpoint.SEND_INET_EXCEPTION_TO_LOOP = False

    def key(i):
        return default_eccrypto.key_from_private_bin(b"LibNaCLSK:" + (rec["key_seed"] * 1000 + i + 1).to_bytes(64, "big"))

    async def main():
        seed_real_random(rec["key_seed"])
        me = MockIPv8(Peer(key(0)), DHTCommunity)
        overlay = me.overlay
        strategy = PingChurn(overlay, ping_interval=10 ** 12)
        npeers = rec["peers"]
        others = [MockIPv8(Peer(key(1 + i)), DHTCommunity) for i in range(npeers)]
        addr = {i: UDPv4Address(*rec["addresses"][i]) for i in range(npeers)}
        sinks = []
        opened = set()
        verdict = None
        sent = []
        real_ez_send = overlay.ez_send

        def spy_ez_send(peer, *payloads, **kwargs):
            sent.extend(p_ for p_ in payloads if isinstance(p_, FindResponsePayload))
            return real_ez_send(peer, *payloads, **kwargs)
        overlay.ez_send = spy_ez_send
        global VNOW
        vnow0 = VNOW
        try:
            for idx, op in enumerate(rec["ops"]):
                kind = op[0]
                VNOW += 1.0         # the virtual clock moves on (request rate limiting looks at it)
                if kind == "request":       # a signed ping-request of peer i arrives from its current address
                    i = op[1]
                    sinks.append(MockEndpoint(addr[i], addr[i]))
                    sinks[-1].open()
                    packet = others[i].overlay.ezr_pack(PingRequestPayload.msg_id, PingRequestPayload(idx % 65000))
                    overlay.on_packet((addr[i], packet))
                elif kind == "discover":    # the peer is introduced to us (on_node_discovered -> ping -> ...) or asks directly
                    i = op[1]
                    overlay.get_requesting_node(Peer(others[i].my_peer.public_key, addr[i]))
                elif kind == "answer":      # we ping the stored node of peer i; its signed response arrives from op[2] (or from where we asked)
                    i = op[1]
                    kb = others[i].my_peer.public_key.key_to_bin()
                    stored = [n for rt in overlay.routing_tables.values() for b in rt.trie.values() for n in b.nodes.values()
                              if n.public_key.key_to_bin() == kb]
                    if stored:
                        node = stored[0]
                        sinks.append(MockEndpoint(node.address, node.address))
                        sinks[-1].open()
                        known = set(overlay.request_cache._identifiers)
                        overlay.ping(node)
                        new = [k for k in overlay.request_cache._identifiers if k not in known]
                        if new:
                            number = overlay.request_cache._identifiers[new[0]].number
                            src = UDPv4Address(*op[2]) if op[2] else node.address
                            if op[2]:
                                addr[i] = src
                            packet = others[i].overlay.ezr_pack(PingResponsePayload.msg_id, PingResponsePayload(number))
                            overlay.on_packet((src, packet))
                            if counts is not None:
                                counts["community-answer:" + ("from-another-ip" if op[2] else "from-the-asked-address")] += 1
                elif kind == "find":        # the network-facing closest-nodes query: a signed find-request of peer i for op[2]
                    i, target = op[1], op[2].to_bytes(W // 8, "big")
                    for a_ in [addr[i]] + [n.address for rt_ in overlay.routing_tables.values() for b_ in rt_.trie.values() for n in b_.nodes.values()]:
                        if a_ not in opened:        # the puncture request goes to a stored node: somebody has to listen there
                            opened.add(a_)
                            sinks.append(MockEndpoint(a_, a_))
                            sinks[-1].open()
                    del sent[:]
                    packet = others[i].overlay.ezr_pack(FindRequestPayload.msg_id, FindRequestPayload(idx % 65000, addr[i], target, 0, True))
                    overlay.on_packet((addr[i], packet))
                    if not sent:
                        if counts is not None:
                            counts["community-find:no-response(requester-rate-limited-or-other-send-path)"] += 1
                    else:
                        rt = overlay.get_routing_table(Peer(others[i].my_peer.public_key, addr[i]))
                        asker = routing.calc_node_id(addr[i], others[i].my_peer.mid)
                        im = _table_view(routing, rt)
                        kmax = getattr(dht_community, "MAX_NODES_IN_FIND", 8)
                        live, want = im.brute_closest(op[2], kmax, asker)
                        got = list(sent[-1].nodes)
                        statuses = {x.status for x in want}
                        if counts is not None:
                            counts["community-find:answered,neighbourhood-" + ("mixed-good-and-unknown" if len(statuses) > 1 else "uniform")] += 1
                        if [x.id for x in got] != [x.id for x in want]:
                            verdict = ("DHTCommunity.on_find_request:not-k-closest-nearest-first",
                                       f"community op {idx}: the find-response for target {bits(op[2])[:20]}.. lists {len(got)} nodes with XOR distances "
                                       f"{[(int.from_bytes(x.id, 'big') ^ op[2]).bit_length() for x in got]} (bit lengths); the {kmax} nearest live nodes other "
                                       f"than the requester, nearest first, have {[(int.from_bytes(x.id, 'big') ^ op[2]).bit_length() for x in want]}"
                                       " [real DHTCommunity]")
                            break
                elif kind == "churn":
                    strategy.take_step()
                elif kind == "move":        # peer i continues from another address
                    addr[op[1]] = UDPv4Address(*op[2])
                elif kind == "move-self":   # what Community.on_introduction_response does when our public address changed
                    overlay.my_estimated_wan = UDPv4Address(*op[1])
                    overlay.my_peer.address = UDPv4Address(*op[1])
                elif kind == "fail":        # a stored node stops answering
                    for rt in overlay.routing_tables.values():
                        nodes = [n for b in rt.trie.values() for n in b.nodes.values()]
                        if nodes:
                            nodes[op[1] % len(nodes)].failed = 2
                if counts is not None:
                    counts["community-op:" + kind] += 1
                for rt in overlay.routing_tables.values():
                    im = _table_view(routing, rt)
                    im.check_tree(f"community op {idx} ({kind})")
                    if im.fail is None and (kind in ("churn", "move-self") or idx % 7 == 0):
                        nodes = im.all_nodes()
                        for t in ([nodes[idx % len(nodes)].id] if nodes else []) + [rt.my_node_id]:
                            live, want = im.brute_closest(int.from_bytes(t, "big"), 8, None)
                            got = rt.closest_nodes(t, max_nodes=8)
                            if len(got) != len(want) or any(a is not b for a, b in zip(got, want)):
                                im._fail("RoutingTable.closest_nodes:not-k-closest",
                                         f"community op {idx} ({kind}): closest_nodes returns {len(got)} nodes that are not the 8 nearest live ones")
                    if im.fail is not None:
                        verdict = (im.fail[0], im.fail[1] + " [routing table inside a real DHTCommunity]")
                        break
                    if counts is not None:
                        counts["community-table-buckets:%s" % min(len(im.keys()), 9)] += 1
                if verdict:
                    break
        finally:
            VNOW = vnow0
            for s_ in sinks:
                s_.close()
            for o in [me, *others]:
                await o.stop()
        return verdict
    import logging
    loop = asyncio.new_event_loop()
    logging.disable(logging.CRITICAL)
    try:
        return loop.run_until_complete(main())
    finally:
        logging.disable(logging.NOTSET)
        loop.close()


def community_histories(ctx: Ctx, n: int):
    import collections
    rng = ctx.rng

    def rand_addr():
        return [f"{rng.randrange(1, 223)}.{rng.randrange(0, 256)}.{rng.randrange(0, 256)}.{rng.randrange(1, 255)}", rng.randrange(1024, 65000)]
    for s in range(n):
        if len(ctx.failures) >= (1 if ctx.searching else 12):
            break
        npeers = rng.choice([16, 24, 40])
        ops = []
        for i in range(npeers):     # first contact of everybody: enough nodes for a few splits
            ops.append((rng.choice(["request", "discover"]), i))
        for _ in range(rng.randrange(30, 90)):
            x = rng.random()
            if x < 0.40:
                ops.append(("request", rng.randrange(npeers)))
            elif x < 0.50:
                ops.append(("discover", rng.randrange(npeers)))
            elif x < 0.58:
                ops.append(("answer", rng.randrange(npeers), rand_addr() if rng.random() < 0.6 else None))
            elif x < 0.64:
                ops.append(("find", rng.randrange(npeers), rng.getrandbits(W)))
            elif x < 0.70:
                ops.append(("churn",))
            elif x < 0.88:
                ops.append(("move", rng.randrange(npeers), rand_addr()))
            elif x < 0.94:
                ops.append(("move-self", rand_addr()))
            else:
                ops.append(("fail", rng.randrange(1000)))
        # closing: a churn step, everybody returns from a new address, our own address moves, everybody returns again
        ops.append(("churn",))
        for i in range(npeers):
            ops += [("move", i, rand_addr()), ("request", i)]
        ops += [("move-self", rand_addr())] + [("request", i) for i in range(npeers)] + [("churn",)]
        ops += [("answer", i, rand_addr() if i % 2 else None) for i in range(npeers)] + [("churn",)]
        # network-facing closest-nodes queries over the final table (some nodes have answered us = GOOD, others only asked = UNKNOWN)
        ops += [("find", rng.randrange(npeers), rng.getrandbits(W)) for _ in range(12)]
        rec = {"kind": "community", "key_seed": rng.getrandbits(24), "peers": npeers,
               "addresses": [rand_addr() for _ in range(npeers)], "ops": [list(o) for o in ops]}
        counts = collections.Counter()
        try:
            verdict = run_community(rec, counts)
        except Exception as e:
            if raised_by_harness(e):
                raise
            import traceback
            tb = traceback.extract_tb(e.__traceback__)
            where = next((f"{fr.filename.split('/ipv8/')[-1]}:{fr.lineno}" for fr in reversed(tb) if "/ipv8/" in fr.filename), "?")
            verdict = ("DHTCommunity:raises", f"a community history raised {type(e).__name__}: {str(e)[:100]} (at {where})")
        for k, v in counts.items():
            ctx.count(k, v)
        case(ctx, ("community", rec["key_seed"], len(ops)), nontrivial=True, n=len(ops))
        if verdict is not None:
            ctx.oracle_fail(verdict[0], verdict[1], rec)


class ProbeLock:
    """stands in for RoutingTable.lock: same mutual exclusion (it delegates to the real RLock), but tells the harness when
    another thread starts waiting for it - so that a two-thread schedule is deterministic without any sleeping"""

    def __init__(self, real):
        import threading
        self.real = real
        self.main = threading.get_ident()
        self.attempt = threading.Event()

    def acquire(self, *a, **k):
        import threading
        if threading.get_ident() != self.main:
            self.attempt.set()
        return self.real.acquire(*a, **k)

    def release(self):
        return self.real.release()

    def __enter__(self):
        self.acquire()
        return self

    def __exit__(self, *a):
        self.release()
        return False


def exec_two_threads(rec: dict):
    """run one recorded two-thread schedule; returns (impl, lines, replies, (signature, what) or None, waited)"""
    import threading
    me, m = rec["me"], rec["m"]
    im = Impl(me, m)
    lines, replies = [f"rt.new {bits(me)} {im.m}"], ["ok"]
    n_ops = [0]

    def do(op):
        ln, rep = im.apply(tuple(op), n_ops[0])
        n_ops[0] += 1
        lines.append(ln)
        replies.append(rep)
    for op in rec["pre"]:
        do(op)
    worker_kind, wid = rec["worker"]
    wtag = im.ntag
    if worker_kind == "add":
        wnode = node_cls()(wtag, wid, 777)
        im.objs[wtag] = wnode
        im.ntag += 1
        wnode.failed, wnode.rtt = 0, 1000 / float(UNIT)
        script_contact(im.routing, wnode, 1)
    result = {}

    def worker():
        try:
            if worker_kind == "add":
                result["value"] = im.rt.add(wnode)
            elif worker_kind == "rmbad":
                result["value"] = im.rt.remove_bad_nodes()
            else:
                result["value"] = im.rt.closest_nodes(wid.to_bytes(W // 8, "big"), max_nodes=8)
        except Exception as e:
            result["error"] = e
    probe = ProbeLock(im.rt.lock)
    im.rt.lock = probe
    probe.real.acquire()
    th = threading.Thread(target=worker, daemon=True)
    th.start()
    waited = probe.attempt.wait(10)
    try:
        if waited:
            for op in rec["main"]:
                do(op)
    finally:
        probe.real.release()
    th.join(20)
    im.rt.lock = probe.real
    site = {"add": "add", "rmbad": "remove_bad_nodes", "closest": "closest_nodes"}[worker_kind]
    how = f"worker {worker_kind} waits at the lock while the main thread adds {len(rec['main'])} nodes into the bucket the call concerns"
    if th.is_alive():
        return im, lines, replies, ("RoutingTable.lock:deadlock", f"two threads ({how}): the worker did not finish after the lock was released"), waited
    if not waited:
        for op in rec["main"]:      # the call asked for no mutual exclusion: it simply ran first
            do(op)
    if "error" in result:
        e = result["error"]
        if raised_by_harness(e):
            raise InfraError(f"harness error in the worker thread: {type(e).__name__}: {e}")
        return im, lines, replies, (f"RoutingTable.{site}:raises-with-two-threads", f"two threads ({how}): {type(e).__name__}: {e}"), waited
    verdict = None
    if worker_kind == "add":
        res = result["value"]
        wline = f"rt.add {bits(wid)} 0 1 1000 777 {wtag}"
        wrep = "none" if res is None else f"stored {res.tag} {res.address[1]}"
        if res is not None and im.rt.get(res.id) is not res:
            verdict = ("RoutingTable.add:returned-node-not-stored", f"two threads ({how}): add returned a node that the table does not hold")
    elif worker_kind == "rmbad":
        wline, wrep = "rt.rmbad", "[" + ",".join(map(str, sorted(x.tag for x in result["value"]))) + "]"
    else:
        wline, wrep = f"rt.closest {bits(wid)} 8 none", "[" + ",".join(str(x.tag) for x in result["value"]) + "]"
    k0 = len(lines) if waited else len(lines) - len(rec["main"])     # the order the lock imposes
    lines.insert(k0, wline)
    replies.insert(k0, wrep)
    for op in (("dump",), ("closest", wid, 8, None), ("closest", me, 20, None)):
        do(op)
    if verdict is None and im.fail is not None:
        verdict = (im.fail[0], im.fail[1] + f" [after a two-thread schedule: {how}]")
    return im, lines, replies, verdict, waited


def two_thread_schedules(ctx: Ctx, n: int, use_model=True):
    """The table carries a lock, so "any sequence of add / remove_bad_nodes" includes calls from two threads.  Deterministic
    schedule around that lock (no sleeping: a probe around the real RLock reports when the worker starts waiting): the main
    thread holds the lock, a worker thread calls add / remove_bad_nodes / closest_nodes and waits, the main thread meanwhile
    adds nodes that split the very bucket the worker's call concerns, then lets go.  What the worker did must be explainable
    as having happened AFTER the main thread's adds (the order the lock imposes): the model runs that sequential history and
    must agree, and the tree oracle must hold."""
    rng = ctx.rng
    for s in range(n):
        if len(ctx.failures) >= (1 if ctx.searching else 12):
            break
        me = rng.getrandbits(W)
        m = rng.choice([None, None, 2, 3])
        scratch = Impl(me, m)
        if scratch.rt is None or getattr(scratch.rt, "lock", None) is None:
            ctx.count("two-threads:table-has-no-lock")
            continue
        depth = rng.choice([0, 0, 1, 3, 10])
        pre = []

        def own():
            head = ((me >> (W - depth)) << (W - depth)) if depth else 0
            return head | rng.getrandbits(W - depth)

        def inside():
            """an id inside the bucket that currently owns our own id (the bucket that is allowed to split)"""
            p_ = scratch.rt.get_bucket(me.to_bytes(W // 8, "big")).prefix_id
            return ((int(p_, 2) << (W - len(p_))) if p_ else 0) | rng.getrandbits(W - len(p_))

        def pre_add(ident):
            op = ("add", ident, 0, 1000, rng.randrange(1, 60000), 1)
            scratch.apply(op, len(pre))
            pre.append(list(op))
        for _ in range(scratch.m * depth + rng.randrange(0, scratch.m)):      # some history: the tree may already have split
            pre_add(own())
        guard = 0
        while len(scratch.rt.get_bucket(me.to_bytes(W // 8, "big")).nodes) < scratch.m and guard < 4 * scratch.m:
            pre_add(inside())       # fill the bucket on our own path
            guard += 1
        worker_kind = rng.choice(["add", "add", "add", "add", "rmbad", "closest"])
        rec = {"kind": "two-threads", "me": me, "m": m, "pre": pre, "worker": [worker_kind, inside()],
               "main": [["add", inside() if rng.random() < 0.8 else own(), 0, 1000, rng.randrange(1, 60000), 1]
                        for _ in range(rng.randrange(2, 2 * scratch.m + 2))]}
        im, lines, replies, verdict, waited = exec_two_threads(rec)
        ctx.count("two-threads:" + ("worker-waited-at-the-lock" if waited else "worker-never-touched-the-lock"))
        ctx.count("two-threads-worker:" + worker_kind)
        case(ctx, ("two-threads", me, worker_kind, len(rec["main"])), nontrivial=waited and im.splits > 0, n=len(lines))
        if verdict is not None:
            ctx.oracle_fail(verdict[0], verdict[1], rec)
        elif use_model:
            compare(ctx, lines, replies, {"kind": "two-threads-lines"})


def run(ctx: Ctx):
    if ctx.replay_input is not None:
        return replay(ctx, ctx.replay_input)
    known_regressions(ctx)
    status_grid(ctx)
    genid_sweep(ctx, factor=ctx.scale(4, 64))
    trie_exhaustive(ctx, ctx.scale(2, 3))
    trie_random(ctx, ctx.scale(300, 4000))
    small_scope(ctx, 3, ctx.scale(3, 4), 2, [0, 5 << (W - 3)] if not ctx.thorough() else [i << (W - 3) for i in range(8)])
    if ctx.thorough():
        small_scope(ctx, 2, 5, 1, [0, 3 << (W - 2), (1 << W) - 1])
        small_scope(ctx, 4, 3, 3, [0, 9 << (W - 4)])
    community_histories(ctx, ctx.scale(4, 30))
    two_thread_schedules(ctx, ctx.scale(12, 120))
    bucket_direct(ctx, ctx.scale(60, 600))
    real_node_ids(ctx)
    refresh_two_tables(ctx, ctx.scale(6, 60))
    deep_walk_scenarios(ctx, ctx.scale(1, 20))
    routing_scenarios(ctx, ctx.scale(12, 170), [60, 150, 150, 300, 400, 700] if ctx.thorough() else [60, 150, 150, 300, 400])
    routing_scenarios(ctx, ctx.scale(1, 6), [2000, 2600] if ctx.thorough() else [2000])
    if ctx.model_ok and not ctx.failures and not ctx.disagreements:
        require_coverage(ctx)


def search(ctx: Ctx, reason: str):
    """implementation-only, bounded (about one more quick run); stops at the first failing input"""
    known_regressions(ctx, use_model=False)
    status_grid(ctx, use_model=False)
    genid_sweep(ctx, use_model=False, factor=16)
    if ctx.failures:
        return
    trie_exhaustive(ctx, 2, use_model=False)
    trie_random(ctx, 1500, use_model=False)
    if ctx.failures:
        return
    small_scope(ctx, 3, 4, 2, [0, 3 << (W - 3), 5 << (W - 3)], use_model=False)
    if ctx.failures:
        return
    real_node_ids(ctx)
    community_histories(ctx, 6)
    two_thread_schedules(ctx, 20, use_model=False)
    if ctx.failures:
        return
    refresh_two_tables(ctx, 10)
    deep_walk_scenarios(ctx, 4, use_model=False)
    if ctx.failures:
        return
    routing_scenarios(ctx, 60, [150, 300, 400, 700], use_model=False)


def replay(ctx: Ctx, rec: dict):
    r = rec.get("replay", rec)
    if r.get("kind") in ("routing", "smallscope") and "ops" in r:
        ops = [tuple(o) for o in r["ops"]]
        im, lines, replies = run_ops(r["me"], r.get("m"), ops)
        for ln, rep in list(zip(lines, replies))[-12:]:
            print(f"replay: {ln[:100]} -> {rep[:160]}")
        if im.fail is not None:
            print(f"replay: property FAILS: {im.fail[0]}: {im.fail[1]}")
            ctx.oracle_fail(im.fail[0], im.fail[1], r)
        else:
            print("replay: property holds on this input")
        case(ctx, ("replay",), True)
        compare(ctx, lines, replies, {"kind": "routing", "me": r["me"], "m": r.get("m")})
    elif r.get("kind") == "two-threads":
        im, lines, replies, verdict, waited = exec_two_threads(r)
        print(f"replay: worker {r['worker'][0]} {'waited at the lock' if waited else 'never touched the lock'}; property",
              f"FAILS: {verdict[0]}: {verdict[1]}" if verdict else "holds on this input")
        if verdict:
            ctx.oracle_fail(verdict[0], verdict[1], r)
        case(ctx, ("replay",), True)
    elif r.get("kind") == "community":
        verdict = run_community(r)
        print("replay: property", f"FAILS: {verdict[0]}: {verdict[1]}" if verdict else "holds on this input")
        if verdict:
            ctx.oracle_fail(verdict[0], verdict[1], r)
        case(ctx, ("replay",), True)
    elif r.get("kind") == "refresh2":
        from ipv8.dht import routing
        ims, stale = build_two_tables(r["me"], r["ids"], r["stale_draw"])
        seed_real_random(r["seed"])
        targets = run_maintenance(routing, {"v4": ims[0].rt, "v6": ims[1].rt})
        tbs = [bits(int.from_bytes(t, "big"), 8 * len(t)) for t in targets]
        print(f"replay: stale prefixes {sorted(stale)}; lookups {[t[:16] + '..' for t in tbs]}")
        # each stale prefix needs its own lookup: count per prefix the targets inside it (sufficient test for the replay print)
        bad = [p for p in stale if not any(t.startswith(p) for t in tbs)] or (["count"] if len(tbs) != len(stale) else [])
        print("replay: property", f"FAILS: no lookup inside {bad}" if bad else "holds on this input")
        if bad:
            ctx.oracle_fail("DHTCommunity.node_maintenance:refresh-target-outside-bucket", f"no lookup inside {bad}", r)
        case(ctx, ("replay",), True)
    elif r.get("kind") == "status":
        from ipv8.dht import routing
        install_clock(routing)
        n = node_cls()(0, 0, 1)
        n.failed = r["failed"]
        script_contact(routing, n, r["contact"])
        st = n.status
        ok = (st == routing.NODE_STATUS_BAD) == (r["failed"] >= DEAD_AFTER)
        print(f"replay: node failed={r['failed']} contact ages={CONTACT[contact_code(r['contact'])]} -> status {st}; property {'holds' if ok else 'FAILS'}")
        if not ok:
            ctx.oracle_fail("Node.status:failed-node-not-bad", "replayed input still fails", r)
        case(ctx, ("replay",), True)
    elif r.get("kind") in ("genid", "genid-scripted"):
        from ipv8.dht import routing
        b = routing.Bucket(r["prefix"])
        if r["kind"] == "genid":
            bad = genid_draws(routing, b, r["prefix"], r["draws"], r["random_seed"])
        else:
            _, rep = scripted_genid(routing, b, r["prefix"], r["r"])
            bad = (("Bucket.generate_id:raises", "generate_id raised", 0) if rep == "raised" else
                   None if len(rep) == W and rep.startswith(r["prefix"]) else
                   ("Bucket.generate_id:outside-bucket", f"id {rep}", 0))
        if bad is not None:
            print(f"replay: property FAILS: {bad[0]}: {bad[1]} (draw {bad[2]})")
            ctx.oracle_fail(bad[0], bad[1], r)
        else:
            print("replay: property holds on this input")
        case(ctx, ("replay",), True)
    elif r.get("kind") == "trie":
        from ipv8.dht.trie import Trie
        t = Trie("01")
        ref = {}
        for op in r["ops"]:
            ln, rep = trie_do(ctx, t, tuple(op), [])
            print(f"replay: {ln} -> {rep}")
            if op[0] == "set":
                ref[op[1]] = op[2]
            if op[0] == "del":
                ref.pop(op[1], None)
        n0 = len(ctx.failures)
        trie_oracle(ctx, t, ref, "replay", r)
        print("replay: property", "FAILS" if len(ctx.failures) > n0 else "holds on this input")
        case(ctx, ("replay",), True)
    else:
        print("replay: record carries no re-runnable input (kind=%s)" % r.get("kind"))
