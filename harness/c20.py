"""
C20 — compiled (vp_compile) and dataclass payloads behave like their plain interpreted definition.

Link to the code:
  * translator tools/gen_c20.py regenerates lean/Ipv8/C20/Gen.lean on every run: the registry of formats, type_map as
    a finite table read off the live function, the guard of DataClassPayload.__new__ (AST, probe as fallback) and every
    shipped VariablePayload definition;
  * correspondence: random payload definitions (1..12 fields over all registered formats incl. `bits` in the middle,
    nested payloads and payload lists in mixed forms, defaults of many Python types incl. objects without an evaluable
    repr, fix_pack_/fix_unpack_ hooks also on container fields, user __init__ with/without **kwargs or keyword-only
    defaults, old-style superclass) are built THREE ways with the real code (plain VariablePayload, vp_compile,
    @dataclass DataClassPayload); constructor binding, to_pack_list, from_unpack_list and the structure of the source
    text that the three _compile_* generators emit are compared with the Lean model (driver drv_c20, values are free
    terms: atoms and hook applications, evaluated here with the real hooks);
  * oracle (independent of the model): the three real forms are compared with each other: constructor outcome and
    attributes, pack lists, bytes of Serializer.pack_serializable, fields and offset after unpack_serializable,
    from_unpack_list; shipped compiled definitions are compared with an interpreted twin rebuilt from their
    format_list/names.
"""
from __future__ import annotations

import ast
import dataclasses
import itertools
import json
import keyword
import sys
from binascii import hexlify, unhexlify

import gen_c20
from vlib import Ctx

PROPERTY = "C20"
LEAN_TARGETS = ["Ipv8.C20.Props"]
PROPS_FILE = "Ipv8/C20/Props.lean"
DRIVER = "drv_c20"
RULE = ("a case = one (definition, form, operation, input): definitions are random (1..12 formats over the registry, "
        "bits anywhere, nested payload / payload-list fields whose classes are in a random form, defaults on a name "
        "suffix, hooks on random fields, user __init__ none/with/without **kwargs); operations are constructor calls "
        "(positional/keyword mixes, omitted defaults, and invalid shapes: surplus positional, missing, duplicate, "
        "unknown keyword), to_pack_list, pack to bytes, unpack_serializable, from_unpack_list (also None entries and "
        "wrong arity); distinct = distinct (definition shape, call shape / operation); non-trivial = the definition has "
        "bits, a nested field, a default or a hook, or the call mixes positional and keyword arguments")
TRUSTED_BASE = [
    "tools/gen_c20.py: introspection of the live Serializer registry and VariablePayload subclasses; type_map as a finite "
    "table read off the live function; AST of DataClassPayload.__new__ (is convert_to_payload called unconditionally)",
    "Ipv8/C20/Model.lean `pyBind`: hand model of CPython's argument binding for def f(self, p.., p=d.., **kw); the "
    "evaluator for the generated code trees; both tied to CPython by the correspondence run",
    "harness/c20.py: the parser that turns the source text emitted by _compile_init/_compile_from_unpack_list/"
    "_compile_to_pack_list into the model's GenInit/GenUnpack/GenPack trees",
    "byte level: Serializer.pack_serializable is a function of to_pack_list() only (checked on every generated "
    "instance by re-packing a stub that returns the same pack list)",
]
ASSUMPTIONS = [
    "well-formed definitions: distinct field names that are Python identifiers outside the reserved set (self, cls, "
    "Payload, defaults, keywords, names of VariablePayload attributes, the fix_pack_*/fix_unpack_* hook namespace); "
    "len(names) = sum of slots (8 for bits, else 1) - VariablePayload's docstring: names are the field names for the "
    "given formats",
    "the user __init__ (if any) has exactly the field names as parameters, in order, and forwards them unchanged; an "
    "old-style superclass __init__ stores each argument under its own name: vp_compile regenerates __init__ from names "
    "and signature defaults by design, constructor BODIES are not part of a definition as the property lists it",
    "hooks are class-level functions defined before vp_compile runs (the interpreted form looks them up on the instance "
    "at call time, the compiled form on the class at compile time)",
    "values handed to from_unpack_list by the Serializer are never None (the compiled form guards hooks with "
    "`None if x is None`); the guard itself is modelled and exercised",
    "keyword arguments have distinct keys (Python dict)",
    "dataclass fields: default_factory and kw_only-with-a-required-field are exercised and reported as a known finding "
    "(refused loudly); init=False, InitVar and __post_init__ are NOT exercised: the generated __init__ replaces the "
    "dataclass one, so they are silently ignored - constructor-body behaviour, outside the claim like any user __init__ "
    "body",
]

RESERVED = set(keyword.kwlist) | {"self", "cls", "Payload", "None", "True", "False", "names", "format_list", "msg_id",
                                  "to_pack_list", "from_unpack_list", "args", "kwargs", "defaults"}
# also reserved: anything starting with fix_pack_ / fix_unpack_ (the hook namespace), non-identifiers
NAME_POOL_NOTE = "no pool name starts with fix_pack_/fix_unpack_; 'fix' and 'fix_pack' themselves are allowed"
NAME_POOL = ["a", "b", "c", "d", "e", "f", "g", "h", "k", "m", "n", "p", "q", "r", "s", "t", "u", "w", "x", "y", "z",
             "alpha", "beta", "key", "value", "data", "flag", "ident", "port", "host", "_x", "x1", "x_2", "Name",
             "circuit_id", "identifier", "info_hash", "fix", "fix_pack", "packer", "index", "out"]

# ---------------------------------------------------------------------------------------------------------------
# value generators per registered format: kind, generator of a *wire level* value
INT_RANGES = {"B": (0, 255), "H": (0, 65535), "I": (0, 2 ** 32 - 1), "l": (-2 ** 31, 2 ** 31 - 1),
              "q": (-2 ** 63, 2 ** 63 - 1), "Q": (0, 2 ** 64 - 1)}
FIXED_BYTES = {"20s": 20, "32s": 32, "64s": 64, "74s": 74}
MULTI = {"BBH": "BBH", "BH": "BH", "HH": "HH", "LL": "II", "QH": "QH", "QL": "QI", "QQHHBH": "QQHHBH"}
STR_SAMPLES = ["", "hello", "it's", 'say "hi"', "back\\slash", "new\nline", "tab\t", "unicodé ✓", "3", "None", "a b",
               "{x}", "'''", "\x00nul", "ü" * 5]


def rbytes(rng, n):
    return bytes(rng.randrange(256) for _ in range(n))


def rint(rng, lo, hi):
    c = rng.random()
    if c < 0.15:
        return lo
    if c < 0.3:
        return hi
    if c < 0.5:
        return rng.randrange(max(lo, -3), min(hi, 300) + 1)
    return rng.randrange(lo, hi + 1)


def rfloat(rng, single):
    return rng.choice([0.0, 0.5, -2.25, 1024.0, -0.125, 3.0, 1e10 if not single else 65536.0, -1.5])


def raddr4(rng):
    return (".".join(str(rng.randrange(256)) for _ in range(4)), rng.randrange(65536))


def raddr6(rng):
    return (rng.choice(["::1", "2001:db8::1", "fe80::1234:5678", "::"]), rng.randrange(65536))


def rhost(rng):
    return (rng.choice(["tribler.org", "localhost", "a.b.example", "x"]), rng.randrange(65536))


def gen_wire(rng, fmt):
    """a value the packer of `fmt` accepts and that decodes to an equal value"""
    if fmt in INT_RANGES:
        return rint(rng, *INT_RANGES[fmt])
    if fmt == "?":
        return rng.random() < 0.5
    if fmt == "c":
        return rbytes(rng, 1)
    if fmt in ("f", "d"):
        return rfloat(rng, fmt == "f")
    if fmt in FIXED_BYTES:
        return rbytes(rng, FIXED_BYTES[fmt])
    if fmt in MULTI:       # packs only through a hook; a plain VariablePayload passes ONE value -> every form fails alike
        return tuple(rint(rng, *INT_RANGES[c]) for c in MULTI[fmt])
    if fmt == "ccB":
        return (rbytes(rng, 1), rbytes(rng, 1), rng.randrange(256))
    if fmt == "4SH":
        return (rbytes(rng, 4), rng.randrange(65536))
    if fmt == "c20s":
        return (rbytes(rng, 1), rbytes(rng, 20))
    if fmt == "ipv4":
        return raddr4(rng)
    if fmt == "ip_address":
        return raddr4(rng) if rng.random() < 0.6 else raddr6(rng)
    if fmt == "address":
        return rng.choice([raddr4, raddr6, rhost])(rng)
    if fmt in ("raw", "varlenH", "varlenI", "doublevarlenH"):
        return rbytes(rng, rng.choice([0, 1, 2, 5, 17, 40]))
    if fmt == "varlenBx2":
        return rbytes(rng, 2 * rng.randrange(6))
    if fmt == "varlenHx20":
        return rbytes(rng, 20 * rng.randrange(3))
    if fmt in ("varlenHutf8", "varlenIutf8"):
        return rng.choice(STR_SAMPLES)
    if fmt == "varlenH-list":
        return [rbytes(rng, rng.randrange(4)) for _ in range(rng.randrange(4))]
    if fmt == "arrayH-?":
        return [rng.random() < 0.5 for _ in range(rng.randrange(5))]
    if fmt == "arrayH-q":
        return [rint(rng, *INT_RANGES["q"]) for _ in range(rng.randrange(5))]
    if fmt == "arrayH-d":
        return [rfloat(rng, False) for _ in range(rng.randrange(4))]
    if fmt == "flags":
        return sorted({2 ** rng.randrange(16) for _ in range(rng.randrange(4))})
    if fmt == "node-list":
        return []
    return None


def fmt_kind(fmt):
    if fmt in INT_RANGES:
        return "int"
    if fmt in FIXED_BYTES or fmt in ("raw", "varlenH", "varlenI", "doublevarlenH", "varlenBx2", "varlenHx20"):
        return "bytes"
    if fmt in ("varlenHutf8", "varlenIutf8"):
        return "str"
    if fmt in ("?", "bits"):
        return "bool"
    return "other"


# hook pairs per kind: (name, api->wire, wire->api); the api value is derived from the wire value
def _inc(v):
    return v + 1


def _dec(v):
    return v - 1


def _unhex(v):
    return unhexlify(v)


def _hex(v):
    return hexlify(v).decode()


def _rev(v):
    return v[::-1]


def _neg(v):
    return not v


def _wrap(v):
    return v[0]


def _unwrap(v):
    return (v,)


def _ident(v):
    return v


class Opaque:
    """a default value whose repr is not a Python expression"""

    def __init__(self, k):
        self.k = k

    def __repr__(self):
        return f"<Opaque {self.k}>"


OPAQUES = [Opaque(i) for i in range(3)]

def _sorted_tuple(v):
    return tuple(sorted(v, key=repr))


HOOKS = {"tuple": (_ident, tuple), "set": (_ident, set), "sortedtuple": (_ident, _sorted_tuple), "int": (_inc, _dec), "bytes": (_unhex, _hex), "str": (_rev, _rev), "bool": (_neg, _neg), "other": (_wrap, _unwrap)}

NATIVE = {"?": "bool", "q": "int", "d": "float", "varlenH": "bytes", "varlenHutf8": "str",
          "arrayH-?": "co:bool", "arrayH-q": "co:int", "arrayH-d": "co:float"}
# frozen, model-independent expectation of what a native annotation means on the wire
SPEC_TYPE_FORMAT = {"bool": "?", "int": "q", "float": "d", "bytes": "varlenH", "str": "varlenHutf8",
                    "co:bool": "arrayH-?", "co:int": "arrayH-q", "co:float": "arrayH-d"}


class Field:
    __slots__ = ("kind", "fmt", "sub", "names", "ty", "ck", "ann")

    def __init__(self, kind, fmt, sub, names, ty, ck="list", ann="plain"):
        self.kind, self.fmt, self.sub, self.names, self.ty = kind, fmt, sub, names, ty
        self.ck = ck        # container the dataclass annotation names: list | tuple | set
        self.ann = ann      # how the annotation is written: plain | ellipsis (tuple[T, ...]) | pair (tuple[T, str]) | literal ([Cls])


class Defn:
    """a payload definition, independent of the form it is realised in"""

    def __init__(self):
        self.fields: list[Field] = []
        self.names: list[str] = []
        self.user_init = None           # None | "kw" | "nokw"
        self.defaults: dict = {}        # name -> python value
        self.fp: dict = {}              # name -> kind
        self.fu: dict = {}
        self.uid = 0
        self.super_n = 0                # the first super_n names go to an old-style superclass __init__
        self.hook_style: dict = {}      # "p:<name>" / "u:<name>" -> method | static | class | unbound
        self.str_ann = False            # dataclass form: annotations written as strings where they can be
        self.kwonly = 0                 # the last `kwonly` names (all with defaults) are keyword-only in the user __init__
        self.derived: set = set()       # unpack hooks that the dataclass form must derive from the annotation itself
        self.nform: dict = {}           # form -> {field index -> form of the nested class}
        self.classes: dict = {}
        self.depth = 0

    def field_of(self, name):
        for f in self.fields:
            if name in f.names:
                return f
        raise KeyError(name)

    def dable(self):
        if any(f.kind == "bits" for f in self.fields) or self.super_n:
            return False
        return not any(isinstance(v, (list, dict, set)) for v in self.defaults.values())

    def forms(self):
        return ["I", "C"] + (["D"] if self.dable() else [])

    def shape(self):
        return (tuple((f.kind, f.fmt, f.sub.shape() if f.sub else None) for f in self.fields), self.user_init, self.super_n,
                self.kwonly,
                tuple(sorted(self.defaults)), tuple(sorted(self.fp)), tuple(sorted(self.fu)))


_uid = itertools.count()


def gen_defn(rng, formats, depth=0, max_fields=12) -> Defn:
    d = Defn()
    d.uid = next(_uid)
    d.depth = depth
    nf = rng.choice([1, 1, 2, 2, 3, 3, 4, 5, 6, 8, 10, 12])
    nf = min(nf, max_fields)
    pool = [n for n in NAME_POOL if n not in RESERVED]
    rng.shuffle(pool)
    pool = pool + [f"fld{i}" for i in range(120)]
    pi = 0
    has_raw = False
    for i in range(nf):
        c = rng.random()
        last = i == nf - 1
        if c < 0.14:
            names = pool[pi:pi + 8]
            pi += 8
            d.fields.append(Field("bits", "bits", None, names, None))
        elif c < 0.30 and depth < 2:
            sub = gen_defn(rng, formats, depth + 1, max_fields=4)
            kind = "nested" if rng.random() < 0.5 else "nlist"
            if kind == "nested":
                d.fields.append(Field(kind, None, sub, [pool[pi]], f"se:N{sub.uid}"))
            else:
                ck, ann = rng.choice([("list", "plain"), ("list", "plain"), ("tuple", "plain"), ("tuple", "ellipsis"),
                                      ("list", "literal")])
                ty = f"lit:N{sub.uid}" if ann == "literal" else {"list": "cs:", "tuple": "cot:se:"}[ck] + f"N{sub.uid}"
                d.fields.append(Field(kind, None, sub, [pool[pi]], ty, ck, ann))
            pi += 1
        else:
            fmt = rng.choice(formats)
            if fmt == "raw" and not last and rng.random() < 0.85:
                fmt = "varlenH"       # raw anywhere but last swallows the rest: keep it rare
            if fmt in MULTI or fmt in ("ccB", "4SH", "c20s"):
                if rng.random() < 0.7:
                    fmt = rng.choice(["I", "H", "q", "varlenH", "varlenHutf8", "?", "20s"])
            ty = NATIVE[fmt] if fmt in NATIVE and rng.random() < 0.6 else "tv:" + fmt
            ck, ann = "list", "plain"
            if ty.startswith("co:"):
                ck, ann = rng.choice([("list", "plain"), ("tuple", "plain"), ("tuple", "ellipsis"), ("set", "plain")])
                ty = {"list": "co:", "tuple": "cot:", "set": "cos:"}[ck] + ty[3:]
            d.fields.append(Field("prim", fmt, None, [pool[pi]], ty, ck, ann))
            pi += 1
            has_raw |= fmt == "raw"
    d.names = [n for f in d.fields for n in f.names]
    # hooks
    for f in d.fields:
        for n in f.names:
            if f.kind in ("prim", "bits"):
                k = fmt_kind(f.fmt)
                if k == "other" and f.fmt not in MULTI:
                    continue
                if rng.random() < 0.18:
                    d.fp[n] = k
                if rng.random() < 0.18:
                    d.fu[n] = k
    # a tuple[...] / set[...] annotation says the field holds that container: the plain definition of such a field is the
    # array / payload-list format plus an unpack rule restoring the container (the dataclass form has to derive it)
    # a user's own unpack rule on an array field - possibly the builtin tuple / set itself, whatever the annotation says
    for f in d.fields:
        if f.kind == "prim" and f.ty.startswith(("co:", "cot:", "cos:")) and rng.random() < 0.3:
            d.fu[f.names[0]] = rng.choice(["tuple", "set", "sortedtuple"])
    for f in d.fields:
        if f.ck in ("tuple", "set") and f.names[0] not in d.fu:
            d.fu[f.names[0]] = f.ck
            d.derived.add(f.names[0])
    for n in d.fp:
        d.hook_style["p:" + n] = rng.choice(["method", "method", "static", "class", "unbound"])
    for n in d.fu:
        if n not in d.derived:
            d.hook_style["u:" + n] = rng.choice(["method", "method", "static", "unbound"])
    d.str_ann = rng.random() < 0.4
    # user __init__ and defaults (suffix of the names)
    c = rng.random()
    if c >= 0.45 and c < 0.57:
        d.user_init = "star"    # `def __init__(self, *args, **kwargs)` that only forwards: no parameter is named like a field
    if c < 0.45:
        d.user_init = rng.choice(["kw", "nokw"])
        nd = rng.choice([0, 1, 1, 2, 3, len(d.names)])
        nd = min(nd, len(d.names))
        for n in d.names[len(d.names) - nd:]:
            d.defaults[n] = gen_default(rng, d, n)
        if nd and rng.random() < 0.3:
            d.kwonly = nd       # `def __init__(self, a, *, b=.., c=..)` / dataclass field(default=.., kw_only=True)
    if d.user_init is None and rng.random() < 0.22:
        lead = 0
        while lead < len(d.fields) and d.fields[lead].kind == "prim":
            lead += 1
        if lead:
            d.super_n = rng.randrange(1, lead + 1)
    for form in ("I", "C", "D"):
        d.nform[form] = {}
        for i, f in enumerate(d.fields):
            if f.sub is not None:
                av = f.sub.forms()
                if f.sub.kwonly:
                    av = [x for x in av if x != "I"]    # a plain class with keyword-only parameters cannot be decoded
                d.nform[form][i] = form if (form in av and rng.random() < 0.5) else rng.choice(av)
    return d


def gen_default(rng, d: Defn, name):
    f = d.field_of(name)
    if f.kind == "bits":
        return rng.choice([0, 1, True, False])
    if f.kind != "prim":
        return None
    c = rng.random()
    if c < 0.08:
        return None
    if c < 0.16:
        return rng.choice([float("inf"), float("-inf"), float("nan"), OPAQUES[0], OPAQUES[1], OPAQUES[2], Ellipsis,
                           frozenset({1, 2}), range(3), 1j])
    if c < 0.28 and fmt_kind(f.fmt) == "other":
        return rng.choice(["hello", "3", 'q"uote', {"k": [1, 2.5, None]}, (1, "x", b"\x00")])
    w = gen_wire(rng, f.fmt)
    if name in d.fp and w is not None:
        try:
            w = HOOKS[d.fp[name]][1](w)     # api level value
        except Exception:
            pass
    return w


# ---------------------------------------------------------------------------------------------------------------
# building the three real forms


def _mk_hook_pack(fn):
    def fix_pack(self, value):
        return fn(value)
    return fix_pack


def _mk_hook_unpack(fn):
    def fix_unpack(cls, value):
        return fn(value)
    return classmethod(fix_unpack)


import functools  # noqa: E402
import operator  # noqa: E402

# callables that are NOT bound through the instance (no descriptor): what `fix_pack_ip = socket.inet_aton` is
UNBOUND = {_inc: functools.partial(operator.add, 1), _dec: functools.partial(operator.add, -1), _unhex: unhexlify,
           _neg: operator.not_, _rev: operator.itemgetter(slice(None, None, -1))}


def styled_hook(fn, style, pack):
    """a rule in the way a class body can declare it: ordinary method (pack) / classmethod (unpack), staticmethod,
    classmethod, or a builtin / C-level callable assigned directly"""
    if style == "static":
        return staticmethod(fn)
    if style == "class":
        return classmethod(lambda cls, value: fn(value))
    if style == "unbound" and fn in UNBOUND:
        return UNBOUND[fn]
    return _mk_hook_pack(fn) if pack else _mk_hook_unpack(fn)


def namespace_for(d: Defn, form: str, with_init=True):
    from ipv8.messaging.lazy_payload import VariablePayload
    ns = {}
    for n, k in d.fp.items():
        ns["fix_pack_" + n] = styled_hook(HOOKS[k][0], d.hook_style.get("p:" + n, "method"), True)
    for n, k in d.fu.items():
        if form == "D" and n in d.derived:
            continue        # convert_to_payload has to derive this one from the tuple[...] / set[...] annotation
        ns["fix_unpack_" + n] = staticmethod(HOOKS[k][1]) if k in ("tuple", "set") and n not in d.derived \
            else styled_hook(HOOKS[k][1], d.hook_style.get("u:" + n, "method"), False)
    if with_init and d.user_init == "star":
        env = {"_VP": VariablePayload}
        exec("def __init__(self, *args, **kwargs):\n    _VP.__init__(self, *args, **kwargs)\n", env)
        ns["__init__"] = env["__init__"]
    elif with_init and d.user_init is not None:
        plist = [f"{n}=_D[{n!r}]" if n in d.defaults else n for n in d.names]
        if d.kwonly:
            plist.insert(len(plist) - d.kwonly, "*")
        params = ", ".join(plist)
        fwd = ", ".join(d.names)
        kw = ", **kwargs" if d.user_init == "kw" else ""
        src = f"def __init__(self, {params}{kw}):\n    _VP.__init__(self, {fwd}{kw})\n"
        env = {"_D": d.defaults, "_VP": VariablePayload}
        exec(src, env)
        ns["__init__"] = env["__init__"]
    return ns


def fmt_list_for(d: Defn, form: str):
    out = []
    for i, f in enumerate(d.fields):
        if f.kind == "nested":
            out.append(build_nested(d, form, i))
        elif f.kind == "nlist":
            out.append([build_nested(d, form, i)])
        else:
            out.append(f.fmt)
    return out


FALLBACKS: list = []      # (outer form, nested form that could not be built): exported to the evidence counters


def build_nested(d: Defn, form: str, i: int):
    """class of the nested definition of field i; falls back to the interpreted form when the chosen form cannot be
    created (that failure is reported when the nested definition itself is checked)"""
    try:
        return build(d.fields[i].sub, d.nform[form][i])
    except Exception:  # noqa: BLE001
        FALLBACKS.append((form, d.nform[form][i]))
        d.nform[form][i] = "I"
        return build(d.fields[i].sub, "I")


PY_TYPES = {"bool": bool, "int": int, "float": float, "bytes": bytes, "str": str}


def annotation_for(d: Defn, i: int, f: Field, rng_choice=0):
    from ipv8.messaging.payload_dataclass import type_from_format
    if f.kind == "nested":
        return build_nested(d, "D", i)
    ty = f.ty
    if f.kind == "nlist":
        elem = build_nested(d, "D", i)
    elif ty.startswith("tv:"):
        return type_from_format(ty[3:])
    elif ty.startswith(("co:", "cot:", "cos:")):
        elem = PY_TYPES[ty.split(":", 1)[1]]
    else:
        return PY_TYPES[ty]
    if f.ann == "literal":
        return [elem]
    if f.ann == "ellipsis":
        return tuple[elem, ...]
    if f.ann == "pair":
        return tuple[elem, str]
    return {"list": list, "tuple": tuple, "set": set}[f.ck][elem]


def annotation_text(d: Defn, i: int, f: Field, ann):
    """the annotation as SOURCE TEXT (what `from __future__ import annotations` / a quoted annotation leaves in the class)
    where it can be written so that get_type_hints resolves it in the generated module: builtin types, containers of
    them, and nested dataclass payloads that were published there by their own conversion; otherwise the object"""
    names = {bool: "bool", int: "int", float: "float", bytes: "bytes", str: "str"}

    def elem_text(e):
        if isinstance(e, type) and e in names:
            return names[e]
        if isinstance(e, type) and getattr(sys.modules.get(generated_module()), e.__name__, None) is e:
            return e.__name__
        return None

    if isinstance(ann, list):
        et = elem_text(ann[0])
        return f"[{et}]" if et else ann
    if isinstance(ann, type) and ann in names:
        return names[ann]
    origin = getattr(ann, "__origin__", None)
    if origin in (list, tuple, set):
        args = ann.__args__
        et = elem_text(args[0])
        if et is None:
            return ann
        rest = "".join(", ..." if a is Ellipsis else ", " + (elem_text(a) or "int") for a in args[1:])
        return f"{origin.__name__}[{et}{rest}]"
    if isinstance(ann, type):
        return elem_text(ann) or ann
    return ann


def old_style_base(d: Defn):
    """an old-style Payload whose __init__ takes the first super_n field names and stores them"""
    from ipv8.messaging.serialization import Payload
    names = d.names[:d.super_n]
    fmts = [f.fmt for f in d.fields[:d.super_n]]
    src = f"def __init__(self, {', '.join(names)}):\n" + "".join(f"    self.{n} = {n}\n" for n in names)
    env = {}
    exec(src, env)

    def to_pack_list(self):
        return [(f, getattr(self, n)) for f, n in zip(fmts, names)]

    def from_unpack_list(cls, *args):
        return cls(*args)

    return type(f"Old{d.uid}", (Payload,), {"format_list": list(fmts), "__init__": env["__init__"],
                                            "to_pack_list": to_pack_list, "from_unpack_list": classmethod(from_unpack_list)})


def generated_module():
    """convert_to_payload does setattr(sys.modules[cls.__module__], cls.__name__, cls): give it a module of its own"""
    import types
    name = "c20_generated_classes"
    if name not in sys.modules:
        sys.modules[name] = types.ModuleType(name)
    return name


def build(d: Defn, form: str, fresh=False):
    """the class of definition `d` in `form`; raises whatever class creation raises"""
    if not fresh and form in d.classes:
        c = d.classes[form]
        if isinstance(c, Exception):
            raise c
        return c
    from ipv8.messaging.lazy_payload import VariablePayload, vp_compile
    from ipv8.messaging.payload_dataclass import DataClassPayload
    try:
        if form in ("I", "C"):
            ns = namespace_for(d, form)
            ns["format_list"] = fmt_list_for(d, form)
            ns["names"] = list(d.names)
            bases = (VariablePayload, old_style_base(d)) if d.super_n else (VariablePayload,)
            cls = type(f"N{d.uid}", bases, ns)
            if form == "C":
                cls = vp_compile(cls)
        else:
            ns = namespace_for(d, form, with_init=False)
            fields = []
            for i, f in enumerate(d.fields):
                n = f.names[0]
                ann = annotation_for(d, i, f, d.uid + i)
                if d.str_ann:
                    ann = annotation_text(d, i, f, ann)
                if n in d.defaults:
                    kwo = bool(d.kwonly) and n in d.names[len(d.names) - d.kwonly:]
                    fields.append((n, ann, dataclasses.field(default=d.defaults[n], kw_only=kwo)))
                else:
                    fields.append((n, ann))
            cls = dataclasses.make_dataclass(f"N{d.uid}", fields, bases=(DataClassPayload,), namespace=ns)
            cls.__module__ = generated_module()
            if not fresh:
                cls.__new__(cls)        # what the first instantiation does: convert_to_payload(cls)
    except Exception as e:
        if not fresh:
            d.classes[form] = e
        raise
    if not fresh:
        d.classes[form] = cls
    return cls


# ---------------------------------------------------------------------------------------------------------------
# values and canonical forms


def gen_values(rng, d: Defn):
    """wire-level and api-level value *specs* per name (nested instances are specs, realised per form)"""
    wire, api = {}, {}
    for f in d.fields:
        if f.kind == "nested":
            v = ("inst", f.sub, gen_values(rng, f.sub)[1])
            wire[f.names[0]] = api[f.names[0]] = v
        elif f.kind == "nlist":
            v = ("list", [("inst", f.sub, gen_values(rng, f.sub)[1]) for _ in range(rng.choice([0, 1, 2, 3]))])
            wire[f.names[0]] = api[f.names[0]] = v
        elif f.kind == "bits":
            for n in f.names:
                w = rng.choice([0, 1])
                wire[n] = w
                api[n] = apply_hook(d.fp, n, w, inverse=True)
        else:
            w = gen_wire(rng, f.fmt)
            n = f.names[0]
            wire[n] = w
            api[n] = apply_hook(d.fp, n, w, inverse=True)
    return wire, api


def apply_hook(hooks, n, w, inverse):
    if n in hooks:
        try:
            return HOOKS[hooks[n]][1 if inverse else 0](w)
        except Exception:
            return w
    return w


def realise(spec, d: Defn, form: str, name: str):
    """turn a value spec into a real object for the class of `d` in `form`"""
    if isinstance(spec, tuple) and len(spec) == 3 and spec[0] == "inst" and isinstance(spec[1], Defn):
        f = d.field_of(name)
        sform = d.nform[form][d.fields.index(f)]
        return make_instance(spec[1], sform, spec[2])
    if isinstance(spec, tuple) and len(spec) == 2 and spec[0] == "list" and isinstance(spec[1], list):
        f = d.field_of(name)
        sform = d.nform[form][d.fields.index(f)]
        return [make_instance(s[1], sform, s[2]) for s in spec[1]]
    return spec


def make_instance(d: Defn, form: str, api_vals: dict):
    cls = build(d, form)
    npos = len(d.names) - d.kwonly      # keyword-only names cannot be given positionally to the plain definition
    return cls(*[realise(api_vals[n], d, form, n) for n in d.names[:npos]],
               **{n: realise(api_vals[n], d, form, n) for n in d.names[npos:]})


def canon(v):
    from ipv8.messaging.serialization import Serializable
    if isinstance(v, Serializable):
        names = getattr(type(v), "names", None) or sorted(vars(v))
        return ("inst", tuple((n, canon(getattr(v, n, "<missing>"))) for n in names))
    if isinstance(v, (list, tuple)):
        return (type(v).__name__ if type(v) in (list, tuple) else "tuple", tuple(canon(x) for x in v))
    if isinstance(v, (set, frozenset)):
        return (type(v).__name__, tuple(sorted((canon(x) for x in v), key=repr)))
    if isinstance(v, dict):
        return ("dict", tuple(sorted((repr(k), canon(x)) for k, x in v.items())))
    if isinstance(v, float):
        return ("float", repr(v))
    return (type(v).__name__, v if isinstance(v, (int, str, bytes, bool, type(None))) else repr(v))


def exc_name(e):
    return type(e).__name__


def attempt(fn):
    try:
        return ("ok", fn())
    except Exception as e:  # noqa: BLE001
        return ("err", exc_name(e))


def attrs_of(obj):
    return tuple((k, canon(v)) for k, v in vars(obj).items())


# ---------------------------------------------------------------------------------------------------------------
# protocol lines


def defn_tokens(d: Defn, form: str):
    if form == "D":
        items = []
        for i, f in enumerate(d.fields):
            items.append(f.ty)
        fm = "[" + ",".join(items) + "]"
    else:
        items = []
        for f in d.fields:
            items.append({"prim": "s:" + str(f.fmt), "bits": "s:bits", "nested": f"c:N{f.sub.uid}" if f.sub else "",
                          "nlist": f"l:N{f.sub.uid}" if f.sub else ""}[f.kind])
        fm = "[" + ",".join(items) + "]"
    names = "[" + ",".join(d.names) + "]"
    init = {None: "-", "star": "-", "kw": "kw", "nokw": "nokw"}[d.user_init]   # a forwarding *args __init__ binds like none
    if d.super_n and form != "D":
        init = f"super:{d.super_n}"
    if d.kwonly and form != "D":
        init = ("kwok:" if d.user_init == "kw" else "kwo:") + str(d.kwonly)
    dfl = []
    for j, n in enumerate(d.names):
        if n in d.defaults:
            # the generated __init__ binds the default OBJECTS of the signature (no text splice): same value always
            dfl.append(f"{n}=d{j}>d{j}")
    fu = [n for n in d.fu if not (form == "D" and n in d.derived)]
    return [fm, names, init, "[" + ",".join(dfl) + "]", "[" + ",".join(d.fp) + "]", "[" + ",".join(fu) + "]"]


class TermEval:
    """evaluates the model's symbolic answers with the real hooks"""

    def __init__(self, d: Defn, env: dict):
        self.d, self.env = d, env

    def term(self, s: str):
        s = s.strip()
        if s.endswith(")"):
            i = s.index("(")
            f, inner = s[:i], s[i + 1:-1]
            v = self.term(inner)
            if f in ("tuple", "set"):
                return {"tuple": tuple, "set": set}[f](v)
            n = f[3:]
            if f.startswith("fp_"):
                return HOOKS[self.d.fp[n]][0](v)
            return HOOKS[self.d.fu[n]][1](v)
        return self.env[s]

    def attrs(self, reply: str):
        """('ok', ((name, canon), ...)) | ('err', kind) | ('raise', exc) when a hook raises during evaluation"""
        if reply.startswith("err:"):
            return ("err", reply[4:])
        body = reply[3:] if reply.startswith("ok ") else ""
        out = []
        try:
            for it in [x for x in body.split(";") if x]:
                k, t = it.split("=", 1)
                out.append((k, canon(self.term(t))))
        except KeyError:
            raise
        except Exception as e:  # noqa: BLE001
            return ("err", exc_name(e))
        return ("ok", tuple(out))

    def packlist(self, reply: str):
        if reply.startswith("err:"):
            return ("err", reply[4:])
        body = reply[3:] if reply.startswith("ok ") else ""
        out = []
        try:
            for ent in [x for x in body.split("|") if x]:
                tag, rest = ent.split(":", 1)
                out.append((tag, tuple(canon(self.term(t)) for t in rest.split(",") if t)))
        except KeyError:
            raise
        except Exception as e:  # noqa: BLE001
            return ("err", exc_name(e))
        return ("ok", tuple(out))


# errors: the model names the exception kind; class creation failures of any kind are "CompileError"
def same_outcome(model, real):
    if model[0] != real[0]:
        return False
    if model[0] == "ok":
        return model[1] == real[1]
    return model[1] == real[1]


# ---------------------------------------------------------------------------------------------------------------
# parsing the generated source text into the model's trees


def gen_structure(cls, d: Defn):
    """render what _compile_* emitted for `cls` in the driver's `gen` syntax, or None when the text is unavailable"""
    try:
        srcs = [cls.__init__.__code__.co_filename, cls.from_unpack_list.__func__.__code__.co_filename,
                cls.to_pack_list.__code__.co_filename]
        trees = [ast.parse(s).body[0] for s in srcs]
    except Exception:  # noqa: BLE001
        return None
    fi, fu, fp = trees
    if not all(isinstance(t, ast.FunctionDef) for t in trees):
        return None
    # init
    a = fi.args
    if a.vararg or a.kwarg or a.kwonlyargs or a.posonlyargs:
        return "init ¿signature"
    params = [x.arg for x in a.args][1:]
    real_defaults = cls.__init__.__defaults__ or ()
    nd = len(real_defaults)
    ps = []
    for j, p in enumerate(params):
        k = j - (len(params) - nd)
        if k >= 0:
            want = d.defaults.get(p, "<none>")
            idx = d.names.index(p) if p in d.names else -1
            atom = f"d{idx}" if canon(real_defaults[k]) == canon(want) else f"<{real_defaults[k]!r}>"
            ps.append(f"{p}={atom}")
        else:
            ps.append(p)
    body = fi.body
    sets = []
    ok_first = (len(body) > 0 and isinstance(body[0], ast.Expr)
                and ast.unparse(body[0]) == "Payload.__init__(self)")
    for st in body[1:] if ok_first else body:
        if (isinstance(st, ast.Assign) and len(st.targets) == 1 and isinstance(st.targets[0], ast.Attribute)
                and isinstance(st.targets[0].value, ast.Name) and st.targets[0].value.id == "self"
                and isinstance(st.value, ast.Name)):
            sets.append(f"{st.targets[0].attr}={st.value.id}")
        else:
            sets.append("¿" + ast.unparse(st).replace(" ", ""))
    if not ok_first:
        sets.insert(0, "¿no-Payload-init")
    s_init = ",".join(ps) + ";" + ",".join(sets)
    # from_unpack_list
    up = [x.arg for x in fu.args.args][1:]
    ua = []
    ret = fu.body[0] if fu.body else None
    if isinstance(ret, ast.Return) and isinstance(ret.value, ast.Call) and ast.unparse(ret.value.func) == "cls" \
            and not ret.value.keywords:
        for x in ret.value.args:
            if isinstance(x, ast.Name):
                ua.append(x.id)
            elif isinstance(x, ast.IfExp):
                n = x.test.left.id if isinstance(x.test, ast.Compare) and isinstance(x.test.left, ast.Name) else "¿"
                want = (f"None if {n} is None else cls.fix_unpack_{n}({n})",
                        f"cls.fix_unpack_{n}({n}) if {n} is not None else None")
                if n == "¿" and isinstance(x.test, ast.Compare) and isinstance(x.test.left, ast.Name):
                    n = x.test.left.id
                ua.append("G:" + n if ast.unparse(x) in want else "¿" + ast.unparse(x).replace(" ", ""))
            else:
                ua.append("¿" + ast.unparse(x).replace(" ", ""))
    else:
        ua.append("¿body")
    s_un = ",".join(up) + ";" + ",".join(ua)
    # to_pack_list
    ents = []
    ret = fp.body[0] if fp.body else None
    if isinstance(ret, ast.Return) and isinstance(ret.value, ast.List) and not fp.args.args[1:]:
        for t in ret.value.elts:
            if not (isinstance(t, ast.Tuple) and t.elts and isinstance(t.elts[0], ast.Constant)):
                ents.append("¿entry")
                continue
            parts = []
            for x in t.elts[1:]:
                u = ast.unparse(x)
                if isinstance(x, ast.Attribute) and u == f"self.{x.attr}":
                    parts.append(x.attr)
                elif isinstance(x, ast.Call) and len(x.args) == 1 and isinstance(x.args[0], ast.Attribute) \
                        and u == f"self.fix_pack_{x.args[0].attr}(self.{x.args[0].attr})":
                    parts.append("H:" + x.args[0].attr)
                else:
                    parts.append("¿" + u.replace(" ", ""))
            ents.append(str(t.elts[0].value) + ":" + ",".join(parts))
    else:
        ents.append("¿body")
    return f"ok init {s_init} unpack {s_un} pack {'|'.join(ents)}"


# ---------------------------------------------------------------------------------------------------------------
# constructor call shapes


def call_shapes(rng, d: Defn, n_valid, n_invalid):
    """[(kind, [positional names], [keyword names in order], extra)]: names index the value table"""
    n = len(d.names)
    nd = len(d.defaults)
    shapes = [("positional", list(d.names), [])]
    kws = list(d.names)
    rng.shuffle(kws)
    shapes.append(("keyword", [], kws))
    for _ in range(n_valid):
        omit = set()
        if nd and rng.random() < 0.6:
            dn = d.names[n - nd:]
            omit = set(dn[-rng.randrange(1, nd + 1):]) if rng.random() < 0.6 else {x for x in dn if rng.random() < 0.5}
        kmax = min([d.names.index(x) for x in omit] + [n])
        k = rng.randrange(kmax + 1)
        posn = list(d.names[:k])
        rest = [x for x in d.names[k:] if x not in omit]
        rng.shuffle(rest)
        kind = "mixed" if posn and rest else ("positional" if posn else "keyword")
        if omit:
            kind += "+defaults"
        shapes.append((kind, posn, rest))
    for _ in range(n_invalid):
        k = rng.randrange(n + 1)
        posn, rest = list(d.names[:k]), list(d.names[k:])
        c = rng.choice(["surplus", "missing", "duplicate", "unknown", "surplus+kw"])
        if c == "surplus":
            shapes.append(("bad:surplus", list(d.names) + ["#extra"], []))
        elif c == "surplus+kw":
            shapes.append(("bad:surplus+kw", list(d.names) + ["#extra"], [d.names[-1]]))
        elif c == "missing":
            cand = [x for x in rest if x not in d.defaults] or rest
            if not cand:
                continue
            drop = rng.choice(cand)
            shapes.append(("bad:missing" if drop not in d.defaults else "keyword+defaults", posn,
                           [x for x in rest if x != drop]))
        elif c == "duplicate":
            if not posn:
                continue
            shapes.append(("bad:duplicate", posn, rest + [rng.choice(posn)]))
        else:
            shapes.append(("bad:unknown", posn, rest + ["#unknown"]))
    return shapes


# ---------------------------------------------------------------------------------------------------------------


def compose_bytes(ser, obj):
    """bytes of an instance computed compositionally, the way the Lean model `bytesOf`/`packerWith` does: a nested
    instance contributes pack(">H", len) + its own bytes, a payload list pack(">B", count) + that per item"""
    from struct import pack
    out = b""
    for ent in obj.to_pack_list():
        tag, args = ent[0], ent[1:]
        if tag == "payload":
            inner = compose_bytes(ser, args[0])
            out += pack(">H", len(inner)) + inner
        elif tag == "payload-list":
            out += pack(">B", len(args[0]))
            for it in args[0]:
                inner = compose_bytes(ser, it)
                out += pack(">H", len(inner)) + inner
        else:
            out += ser.get_packer_for(tag).pack(*args)
    return out


class Stub:
    def __init__(self, pl):
        self.pl = pl

    def to_pack_list(self):
        return self.pl


def serializer():
    from ipv8.messaging.serialization import ListOf, Serializer
    s = Serializer()
    try:
        from ipv8.messaging.anonymization.payload import Flags
        s.add_packer("flags", Flags())
    except Exception:  # noqa: BLE001
        pass
    try:
        from ipv8.dht.payload import NodePacker
        s.add_packer("node-list", ListOf(NodePacker(s)))
    except Exception:  # noqa: BLE001
        pass
    return s


def enc_default(v):
    """a default value in a replay file (not every default has an evaluable repr)"""
    if isinstance(v, Opaque):
        return {"opaque": v.k}
    if isinstance(v, float) and (v != v or v in (float("inf"), float("-inf"))):
        return {"float": repr(v)}
    return repr(v)


def dec_default(x):
    import re
    if isinstance(x, dict) and "opaque" in x:
        return OPAQUES[x["opaque"] % len(OPAQUES)]
    if isinstance(x, dict) and "float" in x:
        return float(x["float"])
    m = re.fullmatch(r"<Opaque (\d+)>", x) if isinstance(x, str) else None
    if m:
        return OPAQUES[int(m.group(1)) % len(OPAQUES)]
    if x in ("inf", "-inf", "nan"):
        return float(x)
    return eval(x, {"Ellipsis": Ellipsis})


def defn_replay(d: Defn):
    return {"fields": [{"kind": f.kind, "fmt": f.fmt, "names": f.names, "ty": f.ty, "ck": f.ck, "ann": f.ann,
                        "sub": defn_replay(f.sub) if f.sub else None} for f in d.fields],
            "user_init": d.user_init, "super_n": d.super_n, "kwonly": d.kwonly, "hook_style": d.hook_style,
            "str_ann": d.str_ann, "derived": sorted(d.derived),
            "defaults": {k: enc_default(v) for k, v in d.defaults.items()},
            "fix_pack": d.fp, "fix_unpack": d.fu, "nested_forms": {k: {str(i): v for i, v in m.items()}
                                                                   for k, m in d.nform.items()}}


class Run:
    def __init__(self, ctx: Ctx, use_model: bool):
        self.ctx = ctx
        self.use_model = use_model
        self.lines: list[str] = []
        self.aborted = 0
        self.checks: list = []          # (line, evaluator -> model outcome, real outcome, what, replay)
        self.ser = serializer()
        self.formats = [f for f in self.ser.get_available_formats() if f not in ("payload", "payload-list", "bits",
                                                                                    "flags", "node-list")]

    def ask(self, line, conv, real, what, replay):
        if self.use_model:
            self.lines.append(line)
            self.checks.append((line, conv, real, what, replay))

    def flush(self):
        if not self.use_model or not self.lines:
            return
        replies = self.ctx.driver().batch(self.lines)
        for (line, conv, real, what, replay), rep in zip(self.checks, replies):
            try:
                model = conv(rep)
            except Exception as e:  # noqa: BLE001
                model = ("unparsable", f"{rep!r}: {exc_name(e)}")
            if (isinstance(model, tuple) and isinstance(real, tuple) and model[:1] == ("err",) and real[:1] == ("err",)
                    and model != real):
                # both raise; WHICH exception is not part of the property (the model's kind is recorded for the reader)
                self.ctx.count(f"corr:exception-kind-differs:model={model[1]}:impl={real[1]}")
                continue
            if isinstance(model, str) and isinstance(real, str) and model.startswith("err:") and real.startswith("err:") \
                    and model != real:
                self.ctx.count(f"corr:exception-kind-differs:model={model[4:]}:impl={real[4:]}")
                continue
            if model != real:
                self.ctx.disagree(f"{what}: model {str(model)[:300]} != implementation {str(real)[:300]} on `{line[:300]}`",
                                  {"line": line, "model_reply": rep, "impl": str(real)[:2000], **replay})
        self.lines, self.checks = [], []

    # ---- one definition ----------------------------------------------------------------------------
    def definition(self, d: Defn, n_valid=3, n_invalid=2, n_inst=2):
        ctx, rng = self.ctx, self.ctx.rng
        rep_d = {"definition": defn_replay(d)}
        nontrivial = bool(d.defaults or d.fp or d.fu or any(f.kind != "prim" for f in d.fields))
        ctx.count(f"def:fields={len(d.fields)}")
        ctx.count(f"def:names={min(len(d.names), 40) // 4 * 4}+")
        ctx.count(f"def:user_init={d.user_init}")
        ctx.count(f"def:old-style-super={min(d.super_n, 3)}")
        ctx.count(f"def:keyword-only-defaults={min(d.kwonly, 3)}")
        ctx.count(f"def:defaults={min(len(d.defaults), 4)}")
        ctx.count(f"def:hooks={min(len(d.fp) + len(d.fu), 4)}")
        ctx.count(f"def:depth={d.depth}")
        for f in d.fields:
            ctx.count(f"field:{f.kind}")
            if f.kind == "prim":
                ctx.count(f"fmt:{f.fmt}")
        for v in d.defaults.values():
            ctx.count(f"default-type:{type(v).__name__}")
        if any(f.kind == "bits" for f in d.fields[:-1]) and len(d.fields) > 1:
            ctx.count("def:bits-not-last")
        forms = d.forms()
        ctx.count("forms:" + "".join(forms))
        for form in forms:
            for i, f in enumerate(d.fields):
                if f.sub is not None:
                    ctx.count(f"nested-form:{form}-holds-{d.nform[form][i]}")
                    inner = d.nform[form][i]
                    if form == "C" and inner == "I":
                        B(ctx, "nesting:compiled-holds-interpreted")
                    if form == "I" and inner == "C":
                        B(ctx, "nesting:interpreted-holds-compiled")
                    if form == "D" and inner != "D":
                        B(ctx, "nesting:dataclass-holds-other")
        B(ctx, "compile:with-defaults" if d.defaults else "compile:without-defaults")
        for n_, k_ in d.fu.items():
            if n_ in d.derived and "D" in forms:
                B(ctx, "derived:" + k_)
            elif k_ in ("tuple", "set", "sortedtuple") and "D" in forms:
                B(ctx, "derived:user-rule-kept")
        for key_, st_ in d.hook_style.items():
            ctx.count(f"hook-style:{'pack' if key_[0] == 'p' else 'unpack'}:{st_}")
            if key_[0] == "p" and st_ != "method":
                B(ctx, "hook-style:pack-" + st_)
            if key_[0] == "u" and st_ in ("static", "unbound"):
                B(ctx, "hook-style:unpack-not-classmethod")
        if "D" in forms and d.str_ann:
            ctx.count("annotations:as-text")
            if any(f.ck in ("tuple", "set") for f in d.fields):
                B(ctx, "annotations:text-container")
            if any(f.sub is not None for f in d.fields):
                B(ctx, "annotations:text-with-nested")
        for n_, k_ in d.fp.items():
            ctx.count(f"hook:fix_pack:{k_}")
        for n_, k_ in d.fu.items():
            ctx.count(f"hook:fix_unpack:{k_}")
        # --- class creation -----------------------------------------------------------------------
        classes = {}
        for form in forms:
            r = attempt(lambda form=form: build(d, form))
            if r[0] == "ok":
                classes[form] = r[1]
            else:
                ctx.count(f"class-creation:{form}:{r[1]}")
                if form == "I":
                    raise RuntimeError(f"harness bug: interpreted class creation failed: {r}")
                if form == "C":
                    self.ask(" ".join(["gen", "C"] + defn_tokens(d, "C") + ["[]", "[]"]), lambda rep: rep,
                             "err:CompileError", "vp_compile fails", {**rep_d, "form": "C"})
                    sig = "_compile_init:default-splice" if d.defaults else "vp_compile:class-creation"
                    ctx.oracle_fail(sig, f"vp_compile raises {r[1]} for a definition whose interpreted form works "
                                    f"(defaults {d.defaults!r})", {**rep_d, "form": form, "stage": "class-creation"})
                if form == "D":
                    ctx.oracle_fail("convert_to_payload:class-creation", f"converting the dataclass form raises {r[1]} "
                                    f"(annotations {[f.ty + '/' + f.ann for f in d.fields]}) for a definition whose "
                                    "interpreted form works", {**rep_d, "form": form, "stage": "class-creation"})
        if "D" in classes:
            # the dataclass form converts itself on first instantiation; do it now so that class-level data is set
            cd = classes["D"]
            _, api = gen_values(rng, d)
            r = attempt(lambda: cd(*[realise(api[n], d, "D", n) for n in d.names]))
            if r[0] == "err":
                ctx.count(f"class-creation:D:{r[1]}")
                sig = "_compile_init:default-splice" if d.defaults else "convert_to_payload:class-creation"
                ctx.oracle_fail(sig, f"first instantiation of the dataclass form raises {r[1]} (defaults {d.defaults!r})",
                                {**rep_d, "form": "D", "stage": "class-creation"})
                del classes["D"]
            else:
                # format_list chosen by type_map vs the frozen expectation
                want = fmt_list_for(d, "D")
                got = list(cd.format_list)
                if [canon_fmt(x) for x in want] != [canon_fmt(x) for x in got]:
                    ctx.oracle_fail("type_map:format", f"dataclass annotations {[f.ty for f in d.fields]} became "
                                    f"{[canon_fmt(x) for x in got]}, expected {[canon_fmt(x) for x in want]}",
                                    {**rep_d, "form": "D", "stage": "type_map"})
                if list(cd.names) != d.names:
                    ctx.oracle_fail("convert_to_payload:names", f"names {cd.names} != fields {d.names}",
                                    {**rep_d, "form": "D", "stage": "names"})
        toks = {form: defn_tokens(d, form) for form in forms}
        # --- generated code structure -----------------------------------------------------------
        for form in forms:
            if form == "I" or form not in classes:
                continue
            gs = gen_structure(classes[form], d)
            if gs is None:
                ctx.count("gen:text-unavailable")
                continue
            if "¿" in gs:
                # the emitted text has a shape this parser does not know (restyled generator): behaviour is still
                # compared below, the structural comparison is skipped rather than reported
                ctx.count("gen:shape-not-recognised")
                continue
            ctx.count("gen:compared")
            B(ctx, "compile:text-compared")
            line = " ".join(["gen", form] + toks[form] + ["[]", "[]"])
            self.ask(line, lambda rep: rep, gs, f"generated code of form {form}", {**rep_d, "form": form})
            ctx.case(("gen", d.shape(), form), nontrivial)
        if "D" in forms and self.use_model:
            line = " ".join(["fmts", "D"] + toks["D"] + ["[]", "[]"])
            want = "ok " + ",".join(canon_fmt(x) for x in fmt_list_for(d, "D"))
            if "D" in classes:
                want = "ok " + ",".join(canon_fmt(x) for x in classes["D"].format_list)
            self.ask(line, lambda rep: rep, want, "type_map", {**rep_d, "form": "D"})
        # --- constructor binding ----------------------------------------------------------------
        for _ in range(n_inst):
            wire, api = gen_values(rng, d)
            for kind, posn, kwn in call_shapes(rng, d, n_valid, n_invalid):
                ctx.count(f"call:{kind}")
                outcomes = {}
                for form in forms:
                    if form not in classes:
                        outcomes[form] = ("err", "class-creation")
                        continue
                    env = {f"v{j}": realise(api[n], d, form, n) for j, n in enumerate(d.names)}
                    env.update({f"d{j}": d.defaults[n] for j, n in enumerate(d.names) if n in d.defaults})
                    env["x0"] = 12345
                    env["N"] = None
                    pos_atoms = [f"v{d.names.index(n)}" if n in d.names else "x0" for n in posn]
                    kw_atoms = [(n if n in d.names else "zz_unknown", f"v{d.names.index(n)}" if n in d.names else "x0")
                                for n in kwn]
                    cls = classes[form]
                    r = attempt(lambda: cls(*[env[a] for a in pos_atoms], **{k: env[a] for k, a in kw_atoms}))
                    real = ("ok", attrs_of(r[1])) if r[0] == "ok" else r
                    outcomes[form] = real
                    ctx.count(f"init-outcome:{form}:{real[0] if real[0] == 'ok' else real[1]}")
                    self.init_branches(d, form, kind, posn, kwn, real)
                    line = " ".join(["init", form] + toks[form] + ["[" + ",".join(pos_atoms) + "]",
                                                                   "[" + ",".join(f"{k}={a}" for k, a in kw_atoms) + "]"])
                    te = TermEval(d, env)
                    self.ask(line, te.attrs, real, f"constructor of form {form}",
                             {**rep_d, "form": form, "positional": posn, "keywords": kwn})
                    ctx.case(("init", d.shape(), form, kind, len(posn), tuple(kwn)), nontrivial or kind.startswith("mixed"))
                if d.kwonly and len(posn) > len(d.names) - d.kwonly:
                    # a keyword-only name given positionally: the plain constructor refuses it, the generated one (ordinary
                    # parameters) accepts it - by design, not compared (the model is still compared with each form)
                    ctx.count("call:keyword-only-name-given-positionally")
                else:
                    self.compare_forms("__init__:binding", outcomes, rep_d,
                                       {"positional": posn, "keywords": kwn,
                                        "values": {k: repr(v)[:80] for k, v in api.items()}},
                                       f"constructor call positional={posn} keywords={kwn}")
            # --- pack list, bytes, decode ---------------------------------------------------------
            insts = {}
            for form in forms:
                if form in classes:
                    r = attempt(lambda form=form: make_instance(d, form, api))
                    if r[0] == "ok":
                        insts[form] = r[1]
            pls, bts, decs, fuls = {}, {}, {}, {}
            drop = rng.choice(d.names) if rng.random() < 0.06 else None
            if drop in d.defaults:
                drop = None     # a dataclass keeps defaults as class attributes: deleting the instance attribute shows it
            raw_mode = rng.choice(["wire", "wire", "wire", "none", "short", "long"])
            # a field WITH a pack rule holding None ("not set"): the rule must see it in every form
            none_field = rng.choice(sorted(d.fp)) if d.fp and drop is None and rng.random() < 0.35 else None
            if none_field is not None:
                ctx.count(f"pack:none-in-hooked-field:{d.fp[none_field]}")
            for form in forms:
                if form not in insts:
                    pls[form] = bts[form] = decs[form] = fuls[form] = \
                        ("err", "no-instance" if form in classes else "class-creation")
                    continue
                obj, cls = insts[form], classes[form]
                if none_field is not None:
                    setattr(obj, none_field, None)
                env = {f"v{j}": getattr(obj, n) for j, n in enumerate(d.names)}
                env["N"] = None
                if drop is not None:
                    delattr(obj, drop)
                    ctx.count("pack:attribute-deleted")
                r = attempt(obj.to_pack_list)
                real = ("ok", tuple((t[0], tuple(canon(x) for x in t[1:])) for t in r[1])) if r[0] == "ok" else r
                pls[form] = real
                ctx.count(f"pack-outcome:{form}:{real[0] if real[0] == 'ok' else real[1]}")
                if form != "D":
                    if real[0] == "ok":
                        B(ctx, "pack:hooked" if d.fp else "pack:plain")
                        for f in d.fields:
                            B(ctx, {"bits": "pack:bits", "nested": "pack:payload", "nlist": "pack:payload-list"}.get(f.kind, "pack:plain"))
                    elif drop is not None and real[1] == "AttributeError":
                        B(ctx, "pack:AttributeError")
                    if none_field is not None:
                        B(ctx, "pack:none-in-hooked-field")
                line = " ".join(["pack", form] + toks[form] + ["[]", "[" + ",".join(
                    f"{n}=v{j}" for j, n in enumerate(d.names) if n != drop) + "]"])
                self.ask(line, TermEval(d, env).packlist, real, f"to_pack_list of form {form}", {**rep_d, "form": form})
                ctx.case(("pack", d.shape(), form), nontrivial)
                # bytes
                rb = attempt(lambda: self.ser.pack_serializable(obj))
                bts[form] = rb
                ctx.count(f"bytes-outcome:{form}:{rb[0] if rb[0] == 'ok' else rb[1]}")
                if rb[0] == "ok" and any(f.sub is not None for f in d.fields):
                    rc = attempt(lambda: compose_bytes(self.ser, obj))
                    ctx.count("bytes:compositional-" + ("same" if rc == rb else "differs"))
                    B(ctx, "nesting:bytes-compositional")
                    if rc != rb:
                        ctx.oracle_fail("pack_serializable:nesting-structure", "bytes of a nested instance are not "
                                        "len16 + bytes(inner) / count8 + items as modelled", {**rep_d, "form": form})
                if r[0] == "ok":
                    rs = attempt(lambda: self.ser.pack_serializable(Stub(r[1])))
                    if rs != rb:
                        ctx.oracle_fail("pack_serializable:not-a-function-of-pack-list",
                                        "bytes of an instance differ from bytes of its pack list", {**rep_d, "form": form})
                # decode
                if rb[0] == "ok":
                    rd = attempt(lambda: self.ser.unpack_serializable(cls, b"\xaa\xbb" + rb[1], 2))
                    decs[form] = ("ok", (canon(rd[1][0]), rd[1][1])) if rd[0] == "ok" else rd
                    if rd[0] == "ok" and any(f.sub is not None for f in d.fields):
                        B(ctx, "nesting:decode-through-nested")
                    if rd[0] == "ok" and type(rd[1][0]) is not cls:
                        ctx.oracle_fail("unpack_serializable:decoded-class", f"decoding with the {form} form of a class "
                                        f"returns an instance of another class ({type(rd[1][0]).__name__})",
                                        {**rep_d, "form": form})
                    if rd[0] == "ok" and any(v is None for v in vars(rd[1][0]).values()):
                        ctx.count("decode:none-value-seen")
                else:
                    decs[form] = rb
                ctx.count(f"decode-outcome:{form}:{decs[form][0] if decs[form][0] == 'ok' else decs[form][1]}")
                # from_unpack_list on the raw (wire level) values
                wobj = {n: realise(wire[n], d, form, n) for n in d.names}
                atoms = [f"w{j}" for j in range(len(d.names))]
                uenv = {f"w{j}": wobj[n] for j, n in enumerate(d.names)}
                uenv.update({f"d{j}": d.defaults[n] for j, n in enumerate(d.names) if n in d.defaults})
                uenv["N"] = None
                if raw_mode == "none" and atoms:
                    k = (d.uid + len(atoms)) % len(atoms)
                    atoms[k] = "N"
                elif raw_mode == "short" and atoms:
                    atoms = atoms[:-1]
                elif raw_mode == "long":
                    atoms = atoms + ["N"]
                rf = attempt(lambda: cls.from_unpack_list(*[uenv[a] for a in atoms]))
                realf = ("ok", attrs_of(rf[1])) if rf[0] == "ok" else rf
                fuls[form] = realf
                ctx.count(f"unpack-outcome:{form}:{raw_mode}:{realf[0] if realf[0] == 'ok' else realf[1]}")
                if form != "D":
                    if raw_mode == "wire" and realf[0] == "ok":
                        B(ctx, "unpack:hooked" if d.fu else "unpack:plain")
                    if raw_mode == "none" and any(a == "N" and n in d.fu for a, n in zip(atoms, d.names)):
                        B(ctx, "unpack:none-entry-on-hooked")
                    if raw_mode in ("short", "long"):
                        B(ctx, "unpack:" + raw_mode)
                line = " ".join(["unpack", form] + toks[form] + ["[" + ",".join(atoms) + "]", "[]"])
                unguarded = None
                if raw_mode == "none" and form != "I" and len(atoms) == len(d.names) and \
                        any(a == "N" and n in d.fu for a, n in zip(atoms, d.names)):
                    # what a generated from_unpack_list WITHOUT the guard would do: every hook applied, also to None
                    ru = attempt(lambda: cls(*[HOOKS[d.fu[n]][1](uenv[a]) if n in d.fu else uenv[a]
                                               for a, n in zip(atoms, d.names)]))
                    unguarded = ("ok", attrs_of(ru[1])) if ru[0] == "ok" else ("err",)
                if unguarded is not None and (realf if realf[0] == "ok" else ("err",)) == unguarded \
                        and unguarded != ("ok", tuple((n, canon(uenv[a])) for a, n in zip(atoms, d.names))):
                    # with a None entry the model predicts the compiled GUARD (None passes, no hook call); a generated
                    # from_unpack_list without the guard behaves exactly like the interpreted form: neutral, not compared
                    ctx.count("unpack:none-entry-treated-like-interpreted")
                else:
                    self.ask(line, TermEval(d, uenv).attrs, realf, f"from_unpack_list of form {form}",
                             {**rep_d, "form": form, "raw": atoms})
                ctx.case(("unpack", d.shape(), form, raw_mode), nontrivial)
            extra = {"values": {k: repr(v)[:80] for k, v in api.items()}}
            self.compare_forms("to_pack_list:pack-list", pls, rep_d, extra, "to_pack_list")
            self.compare_forms("pack_serializable:bytes", bts, rep_d, extra, "bytes")
            # the interpreted from_unpack_list passes everything positionally: a plain class with keyword-only
            # parameters cannot be rebuilt by it at all; the compiled form is then the reference for the dataclass form
            ref_form = "C" if d.kwonly else "I"
            if d.kwonly:
                ctx.count(f"decode:keyword-only-plain-class:{decs.get('I', ('?',))[0]}")
            self.compare_forms("unpack_serializable:fields", decs, rep_d, extra, "decoded fields / offset", ref_form)
            # None entries reach a hook only outside the Serializer: the compiled guard makes the forms differ there
            hook_on_none = raw_mode == "none" and d.fu
            short_with_defaults = raw_mode == "short" and d.defaults
            if not hook_on_none and not short_with_defaults:
                self.compare_forms("from_unpack_list:fields", fuls, rep_d, {**extra, "raw_mode": raw_mode},
                                   f"from_unpack_list ({raw_mode})", ref_form)
            else:
                ctx.count("unpack:outside-hypotheses")
        self.flush()

    def init_branches(self, d, form, kind, posn, kwn, real):
        ctx, ok = self.ctx, real[0] == "ok"
        if form == "I":
            if d.user_init in (None, "star"):
                if ok and posn:
                    B(ctx, "vpInit:positional")
                if ok and kwn:
                    B(ctx, "vpInit:kwargs-pop")
                if not ok and kind == "bad:missing":
                    B(ctx, "vpInit:pop-KeyError")
                if not ok and kind.startswith("bad:surplus"):
                    B(ctx, "vpInit:surplus-KeyError")
                if not ok and kind in ("bad:unknown", "bad:duplicate"):
                    B(ctx, "vpInit:leftover-KeyError")
                if ok and any(f.kind == "bits" for f in d.fields):
                    B(ctx, "vpInit:bits-8-names")
                if d.super_n and ok and posn:
                    B(ctx, "superFwd:positional")
                if d.super_n and ok and len(posn) < d.super_n:
                    B(ctx, "superFwd:kwargs-pop")
            else:
                if ok and "+defaults" in kind:
                    B(ctx, "userInit:default-used")
                if not ok and kind == "bad:unknown" and d.user_init == "kw":
                    B(ctx, "userInit:varkw-leftover")
                if not ok and kind == "bad:unknown" and d.user_init == "nokw":
                    B(ctx, "userInit:nokw-unknown-TypeError")
                if not ok and d.kwonly and len(posn) > len(d.names) - d.kwonly:
                    B(ctx, "userInit:keyword-only-guard")
        elif form == "C":
            if ok and posn:
                B(ctx, "pyBind:positional")
            if ok and kwn:
                B(ctx, "pyBind:keyword")
            if ok and "+defaults" in kind:
                B(ctx, "pyBind:default")
            if not ok:
                for k, b in (("bad:surplus", "surplus-TypeError"), ("bad:duplicate", "duplicate-TypeError"),
                             ("bad:missing", "missing-TypeError"), ("bad:unknown", "unknown-TypeError")):
                    if kind.startswith(k):
                        B(ctx, "pyBind:" + b)

    def compare_forms(self, sig, outcomes, rep_d, extra, what, ref_form="I"):
        """oracle: every compiled/dataclass outcome equals the interpreted one (errors are equal as errors)"""
        ref = outcomes.get(ref_form)
        if ref is None:
            return
        for form, out in outcomes.items():
            if form in ("I", ref_form):
                continue
            if out[0] == "err" and out[1] == "class-creation":
                continue    # reported once at class creation
            if out[0] == "err" and out[1] == "no-instance":
                if ref[0] == "err":
                    continue
            same = (out[0] == ref[0]) and (out[0] == "err" or out[1] == ref[1])
            if not same:
                name = {"C": "compiled", "D": "dataclass"}[form]
                self.ctx.oracle_fail(f"{name}.{sig}", f"{what}: {name} form gives {str(out)[:300]} but the interpreted "
                                     f"definition gives {str(ref)[:300]}", {**rep_d, "form": form, **extra})


def canon_fmt(x):
    if isinstance(x, str):
        return "s:" + x
    if isinstance(x, list):
        return "l:" + x[0].__name__
    return "c:" + x.__name__


# ---------------------------------------------------------------------------------------------------------------
# exhaustive small scope: every call shape for n names


def small_scope(run: Run, max_n: int):
    ctx = run.ctx
    for n in range(1, max_n + 1):
        for nd in range(n + 1):
            for ui in ([None] if nd == 0 else []) + ["kw", "nokw"]:
                d = Defn()
                d.uid = next(_uid)
                names = ["a", "b", "c", "d"][:n]
                d.fields = [Field("prim", "q", None, [x], "int") for x in names]
                d.names = names
                d.user_init = ui
                for j, x in enumerate(names[n - nd:]):
                    d.defaults[x] = 100 + j
                d.nform = {"I": {}, "C": {}, "D": {}}
                classes = {f: build(d, f) for f in d.forms()}
                classes["D"](*range(n))
                toks = {f: defn_tokens(d, f) for f in d.forms()}
                universe = names + ["zz"]
                for npos in range(n + 2):
                    for mask in range(2 ** len(universe)):
                        kwn = [x for j, x in enumerate(universe) if mask >> j & 1]
                        pos_atoms = [f"v{j}" for j in range(npos)]
                        env = {f"v{j}": 10 + j for j in range(n + 2)}
                        env.update({f"d{j}": d.defaults[x] for j, x in enumerate(names) if x in d.defaults})
                        kw_atoms = [(x, f"v{(names.index(x) if x in names else n + 1)}") for x in kwn]
                        outs = {}
                        for f, cls in classes.items():
                            r = attempt(lambda: cls(*[env[a] for a in pos_atoms], **{k: env[a] + 50 for k, a in kw_atoms}))
                            real = ("ok", attrs_of(r[1])) if r[0] == "ok" else r
                            outs[f] = real
                            env2 = dict(env)
                            env2.update({f"k{j}": env[a] + 50 for j, (k, a) in enumerate(kw_atoms)})
                            line = " ".join(["init", f] + toks[f] + ["[" + ",".join(pos_atoms) + "]", "[" + ",".join(
                                f"{k}=k{j}" for j, (k, a) in enumerate(kw_atoms)) + "]"])
                            run.ask(line, TermEval(d, env2).attrs, real, f"small-scope constructor of form {f}",
                                    {"small_scope": {"n": n, "defaults": nd, "user_init": ui, "npos": npos, "kw": kwn}})
                            ctx.case(("ss", n, nd, ui, f, npos, mask), bool(nd) or bool(npos and kwn))
                        ctx.count("small-scope:" + ("ok" if outs["I"][0] == "ok" else "err"))
                        run.compare_forms("__init__:binding", outs, {"small_scope": {"n": n, "defaults": nd, "user_init": ui}},
                                          {"npos": npos, "kw": kwn}, f"small-scope call npos={npos} kw={kwn}")
                run.flush()


# ---------------------------------------------------------------------------------------------------------------
# shipped definitions: compiled class vs an interpreted twin rebuilt from its class data


def shipped(run: Run, per_def: int):
    from ipv8.messaging.lazy_payload import VariablePayload
    ctx, rng = run.ctx, run.ctx.rng
    defs = gen_c20.shipped_classes()
    twins = {}

    def twin(cls):
        if cls in twins:
            return twins[cls]
        ns = {"format_list": [twin(f) if isinstance(f, type) else ([twin(f[0])] if isinstance(f, list) else f)
                              for f in cls.format_list], "names": list(cls.names)}
        for a in dir(cls):
            if a.startswith(("fix_pack_", "fix_unpack_")):
                ns[a] = cls.__dict__.get(a) or getattr(cls, a)
        if hasattr(cls, "msg_id"):
            ns["msg_id"] = cls.msg_id
        t = type(cls.__name__ + "Interpreted", (VariablePayload,), ns)
        twins[cls] = t
        return t

    def values_for(cls, target):
        vals = []
        for f in cls.format_list:
            if isinstance(f, str):
                if f == "bits":
                    vals.extend(rng.choice([0, 1]) for _ in range(8))
                else:
                    v = gen_wire(rng, f)
                    if v is None and f not in ("node-list",):
                        return None
                    vals.append(v)
            elif isinstance(f, list):
                sub = []
                for _ in range(rng.randrange(3)):
                    sv = values_for(f[0], target)
                    if sv is None:
                        return None
                    sub.append((f[0], sv))
                vals.append(("list", sub))
            else:
                sv = values_for(f, target)
                if sv is None:
                    return None
                vals.append(("inst", f, sv))
        return vals

    def inst(cls, vals, interp):
        args = []
        for v in vals:
            if isinstance(v, tuple) and len(v) == 3 and v[0] == "inst":
                args.append(inst(v[1], v[2], interp))
            elif isinstance(v, tuple) and len(v) == 2 and v[0] == "list" and isinstance(v[1], list):
                args.append([inst(c, sv, interp) for c, sv in v[1]])
            else:
                args.append(v)
        return (twin(cls) if interp else cls)(*args)

    for cls in defs:
        if not cls.names and not cls.format_list:
            continue
        tw = twin(cls)
        rep = {"shipped": f"{cls.__module__}.{cls.__name__}"}
        ctx.count("shipped:definitions")
        # opaque pack-list level
        sent = [object() for _ in cls.names]
        a, b = attempt(lambda: cls(*sent)), attempt(lambda: tw(*sent))
        if a[0] == "ok" and b[0] == "ok":
            pa, pb = a[1].to_pack_list(), b[1].to_pack_list()
            same = len(pa) == len(pb) and all(x[0] == y[0] and len(x) == len(y) and all(p is q for p, q in zip(x[1:], y[1:]))
                                             for x, y in zip(pa, pb))
            if not same:
                ctx.oracle_fail("compiled.to_pack_list:pack-list", f"shipped {cls.__name__}: compiled pack list differs "
                                "from the interpreted twin's", rep)
            kws = dict(zip(cls.names, sent))
            c2, d2 = attempt(lambda: cls(**kws)), attempt(lambda: tw(**kws))
            if c2[0] != d2[0] or (c2[0] == "ok" and any(getattr(c2[1], n) is not getattr(d2[1], n) for n in cls.names)):
                ctx.oracle_fail("compiled.__init__:binding", f"shipped {cls.__name__}: keyword construction differs", rep)
        elif a[0] != b[0]:
            ctx.oracle_fail("compiled.__init__:binding", f"shipped {cls.__name__}: positional construction {a[0]} vs "
                            f"{b[0]}", rep)
        for _ in range(per_def):
            vals = values_for(cls, None)
            if vals is None:
                ctx.count("shipped:no-value-generator")
                break
            oc, oi = attempt(lambda: inst(cls, vals, False)), attempt(lambda: inst(cls, vals, True))
            if oc[0] != "ok" or oi[0] != "ok":
                if oc[0] != oi[0]:
                    ctx.oracle_fail("compiled.__init__:binding", f"shipped {cls.__name__}: {oc} vs {oi}", rep)
                continue
            bc, bi = attempt(lambda: run.ser.pack_serializable(oc[1])), attempt(lambda: run.ser.pack_serializable(oi[1]))
            ctx.count(f"shipped:bytes:{bc[0]}")
            if bc != bi:
                ctx.oracle_fail("compiled.pack_serializable:bytes", f"shipped {cls.__name__}: bytes differ: "
                                f"{bc} vs {bi}", {**rep, "values": repr(vals)[:500]})
            if bc[0] == "ok":
                dc = attempt(lambda: run.ser.unpack_serializable(cls, bc[1]))
                di = attempt(lambda: run.ser.unpack_serializable(tw, bc[1]))
                rc = ("ok", (canon(dc[1][0]), dc[1][1])) if dc[0] == "ok" else dc
                ri = ("ok", (canon(di[1][0]), di[1][1])) if di[0] == "ok" else di
                ctx.count(f"shipped:decode:{rc[0]}")
                if rc != ri:
                    ctx.oracle_fail("compiled.unpack_serializable:fields", f"shipped {cls.__name__}: decoded "
                                    f"{str(rc)[:200]} vs {str(ri)[:200]}", {**rep, "bytes": bc[1].hex()})
            ctx.case(("shipped", cls.__name__, _), True)


# ---------------------------------------------------------------------------------------------------------------
# the dataclass form before its first instantiation


def decode_first(run: Run, n: int):
    """a dataclass payload class must decode like its plain definition even if no instance was ever created"""
    ctx, rng = run.ctx, run.ctx.rng
    for i in range(n):
        d = gen_defn(rng, ["q", "varlenH", "?", "varlenHutf8", "I", "H"], depth=2, max_fields=4)
        d.fp, d.fu = {}, {}
        if i % 3 == 0:      # every field has a default: the constructor call without arguments then succeeds
            d.user_init = "nokw"
            d.defaults = {n_: gen_default(rng, d, n_) for n_ in d.names}
        elif i % 3 == 1:
            d.defaults, d.user_init = {}, None
        if not d.dable():
            continue
        _, api = gen_values(rng, d)
        oi = make_instance(d, "I", api)
        rb = attempt(lambda: run.ser.pack_serializable(oi))
        if rb[0] != "ok":
            continue
        fresh = build(d, "D", fresh=True)
        ri = attempt(lambda: run.ser.unpack_serializable(build(d, "I"), rb[1]))
        rd = attempt(lambda: run.ser.unpack_serializable(fresh, rb[1]))
        ci = ("ok", canon(ri[1][0]), ri[1][1]) if ri[0] == "ok" else ri
        cd = ("ok", canon(rd[1][0]), rd[1][1]) if rd[0] == "ok" else rd
        ctx.count(f"decode-first:defaults={len(d.defaults)}/{len(d.names)}:{cd[0] if cd[0] == 'ok' else cd[1]}")
        ctx.case(("decode-first", d.shape()), True)
        # model: nothing is unpacked and the class is called without arguments
        env = {f"d{j}": d.defaults[n_] for j, n_ in enumerate(d.names) if n_ in d.defaults}
        real = ("ok", attrs_of(rd[1][0])) if rd[0] == "ok" else rd
        run.ask(" ".join(["dfirst", "D"] + defn_tokens(d, "D") + ["[]", "[]"]), TermEval(d, env).attrs, real,
                "decode before first instantiation", {"definition": defn_replay(d)})
        if ci != cd:
            ctx.oracle_fail("DataClassPayload:decode-before-first-instance",
                            f"a dataclass payload class that was never instantiated decodes valid bytes to {str(cd)[:200]} "
                            f"while the plain definition gives {str(ci)[:200]}",
                            {"definition": defn_replay(d), "bytes": rb[1].hex(), "stage": "decode-first"})
    run.flush()


def packer_slots(run: Run):
    """hypothesis of compiled_decode_eq, checked on the live registry: unpacking a format appends one value
    (eight for bits) to unpack_list and never None"""
    ctx, rng = run.ctx, run.ctx.rng
    for fmt in run.ser.get_available_formats():
        if fmt in ("payload", "payload-list", "node-list"):
            continue
        for _ in range(3):
            w = tuple(rng.choice([0, 1]) for _ in range(8)) if fmt == "bits" else gen_wire(rng, fmt)
            if w is None:
                ctx.count("packer-slots:no-generator")
                break
            multi = fmt in MULTI or fmt in ("ccB", "4SH", "c20s", "bits")
            r = attempt(lambda: run.ser.get_packer_for(fmt).pack(*w) if multi else run.ser.get_packer_for(fmt).pack(w))
            if r[0] != "ok":
                ctx.count(f"packer-slots:pack-{r[1]}")
                continue
            lst = []
            u = attempt(lambda: run.ser.get_packer_for(fmt).unpack(r[1], 0, lst))
            want = 8 if fmt == "bits" else 1
            ctx.count("packer-slots:checked")
            ctx.case(("slots", fmt), True)
            if u[0] != "ok" or len(lst) != want or any(x is None for x in lst):
                ctx.oracle_fail("Serializer:unpack-slots", f"unpacker of {fmt!r} appended {len(lst)} values "
                                f"({u}) instead of {want}", {"format": fmt, "stage": "slots"})



# ---------------------------------------------------------------------------------------------------------------
# inheritance between payload definitions and the order in which classes are first instantiated


INH_FORMATS = ["q", "?", "d", "varlenH", "varlenHutf8", "I", "H", "B", "20s", "varlenI", "arrayH-q", "l", "Q"]


def prefix_defn(full: Defn, nfields: int, with_init: bool) -> Defn:
    """the plain definition of the first `nfields` fields (parent fields ++ own fields of one class of a chain)"""
    d = Defn()
    d.uid = next(_uid)
    d.fields = full.fields[:nfields]
    d.names = [n for f in d.fields for n in f.names]
    d.defaults = {n: v for n, v in full.defaults.items() if n in d.names}
    d.user_init = ("nokw" if with_init and d.defaults else None)
    d.fp = {n: k for n, k in full.fp.items() if n in d.names}
    d.fu = {n: k for n, k in full.fu.items() if n in d.names}
    d.nform = {"I": {}, "C": {}, "D": {}}
    return d


def gen_chain(rng, levels: int, allow_defaults: bool):
    """flattened definition (prim fields only) and the number of fields each class of the chain adds"""
    full = Defn()
    full.uid = next(_uid)
    pool = [n for n in NAME_POOL if n not in RESERVED]
    rng.shuffle(pool)
    cuts = []
    for lv in range(levels):
        k = rng.choice([1, 1, 2, 3]) if lv == 0 else rng.choice([0, 1, 1, 2, 2, 3])
        cuts.append(k)
    for i in range(sum(cuts)):
        fmt = rng.choice(INH_FORMATS)
        ty = NATIVE[fmt] if fmt in NATIVE and rng.random() < 0.6 else "tv:" + fmt
        full.fields.append(Field("prim", fmt, None, [pool[i]], ty))
    full.names = [f.names[0] for f in full.fields]
    for f in full.fields:
        k = fmt_kind(f.fmt)
        if k != "other" and rng.random() < 0.15:
            full.fp[f.names[0]] = k
        if k != "other" and rng.random() < 0.15:
            full.fu[f.names[0]] = k
    if allow_defaults and rng.random() < 0.6 and full.names:
        nd = rng.randrange(1, len(full.names) + 1)
        for n in full.names[len(full.names) - nd:]:
            v = gen_default(rng, full, n)
            full.defaults[n] = tuple(v) if isinstance(v, list) else v
    full.nform = {"I": {}, "C": {}, "D": {}}
    return full, cuts


def hooks_ns(full: Defn, names):
    ns = {}
    for n in names:
        if n in full.fp:
            ns["fix_pack_" + n] = _mk_hook_pack(HOOKS[full.fp[n]][0])
        if n in full.fu:
            ns["fix_unpack_" + n] = _mk_hook_unpack(HOOKS[full.fu[n]][1])
    return ns


def against_reference(run: "Run", sig: str, cls, ref, d: Defn, rep: dict, expect_msg_id):
    """a class that has been instantiated vs the interpreted plain definition `ref` of its flattened field list"""
    ctx, rng = run.ctx, run.ctx.rng
    got = ([canon_fmt(x) for x in cls.format_list], list(cls.names))
    want = ([canon_fmt(x) for x in ref.format_list], list(ref.names))
    if got != want:
        ctx.oracle_fail(f"{sig}:definition", f"class-level format_list/names are {got}, the flattened plain definition "
                        f"has {want}", {**rep, "stage": "inheritance"})
    wire, api = gen_values(rng, d)
    n = len(d.names)
    nd = len(d.defaults)
    shapes = [(list(d.names), [])]
    k = rng.randrange(n + 1)
    rest = d.names[k:]
    rng.shuffle(rest)
    shapes.append((list(d.names[:k]), rest))
    if nd:
        m = rng.randrange(1, nd + 1)
        shapes.append((list(d.names[:n - m]), []))
    objs = None
    for posn, kwn in shapes:
        a = attempt(lambda: cls(*[api[x] for x in posn], **{x: api[x] for x in kwn}))
        b = attempt(lambda: ref(*[api[x] for x in posn], **{x: api[x] for x in kwn}))
        ra = ("ok", attrs_of(a[1])) if a[0] == "ok" else ("err",)
        rb = ("ok", attrs_of(b[1])) if b[0] == "ok" else ("err",)
        ctx.case((sig, "init", len(posn), len(kwn), n), True)
        if ra != rb:
            ctx.oracle_fail(f"{sig}:binding", f"constructor positional={posn} keywords={kwn}: {str(a if a[0] == 'err' else ra)[:200]} "
                            f"but the plain definition gives {str(b if b[0] == 'err' else rb)[:200]}",
                            {**rep, "stage": "inheritance", "positional": posn, "keywords": kwn})
        if objs is None and a[0] == "ok" and b[0] == "ok":
            objs = (a[1], b[1])
    if objs is None:
        return
    oa, ob = objs
    pa = attempt(lambda: [(t[0], tuple(canon(x) for x in t[1:])) for t in oa.to_pack_list()])
    pb = attempt(lambda: [(t[0], tuple(canon(x) for x in t[1:])) for t in ob.to_pack_list()])
    if pa != pb:
        ctx.oracle_fail(f"{sig}:pack-list", f"to_pack_list {str(pa)[:200]} but the plain definition gives {str(pb)[:200]}",
                        {**rep, "stage": "inheritance"})
    ba, bb = attempt(lambda: run.ser.pack_serializable(oa)), attempt(lambda: run.ser.pack_serializable(ob))
    ctx.count(f"inherit:bytes:{bb[0] if bb[0] == 'ok' else bb[1]}")
    if ba != bb:
        ctx.oracle_fail(f"{sig}:bytes", f"bytes {str(ba)[:200]} but the plain definition gives {str(bb)[:200]}",
                        {**rep, "stage": "inheritance"})
    if bb[0] == "ok":
        da = attempt(lambda: run.ser.unpack_serializable(cls, b"\x01" + bb[1], 1))
        db = attempt(lambda: run.ser.unpack_serializable(ref, b"\x01" + bb[1], 1))
        ca = ("ok", attrs_of(da[1][0]), da[1][1]) if da[0] == "ok" else ("err",)
        cb = ("ok", attrs_of(db[1][0]), db[1][1]) if db[0] == "ok" else ("err",)
        if da[0] == "ok" and (type(da[1][0]) is not cls or getattr(da[1][0], "msg_id", None) != expect_msg_id):
            ctx.oracle_fail(f"{sig}:decoded-class", f"decoding with class {cls.__name__} (msg_id {expect_msg_id}) returns a "
                            f"{type(da[1][0]).__name__} with msg_id {getattr(da[1][0], 'msg_id', None)}",
                            {**rep, "stage": "inheritance"})
        if ca != cb:
            ctx.oracle_fail(f"{sig}:decoded-fields", f"decoding the plain definition's bytes gives {str(da if da[0] == 'err' else ca)[:200]} "
                            f"but the plain definition decodes {str(cb)[:200]}", {**rep, "stage": "inheritance",
                                                                                  "bytes": bb[1].hex()})
    if expect_msg_id is not None:
        got_id = (getattr(cls, "msg_id", None), getattr(oa, "msg_id", None))
        if got_id != (expect_msg_id, expect_msg_id):
            ctx.oracle_fail(f"{sig}:msg_id", f"msg_id on class/instance is {got_id}, declared {expect_msg_id}",
                            {**rep, "stage": "inheritance"})


def visible_converters(cls, user_hooks=()):
    """the container converters (tuple / set) that attribute lookup finds on `cls` for its current field names"""
    out = []
    for n in cls.names:
        if n in user_hooks:
            continue
        h = getattr(cls, "fix_unpack_" + n, None)
        kind = {"_to_tuple": "tuple", "_to_set": "set"}.get(getattr(h, "__name__", ""))
        if kind:
            out.append(f"{n}={kind}(x)")
    return ",".join(out)


def reannotate(run: "Run", n_cases: int):
    """a dataclass payload that declares a parent's container field again with another container (tuple -> list / set,
    ...) or with a NON-container type (bytes, str), over two or three levels and in several instantiation orders: every
    class must decode like the plain definition of ITS OWN annotations"""
    from ipv8.messaging.lazy_payload import VariablePayload
    from ipv8.messaging.payload_dataclass import DataClassPayload
    ctx, rng = run.ctx, run.ctx.rng
    kinds = {"list": list, "tuple": tuple, "set": set}
    pre = {"list": "co:", "tuple": "cot:", "set": "cos:"}
    for case in range(n_cases):
        levels = 3 if case % 3 == 2 else 2
        if levels == 2:
            # deterministic schedule: every (root container, re-annotation) pair, each in every instantiation order
            pairs = [(a, b) for a in ("tuple", "set", "list") for b in ("list", "tuple", "set", "bytes", "str") if a != b]
            two = case - case // 3          # index among the two-level cases
            ks = list(pairs[two % len(pairs)])
        else:
            ks = [rng.choice(["list", "tuple", "set", "tuple", "set"])]
            while len(ks) < levels:
                ks.append(rng.choice([k for k in ("list", "tuple", "set", "bytes", "str") if k != ks[-1]]))
        elem, afmt = rng.choice([(int, "arrayH-q"), (bool, "arrayH-?"), (float, "arrayH-d")])
        scalar = {"bytes": (bytes, "varlenH", "bytes", b"abc"), "str": (str, "varlenHutf8", "str", "abc")}

        def ann_of(k):
            return scalar[k][0] if k in scalar else kinds[k][elem]

        def fmt_of(k):
            return scalar[k][1] if k in scalar else afmt

        def ty_of(k):
            return scalar[k][2] if k in scalar else pre[k] + elem.__name__

        def value_of(k, wire=False):
            if k in scalar:
                return scalar[k][3]
            return [elem(1), elem(0)] if wire else kinds[k]([elem(1), elem(0)])
        orders = {2: [[0, 1], [1, 0], [1], [0, 1, 0]], 3: [[0, 1, 2], [2, 1, 0], [2], [0, 2, 1], [1, 2]]}[levels]
        evs = orders[((case - case // 3) // 12) % len(orders)] if levels == 2 else orders[(case // 3) % len(orders)]
        uid = next(_uid)
        extra = rng.random() < 0.5
        classes = [dataclasses.make_dataclass(f"R{uid}_0", [("a", int), ("t", ann_of(ks[0]))], bases=(DataClassPayload,))]
        for lv in range(1, levels):
            cfields = [("t", ann_of(ks[lv]))] + ([("z", int, dataclasses.field(default=4))] if extra and lv == 1 else [])
            classes.append(dataclasses.make_dataclass(f"R{uid}_{lv}", cfields, bases=(classes[-1],)))
        for c in classes:
            c.__module__ = generated_module()

        def plain(kind, with_z, name):
            d = Defn()
            d.uid = next(_uid)
            d.fields = [Field("prim", "q", None, ["a"], "int"),
                        Field("prim", fmt_of(kind), None, ["t"], ty_of(kind), kind if kind in kinds else "list")]
            if with_z:
                d.fields.append(Field("prim", "q", None, ["z"], "int"))
                d.defaults = {"z": 4}
                d.user_init = "nokw"
            d.names = [f.names[0] for f in d.fields]
            if kind in ("tuple", "set"):
                d.fu["t"] = kind
            d.nform = {"I": {}, "C": {}, "D": {}}
            ns = namespace_for(d, "I")
            ns.update({"format_list": [f.fmt for f in d.fields], "names": list(d.names)})
            return d, type(name, (VariablePayload,), ns)

        defs_refs = [plain(ks[lv], extra and lv >= 1, f"RR{uid}_{lv}") for lv in range(levels)]
        ctx.count(f"reannotate:{'->'.join(ks)}:order={''.join(map(str, evs))}")
        for lv in range(1, levels):
            if ks[lv - 1] in ("tuple", "set") and lv in evs and (lv - 1) in evs[:evs.index(lv)]:
                if ks[lv] == "list":
                    B(ctx, "derived:keep-container")
                elif ks[lv] in ("bytes", "str"):
                    B(ctx, "derived:non-container")
        rep = {"reannotate": {"kinds": ks, "element": elem.__name__, "extra_field": extra, "events": evs}}
        for lv in evs:
            vals = [1, value_of(ks[lv])] + ([9] if (lv >= 1 and extra) else [])
            r = attempt(lambda: classes[lv](*vals))
            if r[0] != "ok":
                ctx.oracle_fail("dataclass.reannotate:binding", f"instantiating class {lv} raises {r[1]}", {**rep, "stage": "inheritance"})
        tys = "/".join([f"[int,{ty_of(ks[0])}]"] + [
            f"[{ty_of(ks[lv])}" + (",int]" if extra and lv == 1 else "]") for lv in range(1, levels)])
        nms = "/".join(["[a,t]"] + ["[t" + (",z]" if extra and lv == 1 else "]") for lv in range(1, levels)])

        def effective(lv):
            """the container converter that decoding with class lv really applies (behavioural probe; classes that no
            instantiation has converted are not probed: calling them would convert them)"""
            if lv not in evs and not any(j < lv for j in evs):
                return ""
            # the class whose data / generated methods class lv currently sees decides what the raw value looks like
            seen = lv if lv in evs else max(j for j in evs if j < lv)
            probe = [1, value_of(ks[seen], wire=True)] + ([4] if len(classes[lv].names) == 3 else [])
            r = attempt(lambda: classes[lv].from_unpack_list(*probe))
            k = type(getattr(r[1], "t", None)).__name__ if r[0] == "ok" else "error"
            natural = type(value_of(ks[seen], wire=True)).__name__
            return "" if k == natural else f"t={k}(x)"

        real = "ok " + " ".join(f"{lv}:" + ",".join(canon_fmt(x) for x in classes[lv].format_list) + ";"
                                + ",".join(classes[lv].names) + ";" + effective(lv) for lv in range(levels))
        run.ask(f"hier {tys} {nms} [{','.join(map(str, evs))}]", lambda rp: rp, real,
                "class-level data and container converters after re-annotating a field", rep)
        for lv in sorted(set(evs)):
            against_reference(run, "dataclass.reannotate", classes[lv], defs_refs[lv][1], defs_refs[lv][0],
                              {**rep, "class": lv}, None)
        ctx.case(("reannotate", tuple(ks), tuple(evs), extra), True)
    run.flush()


def inheritance(run: "Run", n_cases: int):
    from ipv8.messaging.lazy_payload import VariablePayload, VariablePayloadWID, vp_compile
    from ipv8.messaging.payload_dataclass import DataClassPayload
    ctx, rng = run.ctx, run.ctx.rng
    for case in range(n_cases):
        if case % 4 != 3:
            # ---- dataclass chain -------------------------------------------------------------------
            levels = rng.choice([2, 2, 3])
            full, cuts = gen_chain(rng, levels, True)
            base_id = rng.choice([None, None, 5, 77])
            override = {}
            for lv in range(1, levels):
                if base_id is not None and rng.random() < 0.3:
                    override[lv] = 100 + lv
            ends = [sum(cuts[:lv + 1]) for lv in range(levels)]
            defs = [prefix_defn(full, e, True) for e in ends]
            classes, refs, ids = [], [], []
            parent = DataClassPayload if base_id is None else DataClassPayload[base_id]
            cur_id = base_id
            try:
                for lv in range(levels):
                    own = full.fields[ends[lv] - cuts[lv]:ends[lv]]
                    fields = []
                    for j, f in enumerate(own):
                        nm = f.names[0]
                        ann = annotation_for(full, 0, f, full.uid + j)
                        fields.append((nm, ann, dataclasses.field(default=full.defaults[nm])) if nm in full.defaults
                                      else (nm, ann))
                    ns = hooks_ns(full, [f.names[0] for f in own])
                    if lv in override:
                        cur_id = override[lv]
                        ns["msg_id"] = cur_id
                    cls = dataclasses.make_dataclass(f"H{full.uid}_{lv}", fields, bases=(parent,), namespace=ns)
                    cls.__module__ = generated_module()
                    classes.append(cls)
                    ids.append(cur_id)
                    parent = cls
                    rns = namespace_for(defs[lv], "I")
                    rns["format_list"] = [f.fmt for f in defs[lv].fields]
                    rns["names"] = list(defs[lv].names)
                    if cur_id is not None:
                        rns["msg_id"] = cur_id
                    refs.append(type(f"P{full.uid}_{lv}", (VariablePayloadWID if cur_id is not None else VariablePayload,), rns))
            except Exception as e:  # noqa: BLE001
                ctx.count(f"inherit:build-failed:{exc_name(e)}")
                continue
            order = rng.choice(["parent-first", "child-first", "interleaved", "only-child", "only-parent", "twice"])
            evs = {"parent-first": list(range(levels)), "child-first": list(range(levels))[::-1],
                   "interleaved": [0, levels - 1, 0] + list(range(levels)), "only-child": [levels - 1],
                   "only-parent": [0], "twice": list(range(levels)) + list(range(levels))}[order]
            ctx.count(f"inherit:dataclass:{order}:levels={levels}")
            if order in ("parent-first", "child-first"):
                B(ctx, "chain:" + order)
            ctx.count(f"inherit:msg_id:{'override' if override else ('base' if base_id is not None else 'none')}")
            rep = {"chain": {"definition": defn_replay(full), "cuts": cuts, "events": evs, "order": order,
                             "base_msg_id": base_id, "msg_id_override": {str(k): v for k, v in override.items()}}}
            ok = True
            for lv in evs:
                _, api = gen_values(rng, defs[lv])
                r = attempt(lambda: classes[lv](*[api[x] for x in defs[lv].names]))
                if r[0] != "ok":
                    ok = False
                    ctx.oracle_fail("dataclass.inherit:binding", f"instantiating class {lv} of the chain (order {order}) raises "
                                    f"{r[1]}; the plain definition of its flattened field list accepts the call",
                                    {**rep, "stage": "inheritance"})
            done = set(evs)
            conv = set(done)        # classes converted so far (a decode attempt on an unconverted root converts it)
            # model: class-level data of every class in this state
            tys = "/".join("[" + ",".join(f.ty for f in full.fields[ends[lv] - cuts[lv]:ends[lv]]) + "]" for lv in range(levels))
            nms = "/".join("[" + ",".join(f.names[0] for f in full.fields[ends[lv] - cuts[lv]:ends[lv]]) + "]"
                           for lv in range(levels))
            real = "ok " + " ".join(f"{lv}:" + ",".join(canon_fmt(x) for x in classes[lv].format_list) + ";"
                                    + ",".join(classes[lv].names) + ";" + visible_converters(classes[lv], full.fu)
                                    for lv in range(levels))
            run.ask(f"hier {tys} {nms} [{','.join(map(str, evs))}]", lambda rp: rp, real,
                    "class-level format_list/names along an inheritance chain", rep)
            for lv in range(levels):
                if lv in done:
                    B(ctx, "nearest:self")
                    if ok:
                        against_reference(run, "dataclass.inherit", classes[lv], refs[lv], defs[lv], {**rep, "class": lv}, ids[lv])
                else:
                    # a class of the chain that was never instantiated: the known decode-before-first-instance case
                    _, api = gen_values(rng, defs[lv])
                    ob = attempt(lambda: refs[lv](*[api[x] for x in defs[lv].names]))
                    bb = attempt(lambda: run.ser.pack_serializable(ob[1])) if ob[0] == "ok" else ("err", "x")
                    if bb[0] != "ok":
                        continue
                    da = attempt(lambda: run.ser.unpack_serializable(classes[lv], bb[1]))
                    db = attempt(lambda: run.ser.unpack_serializable(refs[lv], bb[1]))
                    ca = ("ok", attrs_of(da[1][0]), da[1][1]) if da[0] == "ok" else ("err",)
                    cb = ("ok", attrs_of(db[1][0]), db[1][1]) if db[0] == "ok" else ("err",)
                    ctx.count(f"inherit:decode-before-instance:{'same' if ca == cb else 'differs'}")
                    ctx.case(("inherit-decode-first", order, lv), True)
                    anc = [j for j in conv if j < lv]
                    B(ctx, "nearest:ancestor" if anc else "nearest:none")
                    if not anc:
                        conv.add(lv)    # nothing was unpacked and cls() was called: __new__ has converted this class
                    if anc:
                        # model (hier_decode_state): it decodes exactly like its nearest converted ancestor
                        dj = attempt(lambda: run.ser.unpack_serializable(classes[max(anc)], bb[1]))
                        cj = ("ok", attrs_of(dj[1][0]), dj[1][1]) if dj[0] == "ok" else ("err",)
                        predicted = ca == cj
                    else:
                        dflt = tuple((x, canon(full.defaults[x])) for x in defs[lv].names if x in full.defaults)
                        predicted = ca == ("err",) or (ca[0] == "ok" and ca[1] == dflt and len(dflt) == len(defs[lv].names))
                    if not predicted:
                        ctx.oracle_fail("dataclass.inherit:unconverted-class-unexpected",
                                        f"class {lv} of a dataclass chain, never instantiated (instantiated: {sorted(done)}), decodes "
                                        f"to {str(da if da[0] == 'err' else ca)[:160]}: neither the plain definition's result nor "
                                        "what its nearest converted ancestor gives", {**rep, "stage": "inheritance", "class": lv})
                    elif ca != cb:
                        ctx.oracle_fail("DataClassPayload:decode-before-first-instance",
                                        f"class {lv} of a dataclass chain, never instantiated (instantiated: {sorted(done)}), decodes "
                                        f"to {str(da if da[0] == 'err' else ca)[:160]}; the plain definition gives {str(cb)[:160]}",
                                        {**rep, "stage": "inheritance-decode-first", "class": lv})
                    # decoding must not have disturbed the classes that were instantiated
            for lv in sorted(done):
                if ok and rng.random() < 0.5:
                    against_reference(run, "dataclass.inherit", classes[lv], refs[lv], defs[lv], {**rep, "class": lv, "second_pass": True}, ids[lv])
        else:
            # ---- VariablePayload from VariablePayload ---------------------------------------------
            inherit_init = rng.random() < 0.4     # the child inherits a user __init__ with defaults from its parent
            full, cuts = gen_chain(rng, 2, inherit_init)
            pform, cform = rng.choice([("I", "I"), ("I", "C"), ("C", "C"), ("C", "I"), ("C", "I")])
            if inherit_init:
                pform, cform = rng.choice([("I", "I"), ("I", "C"), ("I", "C"), ("C", "C")])
                cuts = [cuts[0] + cuts[1], 0]
            elif pform == "C" and cform == "I" and rng.random() < 0.5:
                cuts = [cuts[0] + cuts[1], 0]       # same field list: must behave like the plain definition
            ends = [cuts[0], cuts[0] + cuts[1]]
            defs = [prefix_defn(full, e, inherit_init) for e in ends]
            pid = rng.choice([None, 9])
            cid = (rng.choice([pid, 10]) if pid is not None else None)
            try:
                pns = namespace_for(defs[0], "I") if inherit_init else hooks_ns(full, defs[0].names)
                pns.update({"format_list": [f.fmt for f in defs[0].fields], "names": list(defs[0].names)})
                if pid is not None:
                    pns["msg_id"] = pid
                pcls = type(f"VP{full.uid}", (VariablePayloadWID if pid is not None else VariablePayload,), pns)
                if pform == "C":
                    pcls = vp_compile(pcls)
                cns = hooks_ns(full, defs[1].names[ends[0]:])
                if cuts[1]:
                    cns.update({"format_list": [*pcls.format_list, *[f.fmt for f in defs[1].fields[ends[0]:]]],
                                "names": [*pcls.names, *defs[1].names[ends[0]:]]})
                if cid is not None and cid != pid:
                    cns["msg_id"] = cid
                ccls = type(f"VC{full.uid}", (pcls,), cns)
                if cform == "C":
                    ccls = vp_compile(ccls)
                refs = []
                for lv, mid in ((0, pid), (1, cid)):
                    rns = namespace_for(defs[lv], "I")
                    rns.update({"format_list": [f.fmt for f in defs[lv].fields], "names": list(defs[lv].names)})
                    if mid is not None:
                        rns["msg_id"] = mid
                    refs.append(type(f"VR{full.uid}_{lv}", (VariablePayloadWID if mid is not None else VariablePayload,), rns))
            except Exception as e:  # noqa: BLE001
                ctx.count(f"inherit:build-failed:{exc_name(e)}")
                continue
            ctx.count(f"inherit:variablepayload:{cform}-from-{pform}:extra={min(cuts[1], 1)}"
                      + (":inherited-user-init" if inherit_init and defs[0].defaults else ""))
            rep = {"vp_chain": {"definition": defn_replay(full), "cuts": cuts, "parent_form": pform, "child_form": cform,
                                "msg_ids": [pid, cid]}}
            hybrid = pform == "C" and cform == "I"      # also with an unchanged field list: decoding yields the PARENT class
            sig = "vp_compile:uncompiled-subclass-of-compiled" if hybrid else "variablepayload.inherit"
            first = rng.choice([0, 1])
            for lv in ([0, 1] if first == 0 else [1, 0]):
                if hybrid and lv == 1:
                    before = len(ctx.failures)
                    against_reference(run, "hybrid", ccls, refs[1], defs[1], {**rep, "class": 1}, cid)
                    bad = ctx.failures[before:]
                    del ctx.failures[before:]
                    ctx.count(f"inherit:hybrid:{'differs' if bad else 'same'}")
                    # the known finding is EXACTLY "the child runs the parent's generated methods" (model: hybridInit):
                    # check that, and report anything else about the hybrid under its own signature
                    _, papi = gen_values(rng, defs[1])
                    unexpected = None
                    for take in (len(defs[0].names), len(defs[1].names)):
                        argv = [papi[x] for x in defs[1].names[:take]]
                        a, b = attempt(lambda: ccls(*argv)), attempt(lambda: pcls(*argv))
                        ra = ("ok", attrs_of(a[1])) if a[0] == "ok" else ("err",)
                        rb = ("ok", attrs_of(b[1])) if b[0] == "ok" else ("err",)
                        if ra != rb:
                            unexpected = f"child{tuple(argv)!r:.80} gives {ra!s:.120}, the parent's generated constructor {rb!s:.120}"
                        elif a[0] == "ok":
                            pa, pb = attempt(a[1].to_pack_list), attempt(b[1].to_pack_list)
                            if (pa[0], len(pa[1]) if pa[0] == "ok" else 0) != (pb[0], len(pb[1]) if pb[0] == "ok" else 0):
                                unexpected = "the child's pack list is not the parent's generated one"
                    if unexpected:
                        ctx.oracle_fail("vp_compile:hybrid-subclass-unexpected", "an uncompiled subclass of a compiled class "
                                        "does not even behave like the parent's generated methods: " + unexpected,
                                        {**rep, "stage": "inheritance"})
                    elif bad:
                        ctx.oracle_fail(sig, "an uncompiled subclass that extends a vp_compile'd class inherits the parent's "
                                        "generated __init__/to_pack_list/from_unpack_list: " + bad[0]["what"][:200],
                                        {**rep, "stage": "inheritance"})
                else:
                    against_reference(run, sig, [pcls, ccls][lv], refs[lv], defs[lv], {**rep, "class": lv}, [pid, cid][lv])
            if cform == "C":
                gs = gen_structure(ccls, defs[1])
                if gs is not None and "¿" not in gs:
                    run.ask(" ".join(["gen", "C"] + defn_tokens(defs[1], "C") + ["[]", "[]"]), lambda rp: rp, gs,
                            "generated code of a compiled subclass", rep)
    run.flush()



def dataclass_options(run: "Run", n: int):
    """dataclass field options the conversion does not understand: default_factory (the idiomatic default for a list
    field) and kw_only with a required field after a defaulted one.  Reference: the plain definition with that default."""
    from ipv8.messaging.lazy_payload import VariablePayload
    from ipv8.messaging.payload_dataclass import DataClassPayload
    ctx, rng = run.ctx, run.ctx.rng
    for i in range(n):
        kind = ["default_factory", "kw_only", "plain_kw_only_required"][i % 3]
        uid = next(_uid)
        if kind == "plain_kw_only_required":
            from ipv8.messaging.lazy_payload import vp_compile
            env = {"_VP": VariablePayload}
            exec("def __init__(self, *, a=1, b):\n    _VP.__init__(self, a, b)\n", env)
            ns = {"format_list": ["q", "q"], "names": ["a", "b"], "__init__": env["__init__"]}
            plain = type(f"OP{uid}", (VariablePayload,), ns)
            rc = attempt(lambda: vp_compile(type(f"OC{uid}", (VariablePayload,), dict(ns))))
            a = attempt(lambda: rc[1](b=7)) if rc[0] == "ok" else rc
            b = attempt(lambda: plain(b=7))
            ra = ("ok", attrs_of(a[1])) if a[0] == "ok" else a
            rb = ("ok", attrs_of(b[1])) if b[0] == "ok" else b
            ctx.count(f"dataclass-options:{kind}:{ra[0] if ra[0] == 'ok' else ra[1]}")
            ctx.case(("dataclass-options", kind), True)
            if ra != rb:
                sig = "vp_compile:keyword-only-required-after-default" if ra[0] == "err" else \
                    "vp_compile:keyword-only-required-after-default-unexpected"
                ctx.oracle_fail(sig, f"plain class with `def __init__(self, *, a=1, b)`: compiled {str(ra)[:120]}, plain "
                                f"{str(rb)[:120]}", {"dataclass_options": {"kind": kind}, "stage": "dataclass-options"})
            continue
        if kind == "default_factory":
            fmt, factory = rng.choice([("arrayH-q", list), ("varlenH-list", list), ("varlenH", bytes), ("varlenHutf8", str)])
            fields = [("a", int), ("b", {"arrayH-q": list[int], "varlenH": bytes, "varlenHutf8": str}.get(
                fmt, __import__("ipv8.messaging.payload_dataclass", fromlist=["x"]).type_from_format(fmt)),
                dataclasses.field(default_factory=factory))]
            r = attempt(lambda: dataclasses.make_dataclass(f"O{uid}", fields, bases=(DataClassPayload,)))
            ref_default = factory()
        else:
            fields = [("a", int, dataclasses.field(default=1)), ("b", int)]
            fmt = "q"
            r = attempt(lambda: dataclasses.make_dataclass(f"O{uid}", fields, bases=(DataClassPayload,), kw_only=True))
            ref_default = None
        if r[0] != "ok":
            ctx.count(f"dataclass-options:{kind}:make_dataclass-{r[1]}")
            continue
        cls = r[1]
        cls.__module__ = generated_module()
        ns = {"format_list": ["q", fmt], "names": ["a", "b"]}
        if kind == "default_factory":
            env = {"_VP": VariablePayload, "_f": factory}
            exec("def __init__(self, a, b=None):\n    _VP.__init__(self, a, _f() if b is None else b)\n", env)
        else:
            env = {"_VP": VariablePayload}
            exec("def __init__(self, *, a=1, b):\n    _VP.__init__(self, a, b)\n", env)
        ns["__init__"] = env["__init__"]
        ref = type(f"OR{uid}", (VariablePayload,), ns)
        call = (lambda c: c(5)) if kind == "default_factory" else (lambda c: c(b=7))
        a, b = attempt(lambda: call(cls)), attempt(lambda: call(ref))
        ra = ("ok", attrs_of(a[1])) if a[0] == "ok" else a
        rb = ("ok", attrs_of(b[1])) if b[0] == "ok" else b
        ctx.count(f"dataclass-options:{kind}:{ra[0] if ra[0] == 'ok' else ra[1]}")
        if ra[0] == "err":
            B(ctx, "compile:refused")
        ctx.case(("dataclass-options", kind, fmt), True)
        if ra == rb:
            continue
        # known finding: these dataclass options are unsupported and REFUSED (an exception at the first instantiation);
        # constructing an object whose field silently holds something else than factory() is a new failure
        predicted = ra[0] == "err"      # a loud refusal; a silently wrong default value is never "known"
        sig = "convert_to_payload:dataclass-field-options" if predicted else "convert_to_payload:dataclass-field-options-unexpected"
        ctx.oracle_fail(sig, f"dataclass payload with {kind}: {str(ra)[:160]} but the plain definition with that default gives "
                        f"{str(rb)[:160]}", {"dataclass_options": {"kind": kind, "format": fmt}, "stage": "dataclass-options"})



def custom_init_params(run: "Run", n: int):
    """a definition whose own __init__ does not spell its parameters like the fields (or takes *args) and forwards them
    positionally: positional construction, bytes and DECODING must agree between the plain and the compiled form"""
    from ipv8.messaging.lazy_payload import VariablePayload, vp_compile
    ctx, rng = run.ctx, run.ctx.rng
    for i in range(n):
        kind = ["renamed", "renamed+default-unused", "star-only"][i % 3]
        full, _ = gen_chain(rng, 1, False)
        d = prefix_defn(full, len(full.fields), False)
        k = len(d.names)
        if kind == "star-only":
            src = "def __init__(self, *values):\n    _VP.__init__(self, *values)\n"
        else:
            ps = [f"p{j}" for j in range(k)]
            sig = ", ".join(ps[:-1] + [ps[-1] + ("=None" if kind.endswith("unused") else "")])
            src = f"def __init__(self, {sig}):\n    _VP.__init__(self, {', '.join(ps)})\n"
        classes = {}
        for form in ("I", "C"):
            env = {"_VP": VariablePayload}
            exec(src, env)
            ns = hooks_ns(full, d.names)
            ns.update({"format_list": [f.fmt for f in d.fields], "names": list(d.names), "__init__": env["__init__"]})
            cls = type(f"CI{d.uid}{form}", (VariablePayload,), ns)
            classes[form] = vp_compile(cls) if form == "C" else cls
        ctx.count(f"custom-init:{kind}")
        B(ctx, "custom-init:star" if kind == "star-only" else "custom-init:renamed")
        ctx.case(("custom-init", kind, d.shape()), True)
        rep = {"custom_init": {"kind": kind, "source": src, "definition": defn_replay(d)}, "stage": "custom-init"}
        _, api = gen_values(rng, d)
        out = {}
        for form, cls in classes.items():
            o = attempt(lambda: cls(*[api[x] for x in d.names]))
            if o[0] != "ok":
                out[form] = ("ctor-" + o[1],)
                continue
            b = attempt(lambda: run.ser.pack_serializable(o[1]))
            if b[0] != "ok":
                out[form] = ("ok", attrs_of(o[1]), "pack-" + b[1])
                continue
            dd = attempt(lambda: run.ser.unpack_serializable(cls, b[1]))
            out[form] = ("ok", attrs_of(o[1]), b[1], ("ok", attrs_of(dd[1][0]), dd[1][1]) if dd[0] == "ok" else ("decode-" + dd[1],))
        ctx.count(f"custom-init:decode:{out['I'][-1][0] if isinstance(out['I'][-1], tuple) else out['I'][-1]}")
        if out["I"] != out["C"]:
            ctx.oracle_fail("custom-init:constructor-bytes-decoding", f"own __init__ `{src.splitlines()[0]}`: plain form "
                            f"{str(out['I'])[:220]} but compiled form {str(out['C'])[:220]}", rep)


def postponed_annotations(run: "Run", n: int):
    """dataclass payloads whose nested payload is named by a STRING annotation (`from __future__ import annotations`,
    classes defined inside a function): get_type_hints resolves the name in the module, where convert_to_payload publishes
    every converted class.  Several generations reuse the class names with other layouts; every holder must nest ITS
    generation's item, like the plain definition with format_list [q, Item_g, [Item_g]]."""
    from ipv8.messaging.lazy_payload import VariablePayload
    from ipv8.messaging.payload_dataclass import DataClassPayload
    ctx, rng = run.ctx, run.ctx.rng
    mod = generated_module()
    layouts = [(int, "q", lambda: rint(rng, *INT_RANGES["q"])), (float, "d", lambda: rfloat(rng, False)),
               (bytes, "varlenH", lambda: rbytes(rng, 3)), (str, "varlenHutf8", lambda: rng.choice(STR_SAMPLES)),
               (bool, "?", lambda: rng.random() < 0.5)]
    for i in range(n):
        name = f"PItem{i % 2}"
        gens = rng.sample(layouts, 3)
        for g, (pyt, fmt, val) in enumerate(gens):
            item = dataclasses.make_dataclass(name, [("a", pyt)], bases=(DataClassPayload,))
            holder = dataclasses.make_dataclass(f"PHolder{i % 2}", [("ident", int), ("item", name), ("items", f"list[{name}]")],
                                                bases=(DataClassPayload,))
            item.__module__ = holder.__module__ = mod
            ctx.count(f"postponed:generation={g}")
            B(ctx, "postponed:first-generation" if g == 0 else "postponed:later-generation")
            ctx.case(("postponed", i, g), True)
            rep = {"postponed": {"class_name": name, "generation": g, "layouts": [x[1] for x in gens[:g + 1]]},
                   "stage": "postponed-annotations"}
            args = attempt(lambda: (rint(rng, 0, 1000), item(val()), [item(val()) for _ in range(rng.randrange(3))]))
            if args[0] != "ok":
                ctx.oracle_fail("dataclass.postponed:binding", f"instantiating the item raises {args[1]}", rep)
                continue
            plain = type(f"PPlain{i}_{g}", (VariablePayload,), {"format_list": ["q", item, [item]], "names": ["ident", "item", "items"]})
            dc = attempt(lambda: holder(*args[1]))
            if dc[0] != "ok":
                ctx.oracle_fail("dataclass.postponed:binding", f"instantiating the holder raises {dc[1]}", rep)
                continue
            fl = holder.format_list
            if not (len(fl) == 3 and fl[1] is item and isinstance(fl[2], list) and fl[2][0] is item):
                ctx.oracle_fail("dataclass.postponed:definition", f"generation {g}: the holder nests "
                                f"{[getattr(x, '__name__', x) if not isinstance(x, list) else [x[0].__name__] for x in fl]} "
                                f"with item layout {[getattr(x, 'format_list', None) for x in (fl[1], fl[2][0] if isinstance(fl[2], list) else None)]}"
                                f", not this generation's item (layout {item.format_list})", rep)
            bp = attempt(lambda: run.ser.pack_serializable(plain(*args[1])))
            bd = attempt(lambda: run.ser.pack_serializable(dc[1]))
            if bp != bd:
                ctx.oracle_fail("dataclass.postponed:bytes", f"bytes {str(bd)[:120]} vs plain {str(bp)[:120]}", rep)
            if bp[0] == "ok":
                dp = attempt(lambda: run.ser.unpack_serializable(plain, bp[1]))
                dh = attempt(lambda: run.ser.unpack_serializable(holder, bp[1]))
                cp = ("ok", canon(dp[1][0]), dp[1][1]) if dp[0] == "ok" else ("err",)
                ch = ("ok", canon(dh[1][0]), dh[1][1]) if dh[0] == "ok" else ("err", dh[1])
                if cp != ch:
                    ctx.oracle_fail("dataclass.postponed:decoded-fields", f"generation {g}: decoding gives {str(ch)[:200]} "
                                    f"but the plain definition {str(cp)[:200]}", {**rep, "bytes": bp[1].hex()})


# ---------------------------------------------------------------------------------------------------------------


def type_map_queries(run: Run):
    """type_map on annotation shapes, real vs model"""
    from ipv8.messaging.payload_dataclass import type_from_format, type_map
    from ipv8.messaging.lazy_payload import VariablePayload
    ctx = run.ctx

    class Nested(VariablePayload):
        format_list = ["I"]
        names = ["a"]

    cases = {"bool": bool, "int": int, "float": float, "bytes": bytes, "str": str, "tv:varlenH": type_from_format("varlenH"),
             "tv:c20s": type_from_format("c20s"), "other": dict, "se:Nested": Nested, "cs:Nested": list[Nested],
             "co:other": list[dict], "co:tv:I": list[type_from_format("I")], "co:co:int": list[list[int]],
             "lit:Nested": [Nested], "cot:int#ellipsis": tuple[int, ...], "cot:int#pair": tuple[int, str],
             "cot:se:Nested#ellipsis": tuple[Nested, ...], "cot:se:Nested#pair": tuple[Nested, int],
             "cos:float": set[float], "cot:other#pair": tuple[dict, int], "co:lit:Nested": list[[Nested]] if False else None}
    cases = {k: v for k, v in cases.items() if v is not None}
    for e in ("bool", "int", "float", "bytes", "str"):
        for k, g in (("list", list), ("tuple", tuple), ("set", set)):
            cases[f"co:{e}#{k}"] = g[PY_TYPES[e]]
    for key, t in cases.items():
        r = attempt(lambda: type_map(t))
        real = "ok " + canon_fmt(r[1]) if r[0] == "ok" else "err:" + r[1]
        tok = key.split("#")[0]
        ctx.count("type_map:" + ("ok" if r[0] == "ok" else r[1]))
        if r[0] != "ok":
            B(ctx, "typeMap:" + r[1])
        elif tok in PY_TYPES:
            B(ctx, "typeMap:native")
        elif tok.startswith("tv:"):
            B(ctx, "typeMap:tvar")
        elif tok.startswith("lit:"):
            B(ctx, "typeMap:lit")
        elif tok.startswith("se:"):
            B(ctx, "typeMap:ser")
        elif tok.startswith("cs:") or ":se:" in tok:
            B(ctx, "typeMap:coll-ser")
        elif tok.startswith(("co:", "cot:", "cos:")):
            B(ctx, "typeMap:coll-native")
        if key.endswith("#pair"):
            # heterogeneous tuple[T, U]: today only T counts; rejecting such an annotation would be just as good, so
            # this is recorded, compared with the model only when it is accepted, and never an oracle matter
            ctx.count("type_map:pair-annotation:" + ("accepted" if r[0] == "ok" else "rejected"))
            if r[0] != "ok":
                continue
        run.ask("tmap " + tok, lambda rep: rep, real, "type_map", {"annotation": key})
        ctx.case(("tmap", key), True)
        spec_nested = {"lit:Nested": "ok l:Nested", "cs:Nested": "ok l:Nested", "cot:se:Nested": "ok l:Nested",
                       "se:Nested": "ok c:Nested", "cot:int": "ok s:arrayH-q", "cos:float": "ok s:arrayH-d"}
        if tok in spec_nested and real != spec_nested[tok]:
            ctx.oracle_fail("type_map:format", f"type_map({key}) = {real}, expected {spec_nested[tok]}",
                            {"annotation": key, "stage": "type_map"})
        if tok in SPEC_TYPE_FORMAT and real != "ok s:" + SPEC_TYPE_FORMAT[tok]:
            ctx.oracle_fail("type_map:format", f"type_map({key}) = {real}, expected {SPEC_TYPE_FORMAT[tok]}",
                            {"annotation": key, "stage": "type_map"})
        if tok in SPEC_TYPE_FORMAT and SPEC_TYPE_FORMAT[tok] not in run.ser.get_available_formats():
            ctx.oracle_fail("type_map:unregistered-format", f"{SPEC_TYPE_FORMAT[tok]} is not a registered format",
                            {"annotation": key, "stage": "type_map"})
    run.flush()


def run_all(ctx: Ctx, n_defs: int, use_model: bool, small_n: int, per_shipped: int):
    r = Run(ctx, use_model)
    type_map_queries(r)
    packer_slots(r)
    small_scope(r, small_n)
    shipped(r, per_shipped)
    reannotate(r, ctx.scale(48, 400))
    custom_init_params(r, ctx.scale(30, 300))
    postponed_annotations(r, ctx.scale(10, 100))
    for i in range(n_defs):
        d = gen_defn(ctx.rng, r.formats)
        checked(r, d)
        if i < 3:
            ctx.sample({"definition": defn_replay(d)})
    r.flush()
    # the families that reproduce known findings run last
    dataclass_options(r, ctx.scale(9, 45))
    inheritance(r, ctx.scale(120, 1500))
    decode_first(r, ctx.scale(30, 300))
    for outer, inner in FALLBACKS:
        ctx.count(f"nested-form-fallback:{outer}-wanted-{inner}")
    del FALLBACKS[:]
    ctx.count("harness:definitions-aborted", r.aborted)


def checked(r: Run, d: Defn, top=True):
    """check the nested definitions on their own first (small budget), then the definition itself"""
    for f in d.fields:
        if f.sub is not None:
            checked(r, f.sub, top=False)
    try:
        if top:
            r.definition(d)
        else:
            r.definition(d, n_valid=1, n_invalid=1, n_inst=1)
    except Exception as e:  # noqa: BLE001  an instance of a nested class could not be made: reported with that class
        r.ctx.count(f"harness:definition-aborted:{exc_name(e)}")
        r.lines, r.checks = [], []
        r.aborted += 1
        if r.aborted > 5 and not r.ctx.failures and not r.ctx.disagreements:
            raise       # nothing reported so far: this is a harness problem, not a consequence of a reported failure


# ---------------------------------------------------------------------------------------------------------------
# branch classes of the hand-written model definitions that every run has to reach (design.d/C20.md section 9): a run
# in which one of them stays at zero has silently lost coverage and ends with exit 2, not with a pass

REQUIRED_BRANCHES = [
    # VariablePayload.__init__ (initSlot / vpInit / superFwd / interpInit)
    "vpInit:positional", "vpInit:kwargs-pop", "vpInit:pop-KeyError", "vpInit:surplus-KeyError", "vpInit:leftover-KeyError",
    "vpInit:bits-8-names", "superFwd:positional", "superFwd:kwargs-pop", "userInit:default-used",
    "userInit:varkw-leftover", "userInit:nokw-unknown-TypeError", "userInit:keyword-only-guard",
    # CPython binding of the generated __init__ (pyBind / bindParams)
    "pyBind:positional", "pyBind:keyword", "pyBind:default", "pyBind:surplus-TypeError", "pyBind:duplicate-TypeError",
    "pyBind:missing-TypeError", "pyBind:unknown-TypeError",
    # to_pack_list (fixPackI / packSlots / packFmts / runPack*)
    "pack:hooked", "pack:plain", "pack:bits", "pack:payload", "pack:payload-list", "pack:AttributeError",
    "pack:none-in-hooked-field",
    # from_unpack_list (unpackFix / runUArgs / runUnpack)
    "unpack:hooked", "unpack:plain", "unpack:none-entry-on-hooked", "unpack:short", "unpack:long",
    # vp_compile (compileInit / spliceParams / defaultsOrdered)
    "compile:with-defaults", "compile:without-defaults", "compile:refused", "compile:text-compared",
    # type_map (typeMap)
    "typeMap:native", "typeMap:tvar", "typeMap:coll-native", "typeMap:coll-ser", "typeMap:lit", "typeMap:ser",
    "typeMap:NotImplementedError", "typeMap:TypeError",
    # convert_to_payload (derivedUnpack)
    "derived:tuple", "derived:set", "derived:user-rule-kept", "derived:keep-container", "derived:non-container",
    # class-state machine (nearest / newStep / decodeStep)
    "nearest:self", "nearest:ancestor", "nearest:none", "chain:parent-first", "chain:child-first",
    # nesting (packerWith / bytesOf / decodeObj)
    "nesting:compiled-holds-interpreted", "nesting:interpreted-holds-compiled", "nesting:dataclass-holds-other",
    "nesting:bytes-compositional", "nesting:decode-through-nested",
    # own __init__ that only forwards (*args / renamed parameters); string annotations over generations (publish / resolveName)
    "custom-init:star", "custom-init:renamed", "postponed:first-generation", "postponed:later-generation",
    # how a rule is declared in the class body; annotations left as text (PEP 563 / quoted)
    "hook-style:pack-static", "hook-style:pack-class", "hook-style:pack-unbound", "hook-style:unpack-not-classmethod",
    "annotations:text-container", "annotations:text-with-nested",
]


def B(ctx, name):
    ctx.count("branch:" + name)


def coverage_gate(ctx: Ctx):
    """exit 2 when a required branch class was not reached - unless the run already has something to report"""
    import vlib
    known = {k.get("signature") for k in vlib.load_known_findings() if k.get("property") == PROPERTY and k.get("status") == "known"}
    if ctx.disagreements or ctx.broken or any(f["signature"] not in known for f in ctx.failures):
        return
    required = list(REQUIRED_BRANCHES)
    if (ctx.extra.get("translator") or {}).get("compiled_battery_text_not_recognised", 0):
        # the generators emit text outside the parser's subset (a restyled generator): the structural tie - the `gen`
        # lines and theorem generated_code_matches_model - is vacuous in this run; behaviour is still compared.  Said
        # loudly in the evidence and on stderr instead of failing a property-neutral change
        required.remove("compile:text-compared")
        ctx.extra["structural_tie"] = "LOST: emitted text of _compile_* is outside the subset tools/gen_c20.parse_generated reads"
        print("C20: structural tie to the generated text is lost (text outside the parser's subset); behavioural checks only",
              file=sys.stderr)
    missing = [b for b in required if ctx.counts.get("branch:" + b, 0) == 0]
    ctx.extra["required_branches"] = {"listed": len(REQUIRED_BRANCHES), "missing": missing}
    if missing:
        raise vlib.InfraError("coverage lost: branch classes never reached in this run: " + ", ".join(missing))



def generate(ctx: Ctx):
    src, meta = gen_c20.translate()
    ctx.extra["translator"] = meta
    return [("Ipv8/C20/Gen.lean", src)]


def run(ctx: Ctx):
    if ctx.replay_input is not None:
        return replay(ctx, ctx.replay_input)
    run_all(ctx, ctx.scale(300, 6000), ctx.model_ok, ctx.scale(3, 4), ctx.scale(4, 40))
    coverage_gate(ctx)


def search(ctx: Ctx, reason: str):
    r = Run(ctx, False)
    type_map_queries(r)
    small_scope(r, 3)
    shipped(r, 10)
    reannotate(r, 100)
    custom_init_params(r, 60)
    postponed_annotations(r, 30)
    for _ in range(800):
        checked(r, gen_defn(ctx.rng, r.formats))
    inheritance(r, 300)


# ---------------------------------------------------------------------------------------------------------------


def defn_from_replay(rec) -> Defn:
    d = Defn()
    d.uid = next(_uid)
    for f in rec["fields"]:
        sub = defn_from_replay(f["sub"]) if f.get("sub") else None
        ty = f["ty"]
        if sub is not None:
            ty = ty[:ty.rindex(":") + 1] + f"N{sub.uid}"
        d.fields.append(Field(f["kind"], f["fmt"], sub, f["names"], ty, f.get("ck", "list"), f.get("ann", "plain")))
    d.names = [n for f in d.fields for n in f.names]
    d.user_init = rec["user_init"]
    d.super_n = rec.get("super_n", 0)
    d.kwonly = rec.get("kwonly", 0)
    d.hook_style = rec.get("hook_style", {})
    d.str_ann = rec.get("str_ann", False)
    d.defaults = {k: dec_default(v) for k, v in rec["defaults"].items()}
    d.derived = set(rec.get("derived", []))
    d.fp, d.fu = rec["fix_pack"], rec["fix_unpack"]
    d.nform = {k: {int(i): v for i, v in m.items()} for k, m in rec["nested_forms"].items()}
    return d


def replay(ctx: Ctx, rec: dict):
    r = rec.get("replay", rec)
    run_ = Run(ctx, False)
    if "definition" in r and r.get("stage") != "decode-first":
        d = defn_from_replay(r["definition"])
        before = len(ctx.failures)
        for _ in range(5):
            run_.definition(d, n_valid=6, n_invalid=4, n_inst=3)
        n = len(ctx.failures) - before
        print(f"replay: definition with names {d.names}, defaults {d.defaults!r}: {n} oracle failure(s); "
              f"property {'FAILS' if n else 'holds'}")
        for f in ctx.failures[before:before + 3]:
            print("  ", f["signature"], "-", f["what"][:300])
    elif r.get("stage") == "decode-first":
        d = defn_from_replay(r["definition"])
        fresh = build(d, "D", fresh=True)
        res = attempt(lambda: run_.ser.unpack_serializable(fresh, bytes.fromhex(r["bytes"])))
        ok = res[0] == "ok"
        print(f"replay: decode with a never-instantiated dataclass class -> {res if not ok else 'ok'}; "
              f"property {'holds' if ok else 'FAILS'}")
        if not ok:
            ctx.oracle_fail("DataClassPayload:decode-before-first-instance", "replayed input still fails", r)
        ctx.case(("replay",), True)
    elif "chain" in r or "vp_chain" in r:
        # inheritance cases depend on the order of class creation/instantiation: re-run the whole family from this seed
        ctx.rng.seed(rec.get("seed", 0))
        inheritance(run_, 300)
        sigs = sorted({f["signature"] for f in ctx.failures})
        print(f"replay: re-ran 300 inheritance / instantiation-order cases: {len(ctx.failures)} oracle failure(s) {sigs}; "
              f"recorded case: {json.dumps(r.get('chain') or r.get('vp_chain'))[:400]}")
    else:
        run_all(ctx, 50, False, 2, 2)
        print(f"replay: re-ran the structured checks: {len(ctx.failures)} oracle failure(s)")
