"""
C19 — stored identity data survives a crash at any point.

Link to the code
  * translator tools/gen_db.py regenerates lean/Ipv8/C19/GenDbOps.lean (primitive lists of every insert_* method and of
    Database.commit, schema scripts, handler list of _prepare_version) from the working tree on every run;
  * reality runs: a CHILD process (this file, `child` mode) opens a file database of the working tree's classes in a
    fresh temporary directory, executes a workload (IdentityDatabase / AttestationsDB insert_* calls, `with db:` blocks,
    PseudonymManager.create_credential / add_attestation), writes one line per event to a pipe (statement starts from
    sqlite3's trace callback, completed cursor.execute / connection.commit, returned insert calls = acks) and is killed
      - at the n-th event for every n (SIGKILL from inside the event hook: before/after every statement and commit),
      - in the middle of a write (RLIMIT_FSIZE + default SIGXFSZ: the process dies inside the write system call),
      - asynchronously by the parent after a random delay;
    a fresh VERIFY process (`verify` mode) reopens the file with the real class, dumps every table, the API-level
    reads and, for manager workloads, rebuilds the pseudonym and verifies it;
  * correspondence: the label sequence of the observed events must be a prefix of the model's timeline of the same
    calls and the reopened content must be the model's prediction for that crash point (driver drv_c19);
  * oracle (independent of the model): the property text evaluated on (ack log, reopened content).
"""
from __future__ import annotations

import json
import os
import queue
import re
import shutil
import signal
import subprocess
import sys
import tempfile
import time
from concurrent.futures import ThreadPoolExecutor

PROPERTY = "C19"
LEAN_TARGETS = ["Ipv8.C19.Props"]
PROPS_FILE = "Ipv8/C19/Props.lean"
DRIVER = "drv_c19"
RULE = ("one case = one (workload, process history, kill point) run against a real file database, reopened by a fresh "
        "process; workload classes: scripted (every event index is a kill point: identity inserts with colliding keys, "
        "single and nested `with db:` blocks, wallet inserts, wallet version-1 files complete / without version row / "
        "without option table being upgraded, own credentials, other parties' pseudonyms through the public API) and "
        "generated (IdentityDatabase inserts with colliding primary keys, NULL and multi-page contents, blocks nested "
        "up to 3 ending normally / by exception / by IgnoreCommits, explicit commits; AttestationsDB inserts incl. "
        "duplicate hashes; PseudonymManager credential chains with attestations; foreign-*: substantiate with/without "
        "tokens, add_credential in chain / reversed / shuffled arrival order, add_metadata alone, add_attestation alone; "
        "randsig-*: key type with randomised signatures (key from the OS generator, recorded in the workload); "
        "threads-*: 2-8 threads on one Database; store-*: stores above the token tree's waiting-buffer bound; 1-4 "
        "process lifetimes with earlier processes killed); kill kinds: event-indexed SIGKILL, mid-write SIGXFSZ, timed "
        "SIGKILL, none (probe); distinct = distinct (workload digest incl. process split and earlier kills, kill kind, "
        "kill position); non-trivial = a killed run (not a probe) in which the kill came after the database file existed")
TRUSTED_BASE = [
    "tools/gen_db.py: AST translation of insert_* / Database.commit (straight-line + if), schema classification, handler list",
    "SQLite (3.40) statement/transaction atomicity and WAL recovery after process kill, the file system: exercised by the "
    "kill/reopen runs, not modelled (rows are atomic values in the model)",
    "the event hooks injected in the child (sqlite3.connect factory: Connection/Cursor subclasses + trace callback)",
]
ASSUMPTIONS = ["the process is killed (SIGKILL/SIGXFSZ); power loss / OS crash (synchronous=NORMAL) is outside the property",
               "one process uses the database file at a time (not enforced by the code: locking_mode=EXCLUSIVE is only set "
               "by the very first open of a file; later opens run in normal locking mode)",
               "rows are atomic values in the model: a torn row or transaction can only be seen by the kill runs"]

META = None          # translator output of this run (table / method names)
HERE = os.path.abspath(__file__)
WALLET_DBNAME = "attdb"
INSERT_RE = re.compile(r"^\s*INSERT(?:\s+OR\s+(\w+))?\s+INTO\s+(\S+)\s*\(([^)]*)\)", re.I | re.S)


def generate(ctx):
    global META
    import gen_db
    src, META = gen_db.translate()
    return [("Ipv8/C19/GenDbOps.lean", src)]


# =====================================================================================================
#  child / verify processes (run with the working tree first on sys.path; no vlib import needed)
# =====================================================================================================
def _emit(s: str):
    os.write(1, (s + "\n").encode())


def _hx(b):
    if b is None:
        return None
    if isinstance(b, str):
        b = b.encode()
    return bytes(b).hex()


def _cx(b):
    """compact cell: values up to 80 bytes as hex, longer ones as #sha1:length (both sides use the same form)"""
    if b is None or isinstance(b, (int, float)):
        return b
    if isinstance(b, str):
        b = b.encode()
    b = bytes(b)
    if len(b) <= 80:
        return b.hex()
    import hashlib
    return "#%s:%d" % (hashlib.sha1(b).hexdigest(), len(b))


def _unhx(s):
    return None if s is None else bytes.fromhex(s)


class _StubKey:
    """stands in for a PublicKey where only key_to_bin() is used (IdentityDatabase.insert_*/get_*)"""

    def __init__(self, b):
        self.b = b

    def key_to_bin(self):
        return self.b


class _StubAtt:
    def __init__(self, blob):
        self.blob = blob

    def serialize_private(self, pk):
        return self.blob


class _StubSK:
    def __init__(self, b):
        self.b = b

    def public_key(self):
        return None

    def serialize(self):
        return self.b


_CONNECT_HOOK = [None]


def install_connect_dispatcher():
    """replace sqlite3.connect (before ipv8 is imported) by a dispatcher a forked child can arm"""
    import sqlite3
    if getattr(sqlite3.connect, "_c19", False):
        return
    real = sqlite3.connect

    def connect(*a, **k):
        if _CONNECT_HOOK[0] is not None and not (a and a[0] == ":memory:"):
            k.setdefault("factory", _CONNECT_HOOK[0])
        return real(*a, **k)
    connect._c19 = True
    sqlite3.connect = connect


def child_main(spec):
    import sqlite3
    install_connect_dispatcher()
    import threading
    crash_at = int(spec.get("crash_at") or 0)
    counter = [0]
    cur = threading.local()
    plock = threading.Lock()

    def tag():
        cid = getattr(cur, "cid", None)
        return "" if cid is None else f" @{cid}"

    def point(kind):
        with plock:
            counter[0] += 1
            mine = counter[0]
            _emit(f"P {mine} {kind}{tag()}")
        if mine == crash_at:
            os.kill(os.getpid(), signal.SIGKILL)
            time.sleep(60)

    def trace(stmt):
        w = stmt.split(None, 1)
        point("S:" + (w[0].upper() if w else ""))

    class TCur(sqlite3.Cursor):
        def execute(self, sql, params=()):
            ins = bool(INSERT_RE.match(sql)) and " option" not in sql.split("(")[0]
            if not ins:                      # reads and pragmas: kill points, but not primitives of the model
                point("r")
                r = super().execute(sql, params)
                point("RD")
                return r
            _emit("Q " + sql.encode().hex() + " " + json.dumps([_cx(x) for x in params]).replace(" ", "") + tag())
            point("q")
            try:
                r = super().execute(sql, params)
            except BaseException as e:
                point("X!:" + type(e).__name__)
                raise
            point("X:%d" % self.rowcount)
            return r

        def executescript(self, script):
            point("s")
            r = super().executescript(script)
            point("ES")
            return r

        def executemany(self, sql, seq):
            point("qm")
            r = super().executemany(sql, seq)
            point("XM")
            return r

    class TConn(sqlite3.Connection):
        def __init__(self, *a, **k):
            super().__init__(*a, **k)
            self.set_trace_callback(trace)

        def cursor(self, factory=None):
            return super().cursor(TCur)

        def commit(self):
            point("c")
            super().commit()
            point("C")

    if spec.get("pre") == "wallet_v1":
        _make_wallet_v1(spec)
    _CONNECT_HOOK[0] = TConn
    if spec.get("fsize") and spec.get("fsize_from") == "start":
        _set_fsize(spec["fsize"])
    try:
        if spec["kind"] == "wallet":
            from ipv8.attestation.wallet.database import AttestationsDB
            db = AttestationsDB(spec["dir"], spec["dbname"])
            mgr = None
        elif spec["kind"] == "manager" and spec.get("community"):
            comm = _make_communities(spec)          # the store is opened by IdentityCommunity itself (file-backed)
            mgr = comm["subject"].overlay.identity_manager
            db = mgr.database
        elif spec["kind"] == "manager":
            from ipv8.attestation.identity.manager import IdentityManager
            mgr = IdentityManager(spec["path"])
            db = mgr.database
        else:
            from ipv8.attestation.identity.database import IdentityDatabase
            db = IdentityDatabase(spec["path"])
            db.open()
            mgr = None
        _emit("O")
        if spec.get("fsize") and spec.get("fsize_from") != "start":
            _set_fsize(spec["fsize"])
        calls = [int(spec.get("first_call") or 0)]

        def wrap(name):
            orig = getattr(db, name)

            def w(*a, **k):
                with plock:
                    i = calls[0]
                    calls[0] += 1
                cur.cid = i
                _emit(f"B {i} {name} {getattr(cur, 'op', -1)}")
                try:
                    r = orig(*a, **k)
                except BaseException as e:
                    cur.cid = None
                    _emit(f"R {i} {type(e).__name__}")
                    raise
                cur.cid = None
                _emit(f"A {i}")
                return r
            return w
        for name in dir(db):
            if name.startswith("insert_"):
                setattr(db, name, wrap(name))
        nthreads = int(spec.get("threads") or 0)
        if spec.get("community"):
            _run_community_ops(spec, comm)
        elif nthreads > 1:
            sys.setswitchinterval(1e-5)
            first = int(spec.get("first_op") or 0)
            idx = list(enumerate(spec["ops"], first))
            ths = [threading.Thread(target=_run_ops, args=(spec, db, mgr, cur, idx[t::nthreads])) for t in range(nthreads)]
            for th in ths:
                th.start()
            for th in ths:
                th.join()
        else:
            _run_ops(spec, db, mgr, cur)
        dbfile = os.path.join(spec["dir"], "sqlite", spec["dbname"] + ".db") if spec["kind"] == "wallet" else spec["path"]
        _emit("Z %d %d" % (os.path.getsize(dbfile) if os.path.exists(dbfile) else 0,
                           os.path.getsize(dbfile + "-wal") if os.path.exists(dbfile + "-wal") else 0))
        _emit("D")
        if spec.get("end") == "hang":
            time.sleep(60)
    except BaseException as e:  # noqa: BLE001
        import traceback
        _emit("F " + type(e).__name__ + " " + json.dumps(traceback.format_exc()[-600:]))
        if spec.get("end") == "hang":
            time.sleep(60)
    sys.stdout.flush()
    os._exit(0)        # "exit" = process ends without Database.close(), like an application that is simply stopped


def _set_fsize(limit):
    import resource
    resource.setrlimit(resource.RLIMIT_CORE, (0, 0))
    signal.signal(signal.SIGXFSZ, signal.SIG_DFL)      # CPython ignores SIGXFSZ by default; we want the kernel to kill us
    resource.setrlimit(resource.RLIMIT_FSIZE, (int(limit), int(limit)))


def _make_wallet_v1(spec):
    """a version-1 wallet file as older releases wrote it (this tree's own v1 DDL text lacks a comma and is not valid
    SQL): table without id_format, version row '1'; done with a plain connection before the hooks are armed"""
    import sqlite3
    path = os.path.join(spec["dir"], "sqlite", spec["dbname"] + ".db")
    if os.path.exists(path):
        return
    os.makedirs(os.path.dirname(path), exist_ok=True)
    c = sqlite3.connect(path)
    variant = spec.get("pre_variant") or "complete"
    c.executescript(f"CREATE TABLE {spec['dbname']}(hash BLOB, blob LONGBLOB, key MEDIUMBLOB, PRIMARY KEY (hash));")
    if variant != "no_option_table":           # the older release was killed in its very first open
        c.executescript("CREATE TABLE option(key TEXT PRIMARY KEY, value BLOB);")
    if variant == "complete":                  # "no_version_row": killed between its DELETE and INSERT of the version
        c.executescript("INSERT INTO option(key, value) VALUES('database_version', '1');")
    for h, b, k in spec.get("pre_rows", []):
        c.execute(f"INSERT INTO {spec['dbname']} (hash, blob, key) VALUES(?,?,?)", (_unhx(h), _unhx(b), _unhx(k)))
    c.commit()
    c.close()


def _make_communities(spec):
    """two IdentityCommunity instances on mock endpoints: `subject` keeps its identity store in the file database of the
    experiment (IdentitySettings(working_directory=…) -> <dir>/sqlite/identity.db), `peer` lives in memory"""
    import asyncio
    from ipv8.attestation.identity.community import IdentityCommunity, IdentitySettings
    from ipv8.attestation.identity.manager import IdentityManager
    from ipv8.keyvault.crypto import ECCrypto
    from ipv8.peer import Peer
    from ipv8.test.mocking.ipv8 import MockIPv8
    loop = asyncio.new_event_loop()
    asyncio.set_event_loop(loop)
    crypto = ECCrypto()

    async def build():
        peer = MockIPv8(Peer(crypto.key_from_private_bin(_unhx(spec["community"]["peer_sk"]))), IdentityCommunity,
                        settings=IdentitySettings(identity_manager=IdentityManager(":memory:")))
        subject = MockIPv8(Peer(crypto.key_from_private_bin(_unhx(spec["community"]["subject_sk"]))), IdentityCommunity,
                           settings=IdentitySettings(working_directory=spec["dir"]))
        return peer, subject
    peer, subject = loop.run_until_complete(build())
    _emit("Y " + peer.my_peer.public_key.key_to_bin().hex())
    _emit("Y " + subject.my_peer.public_key.key_to_bin().hex())
    out = {"loop": loop, "peer": peer, "subject": subject}
    cfg = spec["community"]
    if cfg.get("second_sk"):
        # a second pseudonym of the same user: its own IdentityCommunity on the SAME IdentityManager / database
        async def build2():
            return MockIPv8(Peer(crypto.key_from_private_bin(_unhx(cfg["second_sk"]))), IdentityCommunity,
                            settings=IdentitySettings(identity_manager=subject.overlay.identity_manager))
        out["subject2"] = loop.run_until_complete(build2())
        _emit("Y " + out["subject2"].my_peer.public_key.key_to_bin().hex())
    if cfg.get("wallet"):
        # the user's attestation wallet (own file database <dir>/sqlite/attestations.db) wired to the identity overlay
        # the way CommunicationChannel.on_attestation_complete does for an own attribute
        from ipv8.attestation.wallet.community import AttestationCommunity, AttestationSettings

        async def build3():
            return MockIPv8(subject.my_peer, AttestationCommunity,
                            settings=AttestationSettings(working_directory=spec["dir"]))
        wallet = loop.run_until_complete(build3())
        wallet.overlay.set_attestation_request_complete_callback(
            lambda for_peer, name, ahash, id_format, from_peer=None: subject.overlay.self_advertise(ahash, name, id_format))
        out["wallet"] = wallet
    return out


def _run_community_ops(spec, comm):
    """drive the community-level entry points that write to the store: self_advertise (own credentials),
    on_disclosure (a peer's disclosure is substantiated and, if solicited, attested), on_attest"""
    from ipv8.attestation.identity.attestation import Attestation
    from ipv8.attestation.identity.payload import AttestPayload, DisclosePayload
    loop, peer, subject = comm["loop"], comm["peer"], comm["subject"]
    peer_creds, own_creds = [], []

    async def run():
        for n, op in enumerate(spec["ops"], int(spec.get("first_op") or 0)):
            k = op["op"]
            try:
                if k == "own":
                    own_creds.append(subject.overlay.self_advertise(_unhx(op["hash"]), op["name"]))
                    if own_creds[-1] is not None:
                        _emit("J " + op["hash"])          # the API returned a credential for this attribute hash
                elif k == "peer_adv":
                    peer_creds.append(peer.overlay.self_advertise(_unhx(op["hash"]), op["name"]))
                elif k == "disclose":
                    chosen = [peer_creds[i] for i in op["creds"] if i < len(peer_creds)]
                    if not chosen:
                        continue
                    for i in op.get("known", []):
                        if i < len(peer_creds):
                            md = json.loads(peer_creds[i].metadata.serialized_json_dict)
                            subject.overlay.add_known_hash(_unhx(op["hashes"][i]), md["name"],
                                                           peer.my_peer.public_key.key_to_bin())
                    md_, _, at_, au_ = peer.overlay.pseudonym_manager.disclose_credentials(chosen, set())
                    tk_ = b"".join(t.get_plaintext_signed() for t in peer.overlay.token_chain)     # root first
                    packet = peer.overlay.ezr_pack(DisclosePayload.msg_id, DisclosePayload(md_, tk_, at_, au_))
                    subject.overlay.on_disclosure(peer.endpoint.wan_address, packet)
                elif k == "own2":
                    cr_ = comm["subject2"].overlay.self_advertise(_unhx(op["hash"]), op["name"])
                    if cr_ is not None:
                        _emit("J " + op["hash"])
                elif k == "unload2":
                    await comm["subject2"].overlay.unload()
                elif k == "attested":
                    _emit("W " + op["hash"])
                    comm["wallet"].overlay.on_attestation_complete(_StubAtt(_unhx(op["blob"])), _StubSK(_unhx(op["key"])),
                                                                   subject.my_peer, op["name"], _unhx(op["hash"]),
                                                                   "id_metadata")
                    _emit("J " + op["hash"])
                elif k == "attest_me":
                    if op["cred"] < len(own_creds) and own_creds[op["cred"]] is not None:
                        att = Attestation.create(own_creds[op["cred"]].metadata, peer.my_peer.key)
                        packet = peer.overlay.ezr_pack(AttestPayload.msg_id, AttestPayload(att.get_plaintext_signed()))
                        subject.overlay.on_attest(peer.endpoint.wan_address, packet)
                else:
                    raise ValueError("unknown community op " + k)
                _emit("E " + k)
            except Exception as e:  # noqa: BLE001
                _emit(f"U {n} {type(e).__name__}")
    loop.run_until_complete(run())


def _owner_objects(op):
    """an owner builds credentials in memory (own key, own IdentityManager(':memory:')); returns what a verifier is
    handed: public key, tokens, metadata, attestations per credential, and the complete disclosure"""
    from ipv8.attestation.identity.manager import IdentityManager
    from ipv8.keyvault.crypto import ECCrypto
    crypto = ECCrypto()
    sk = crypto.key_from_private_bin(_unhx(op["sk"]))
    own = IdentityManager(":memory:")
    ps = own.get_pseudonym(sk)
    creds = []
    for i, after in enumerate(op["after"]):
        cr = ps.create_credential(_unhx(op["hashes"][i]), {"name": "f%d" % i}, creds[after].metadata if after is not None else None)
        creds.append(cr)
    atts = {}
    for ci, akh in op.get("atts", []):
        ak = crypto.key_from_private_bin(_unhx(akh))
        att = ps.create_attestation(creds[ci].metadata, ak)
        ps.add_attestation(ak.pub(), att)
        atts.setdefault(ci, []).append((ak.pub(), att))
    return sk, ps, creds, atts


def _run_ops(spec, db, mgr, cur=None, indexed=None):
    from ipv8.attestation.identity.attestation import Attestation
    from ipv8.attestation.identity.metadata import Metadata
    from ipv8.attestation.tokentree.token import Token
    from ipv8.database import IgnoreCommits
    from ipv8.keyvault.crypto import ECCrypto
    crypto = ECCrypto()
    creds = {}

    def find_cred(ps, idx):
        """credential created by op number idx (global numbering); reloaded from the store in a later process"""
        if idx in creds:
            return creds[idx]
        for cr in ps.get_credentials():
            try:
                if json.loads(cr.metadata.serialized_json_dict).get("name") == "attr%d" % idx:
                    return cr
            except ValueError:
                pass
        return None
    for n, op in (indexed if indexed is not None else enumerate(spec["ops"], int(spec.get("first_op") or 0))):
        k = op["op"]
        if cur is not None:
            cur.op = n
        try:
            if k in ("enter", "exit", "exitexc", "commit", "close"):
                _emit("G " + k)
            if k == "tok":
                t = Token(_unhx(op["prev"]), content_hash=_unhx(op["ch"]), signature=_unhx(op["sig"]))
                t.content = _unhx(op.get("content"))
                db.insert_token(_StubKey(_unhx(op["pk"])), t)
            elif k == "md":
                db.insert_metadata(_StubKey(_unhx(op["pk"])),
                                   Metadata(_unhx(op["tp"]), _unhx(op["json"]), signature=_unhx(op["sig"])))
            elif k == "att":
                db.insert_attestation(_StubKey(_unhx(op["pk"])), _StubKey(_unhx(op["ak"])),
                                      Attestation(_unhx(op["mp"]), signature=_unhx(op["sig"])))
            elif k == "watt":
                db.insert_attestation(_StubAtt(_unhx(op["blob"])), _unhx(op["hash"]), _StubSK(_unhx(op["key"])),
                                      op["fmt"])
            elif k == "enter":
                db.__enter__()
                _emit("E en")
            elif k == "exit":
                db.__exit__(None, None, None)
                _emit("E ex")
            elif k == "exitexc":
                exc = IgnoreCommits() if op.get("ignore") else ValueError("boom")
                db.__exit__(type(exc), exc, None)
                _emit("E xx")
            elif k == "commit":
                db.commit()
                _emit("E cm")
            elif k == "close":
                db.close()
                _emit("E close")
            elif k == "cred":
                sk = crypto.key_from_private_bin(_unhx(op["sk"]))
                ps = mgr.get_pseudonym(sk)
                after = find_cred(ps, op["after"]) if op.get("after") is not None else None
                cred = ps.create_credential(_unhx(op["hash"]), op["json"], after.metadata if after else None)
                name = str(op["json"].get("name", ""))
                creds[int(name[4:]) if name.startswith("attr") and name[4:].isdigit() else n] = cred
                _emit("E cred")
            elif k == "mgratt":
                sk = crypto.key_from_private_bin(_unhx(op["sk"]))
                ak = crypto.key_from_private_bin(_unhx(op["ak"]))
                ps = mgr.get_pseudonym(sk)
                cred = find_cred(ps, op["cred"])
                if cred is not None:
                    att = ps.create_attestation(cred.metadata, ak)
                    ps.add_attestation(ak.pub(), att)
                _emit("E mgratt")
            elif k == "foreign":
                # a verifier learns another party's pseudonym through the public API
                sk, ops_, fcreds, fatts = _owner_objects(op)
                pub = sk.pub()
                how = op["how"]
                if how == "substantiate":
                    sel = {a.get_hash() for lst in fatts.values() for _, a in lst}
                    chosen = [fcreds[i] for i in op["subset"]]
                    md, tk, at, au = ops_.disclose_credentials(chosen, sel)
                    if op.get("drop_tokens"):
                        tk = b""
                        for cr_ in chosen:
                            _emit("K " + cr_.metadata.token_pointer.hex())     # handed over without its token
                    mgr.substantiate(pub, md, tk, at, au)
                elif how == "add_credential":
                    vps = mgr.get_pseudonym(pub)
                    for i in op["order"]:
                        token = ops_.tree.elements[fcreds[i].metadata.token_pointer]
                        vps.add_credential(token, fcreds[i].metadata, set(fatts.get(i, [])))
                elif how == "add_attestation":
                    vps = mgr.get_pseudonym(pub)
                    for i in op["subset"]:
                        for apub, att in fatts.get(i, []):
                            _emit("K " + att.metadata_pointer.hex())       # handed over without its metadata
                            vps.add_attestation(apub, att)
                elif how == "add_metadata":
                    vps = mgr.get_pseudonym(pub)
                    for i in op["subset"]:
                        _emit("K " + fcreds[i].metadata.token_pointer.hex())
                        vps.add_metadata(fcreds[i].metadata)
                _emit("E foreign")
            else:
                raise ValueError("unknown op " + k)
        except Exception as e:  # noqa: BLE001 - an insert may raise (duplicate hash in the wallet table); keep going
            _emit(f"U {n} {type(e).__name__}")


def _raw_state(spec):
    """what open() depends on, read with a plain connection before the real class touches the file"""
    import sqlite3
    path = os.path.join(spec["dir"], "sqlite", spec["dbname"] + ".db") if spec["kind"] == "wallet" else spec["path"]
    table = spec["dbname"] if spec["kind"] == "wallet" else "Tokens"
    st = {"exists": os.path.exists(path), "option": False, "version": False, "ver": 0, "col": True}
    if not st["exists"]:
        return st
    try:
        c = sqlite3.connect(path)
        try:
            names = [r[0] for r in c.execute("SELECT name FROM sqlite_master WHERE type = 'table'")]
            st["option"] = "option" in names
            if st["option"]:
                rows = c.execute("SELECT value FROM option WHERE key = 'database_version'").fetchall()
                st["version"] = bool(rows)
                if rows:
                    v = rows[0][0]
                    st["ver"] = int(v.decode() if isinstance(v, bytes) else v)
            if spec["kind"] == "wallet" and table in names:
                st["col"] = "id_format" in [r[1] for r in c.execute(f'PRAGMA table_info("{table}")')]
        finally:
            c.close()
    except Exception as e:  # noqa: BLE001
        st["error"] = type(e).__name__
    return st


def verify_main(spec):
    out = {"open": None, "raw_state": _raw_state(spec)}
    try:
        if spec["kind"] == "wallet":
            from ipv8.attestation.wallet.database import AttestationsDB
            db = AttestationsDB(spec["dir"], spec["dbname"])
        else:
            from ipv8.attestation.identity.database import IdentityDatabase
            db = IdentityDatabase(spec["path"])
            db.open()
        out["open"] = "ok"
    except BaseException as e:  # noqa: BLE001
        import traceback
        out["open"] = "error:" + type(e).__name__
        out["trace"] = traceback.format_exc()[-800:]
        _emit(json.dumps(out))
        return
    try:
        def q(sql, params=()):
            return [list(r) for r in db.execute(sql, params)]

        cell = _cx
        out["integrity"] = [cell(r[0]) for r in q("PRAGMA integrity_check")]
        out["journal_mode"] = cell(q("PRAGMA journal_mode")[0][0])
        out["synchronous"] = q("PRAGMA synchronous")[0][0]
        out["tables"] = {}
        names = [r[0].decode() if isinstance(r[0], bytes) else r[0]
                 for r in q("SELECT name FROM sqlite_master WHERE type = 'table'")]
        for name in names:
            info = q(f'PRAGMA table_info("{name}")')
            cols = [(c[1].decode() if isinstance(c[1], bytes) else c[1]) for c in info]
            pk = [cols[i] for i, c in sorted(enumerate(info), key=lambda ic: ic[1][5]) if c[5]]
            rows = [[cell(x) for x in r] for r in q(f'SELECT * FROM "{name}"')]
            out["tables"][name] = {"cols": cols, "pk": pk, "rows": rows}
        api = {}
        if spec["kind"] == "wallet":
            api["all"] = [[cell(x) for x in r] for r in db.get_all()]
            api["by_hash"] = {h: [cell(x) for x in db.get_attestation_by_hash(_unhx(h))] for h in spec.get("hashes", [])}
        else:
            api["tokens"], api["metadata"], api["attestations"] = {}, {}, {}
            for pk in spec.get("pks", []):
                key = _StubKey(_unhx(pk))
                api["tokens"][pk] = sorted([cell(x) for x in t.to_database_tuple()] for t in db.get_tokens_for(key))
                api["metadata"][pk] = sorted([cell(x) for x in m.to_database_tuple()] for m in db.get_metadata_for(key))
                api["attestations"][pk] = sorted([cell(x) for x in a.to_database_tuple()]
                                                 for a in db.get_attestations_for(key))
            api["known"] = sorted(cell(x) for x in db.get_known_identities())
        out["api"] = api
        db.close()
        out["closed"] = True
    except BaseException as e:  # noqa: BLE001
        import traceback
        out["read_error"] = type(e).__name__
        out["trace"] = traceback.format_exc()[-800:]
    # a second open of the same file by the same fresh process (the schema script must be re-runnable)
    try:
        if spec["kind"] == "wallet":
            from ipv8.attestation.wallet.database import AttestationsDB
            db2 = AttestationsDB(spec["dir"], spec["dbname"])
            out["reopen2"] = "ok:%d" % len(db2.get_all())
            db2.close()
        else:
            from ipv8.attestation.identity.database import IdentityDatabase
            db2 = IdentityDatabase(spec["path"])
            db2.open()
            out["reopen2"] = "ok:%d" % len(db2.get_known_identities())
            db2.close()
    except BaseException as e:  # noqa: BLE001
        out["reopen2"] = "error:" + type(e).__name__
    if spec["kind"] == "manager" and (spec.get("community") or {}).get("wallet"):
        try:
            from ipv8.attestation.wallet.database import AttestationsDB
            wdb = AttestationsDB(spec["dir"], "attestations")
            out["wallet_rows"] = [[_cx(x) for x in r_] for r_ in wdb.get_all()]
            wdb.close()
        except BaseException as e:  # noqa: BLE001
            out["wallet_error"] = type(e).__name__
    # rebuild the pseudonyms through the manager and verify them (reload path of PseudonymManager.__init__)
    if spec["kind"] == "manager" and "read_error" not in out:
        try:
            from ipv8.attestation.identity.manager import IdentityManager
            from ipv8.keyvault.crypto import ECCrypto
            crypto = ECCrypto()
            mgr = IdentityManager(spec["path"])
            res = {}
            keys = [(skh, crypto.key_from_private_bin(_unhx(skh))) for skh in spec.get("sks", [])] + \
                   [(pkh, crypto.key_from_public_bin(_unhx(pkh))) for pkh in spec.get("pubs", [])]
            for skh, sk in keys:
                ps = mgr.get_pseudonym(sk)
                toks = sorted(ps.tree.elements.values(), key=lambda t_: t_.get_hash())
                big = len(toks) > 80 or len(ps.credentials) > 80
                # TokenTree.verify walks the whole chain (quadratic over a store): beyond 80 tokens a spread sample
                sample = toks if not big else (toks[::max(1, len(toks) // 10)] + toks[-2:])
                stored = list(mgr.database.get_tokens_for(sk.pub()))        # iteration order of the reload loop
                r = {"pk": _cx(sk.pub().key_to_bin()), "credentials_loaded": len(ps.credentials),
                     "tokens": len(toks),
                     "tokens_verify": [bool(ps.tree.verify(t)) for t in sample],
                     "genesis": ps.tree.genesis_hash.hex(),
                     "reload_order": [[t.get_hash().hex(), t.previous_token_hash.hex()] for t in stored],
                     "rebuilt_hashes": sorted(h.hex() for h in ps.tree.elements),
                     "unchained_max_size": getattr(ps.tree, "unchained_max_size", None),
                     "credentials": []}
                for ci, cred in enumerate(ps.get_credentials()):
                    md = cred.metadata
                    atts = []
                    for att in cred.attestations:
                        auth = crypto.key_from_public_bin(mgr.database.get_authority(att))
                        atts.append(bool(att.verify(auth)))
                    r["credentials"].append({"token_pointer": md.token_pointer.hex(), "md_hash": md.get_hash().hex(),
                                             "n_attestations": len(cred.attestations),
                                             "md_verify": bool(md.verify(sk.pub())),
                                             "token_present": md.token_pointer in ps.tree.elements,
                                             "token_verifies": (None if big and ci % 40 else
                                                                (md.token_pointer in ps.tree.elements
                                                                 and bool(ps.tree.verify(ps.tree.elements[md.token_pointer])))),
                                             "attestations_verify": atts})
                # every attestation row points to a stored metadata row
                res[skh] = r
            out["rebuild"] = res
            mgr.database.close()
        except BaseException as e:  # noqa: BLE001
            import traceback
            out["rebuild_error"] = type(e).__name__
            out["trace"] = traceback.format_exc()[-800:]
    _emit(json.dumps(out))


# =====================================================================================================
#  parent side
# =====================================================================================================
def zygote_main():
    """fork server: imports the working tree's modules once (never opens a database), then forks one fresh process
    per request.  Request/response: one JSON line each."""
    install_connect_dispatcher()
    import ipv8.attestation.identity.manager  # noqa: F401
    import ipv8.attestation.wallet.database  # noqa: F401
    import ipv8.keyvault.crypto  # noqa: F401
    import resource  # noqa: F401
    try:
        import ipv8.attestation.identity.community  # noqa: F401
        import ipv8.test.mocking.ipv8  # noqa: F401
    except Exception:  # noqa: BLE001 - only the community workloads need them
        pass
    inp = os.fdopen(0, "rb", buffering=0)
    reply_fd = os.dup(1)
    devnull = os.open(os.devnull, os.O_WRONLY)
    os.dup2(devnull, 1)
    buf = b""
    while True:
        while b"\n" not in buf:
            chunk = inp.read(65536)
            if not chunk:
                return
            buf += chunk
        line, buf = buf.split(b"\n", 1)
        req = json.loads(line)
        r, w = os.pipe()
        pid = os.fork()
        if pid == 0:
            try:
                os.close(r)
                os.dup2(w, 1)
                os.close(w)
                os.close(reply_fd)
                signal.alarm(600)                     # a stuck child must not stall the check (reported as infrastructure)
                if req["mode"] == "child":
                    child_main(req["spec"])
                else:
                    verify_main(req["spec"])
            finally:
                os._exit(0)
        os.close(w)
        out = b""
        delay = req.get("delay")
        if delay is not None:
            while not any(m in b"\n" + out for m in (b"\nO\n", b"\nF ", b"\nD\n")):   # database open: start the timer
                chunk = os.read(r, 65536)
                if not chunk:
                    break
                out += chunk
            time.sleep(delay)
            try:
                os.kill(pid, signal.SIGKILL)
            except ProcessLookupError:
                pass
        while True:
            chunk = os.read(r, 1 << 20)
            if not chunk:
                break
            out += chunk
        os.close(r)
        _, status = os.waitpid(pid, 0)
        rc = -os.WTERMSIG(status) if os.WIFSIGNALED(status) else os.WEXITSTATUS(status)
        os.write(reply_fd, (json.dumps({"out": out.decode(errors="replace"), "rc": rc}) + "\n").encode())


class Zygote:
    def __init__(self):
        self.p = subprocess.Popen([sys.executable, HERE, "zygote"], stdin=subprocess.PIPE, stdout=subprocess.PIPE,
                                  stderr=subprocess.DEVNULL)

    def request(self, mode, spec, delay=None):
        self.p.stdin.write((json.dumps({"mode": mode, "spec": spec, "delay": delay}) + "\n").encode())
        self.p.stdin.flush()
        line = self.p.stdout.readline()
        if not line:
            from vlib import InfraError
            raise InfraError("C19 fork server died")
        return json.loads(line)

    def close(self):
        try:
            self.p.stdin.close()
            self.p.wait(timeout=20)
        except Exception:  # noqa: BLE001
            self.p.kill()


def run_child(zy: Zygote, spec, timed_delay=None):
    """returns {"lines": [...], "rc": returncode (negative = signal)}"""
    res = zy.request("child", spec, timed_delay)
    lines = res["out"].split("\n")
    if lines and lines[-1] == "":
        lines.pop()
    return {"lines": lines, "rc": res["rc"], "stderr": ""}


def run_verify(zy: Zygote, spec):
    res = zy.request("verify", spec)
    try:
        return json.loads(res["out"].strip().split("\n")[-1])
    except Exception:  # noqa: BLE001
        return {"open": "error:verify-process-died", "trace": res["out"][-800:], "rc": res["rc"]}


class Trace:
    """what the child's event logs say (fed phase after phase)"""

    def __init__(self):
        self.calls = {}            # id -> {"name", "row", "status": started|acked|raised, "executed", "in_block"}
        self.order = []            # call ids in start order
        self.labels = []           # observable labels (X, Xi, X!, C, R, en, ex, xx) of the workload part
        self.items = []            # ("call", id) / ("blk", op name) in start order, as far as the log shows
        self.open_points = []      # kinds of crash points before "O" (current phase)
        self.points = 0
        self.last_point = None
        self.opened = False
        self.done = False
        self.fatal = None
        self.sizes = None
        self.unexpected = []
        self.current = None
        self.inflight = None       # primitive in flight when the log stops: "exec" | "commit" | None
        self.block_stack = []      # one list of acknowledged-but-deferred call ids per open `with db:` level
        self.confirmed = set()     # ids of the calls whose record the property demands after the kill

    def new_phase(self):
        self.opened = False
        self.done = False
        self.inflight = None
        self.points = 0
        self.open_points = []
        self.current = None
        self.last_point = None
        self.pending_blk = None

    def end_phase(self):
        """the process is gone (killed, or ended without close): whatever was in flight is cut short, an open
        `with db:` block and every uncommitted row are lost"""
        if self.current is not None:
            self.calls[self.current]["cut"] = self.calls[self.current].get("nlab", 0)
        if getattr(self, "pending_blk", None) is not None:
            idx, seen_commit = self.pending_blk
            if not seen_commit:
                self.items[idx] = ("dropped", self.items[idx][1])
            elif self.items[idx][1] == "exit":
                self.labels.append("ex")      # its commit happened; what remained of __exit__ was in-memory only
        self.items.append(("kill", None))
        self.block_stack = []
        self.batch_aborted = False
        self.current = None
        self.pending_blk = None

    @property
    def block_open(self):
        return bool(self.block_stack)

    def _lab(self, lab, cid=None):
        self.labels.append(lab)
        if cid is not None and cid in self.calls and self.calls[cid]["status"] == "started":
            self.calls[cid]["nlab"] = self.calls[cid].get("nlab", 0) + 1
        elif getattr(self, "pending_blk", None) is not None and lab == "C":
            self.pending_blk = (self.pending_blk[0], True)

    def feed(self, lines):
        for ln in lines:
            w = ln.split(" ")
            t = w[0]
            cid = None
            if w[-1].startswith("@") and t in ("P", "Q"):
                try:
                    cid = int(w[-1][1:])
                except ValueError:
                    cid = None
                w = w[:-1]
            if cid is None:
                cid = self.current
            if t == "P":
                self.points += 1
                kind = w[2] if len(w) > 2 else ""
                self.last_point = kind
                if not self.opened:
                    self.open_points.append(kind)
                    continue
                if kind == "q":
                    self.inflight = "exec"
                elif kind.startswith("X:"):
                    self.inflight = None
                    self._lab("X" if kind != "X:0" else "Xi", cid)
                    if cid is not None and cid in self.calls:
                        self.calls[cid]["executed"] = True
                        self.evno = getattr(self, "evno", 0) + 1
                        self.calls[cid]["xseq"] = self.evno
                elif kind.startswith("X!"):
                    self.inflight = None
                    self._lab("X!", cid)
                elif kind == "c":
                    self.inflight = "commit"
                elif kind == "C":
                    self.inflight = None
                    self._lab("C", cid)
                    if cid is not None and cid in self.calls:
                        self.calls[cid]["committed"] = True
            elif t == "Q":
                try:
                    sql = bytes.fromhex(w[1]).decode()
                    params = json.loads(" ".join(w[2:]))
                except ValueError:          # the kill cut the line short
                    continue
                m = INSERT_RE.match(sql)
                row = {"policy": (m.group(1) or "").upper(), "table": m.group(2),
                       "cols": [c.strip() for c in m.group(3).split(",")], "vals": params}
                if cid is not None and cid in self.calls:
                    self.calls[cid]["row"] = row
            elif t == "B":
                cid = int(w[1])
                self.calls[cid] = {"name": w[2], "row": None, "status": "started", "executed": False,
                                   "in_block": self.block_open,
                                   "op": (int(w[3]) if len(w) > 3 and int(w[3]) >= 0 else None)}
                self.order.append(cid)
                self.items.append(("call", cid))
                self.current = cid
            elif t == "A":
                cid = int(w[1])
                self.calls[cid]["status"] = "acked"
                self.labels.append("R")
                if self.current == cid:
                    self.current = None
                if not self.block_open:
                    self.confirmed.add(cid)          # returned outside any `with db:` block
                else:
                    self.block_stack[-1].append(cid)
            elif t == "R":
                cid = int(w[1])
                self.calls[cid]["status"] = "raised"
                self.calls[cid]["exc"] = w[2]
                if self.current == cid:
                    self.current = None
            elif t == "G":                            # a block op / commit / close is about to start
                self.items.append(("blk", w[1]))
                self.pending_blk = (len(self.items) - 1, False)
            elif t == "E":
                what = w[1]
                self.pending_blk = None
                if what == "en":
                    self.block_stack.append([])
                    self.max_depth = max(getattr(self, "max_depth", 0), len(self.block_stack))
                    self.labels.append("en")
                elif what == "ex":
                    done = self.block_stack.pop() if self.block_stack else []
                    if self.block_stack:
                        self.block_stack[-1].extend(done)       # still inside an enclosing batch
                    elif getattr(self, "batch_aborted", False):
                        # a level inside this batch was left by an exception that was swallowed inside the batch:
                        # Database.__exit__ zeroes the counter then, which also forgets the commits the enclosing
                        # levels had deferred (IgnoreCommits: "all commits ignored").  Mirrored by the model (exitExc),
                        # not demanded here; the rows go out with the next commit
                        self.batch_aborted = False
                        self.aborted_batches = getattr(self, "aborted_batches", 0) + 1
                    else:
                        self.confirmed.update(done)             # the outermost batch has been left normally
                    self.labels.append("ex")
                elif what == "xx":
                    if self.block_stack:
                        self.block_stack.pop()                  # left by an exception: nothing of this level is demanded
                    self.batch_aborted = bool(self.block_stack)  # … and, if levels remain open, nothing of them either
                    self.labels.append("xx")
            elif t == "N":
                self.cur_op = int(w[1])
            elif t == "J":
                self.__dict__.setdefault("returned_creds", []).append(w[1])
            elif t == "W":
                self.__dict__.setdefault("wallet_hashes", []).append(w[1])
            elif t == "Y":
                self.__dict__.setdefault("pubkeys", set()).add(w[1])
            elif t == "K":
                self.__dict__.setdefault("tokenless", set()).add(w[1])
            elif t == "O":
                self.opened = True
            elif t == "D":
                self.done = True
            elif t == "Z":
                self.sizes = (int(w[1]), int(w[2]))
            elif t == "F":
                self.fatal = ln[2:]
            elif t == "U":
                self.unexpected.append(ln[2:])


def row_key(row, pkcols):
    d = dict(zip(row["cols"], row["vals"]))
    return (row["table"], tuple(d.get(c) for c in pkcols))


class Interner:
    def __init__(self):
        self.keys, self.vals = {}, {}

    def key(self, k):
        return self.keys.setdefault(k, len(self.keys) + 1)

    def val(self, v):
        return self.vals.setdefault(v, len(self.vals) + 1)


def model_table_index(table):
    names = (META or {}).get("table_names") or ["Tokens", "Metadata", "Attestations", "<db_name>"]
    if table == WALLET_DBNAME and "<db_name>" in names:
        return names.index("<db_name>")
    return names.index(table) if table in names else 99


def method_index(kind, name):
    ms = (META or {}).get("methods")
    if not ms:
        ms = [{"cls": "IdentityDatabase", "name": "insert_token"}, {"cls": "IdentityDatabase", "name": "insert_metadata"},
              {"cls": "IdentityDatabase", "name": "insert_attestation"}, {"cls": "AttestationsDB", "name": "insert_attestation"}]
    cls = "AttestationsDB" if kind == "wallet" else "IdentityDatabase"
    for i, m in enumerate(ms):
        if m["cls"] == cls and m["name"] == name:
            return i
    return None


def parse_timeline(reply):
    """-> list of (label, acks(list), rows(sorted list of triples)) with '=' resolved; observable entries only"""
    out = []
    acks, rows = [], []
    for ent in reply.split(";"):
        lab, a, r = ent.split("|")
        if a != "=":
            acks = [int(x) for x in a.split(",")] if a else []
        if r != "=":
            rows = sorted(tuple(int(y) for y in x.split(".")) for x in r.split(",")) if r else []
        if lab == "D":
            continue
        if lab == "exC":
            out.append(("C", acks, rows))
            out.append(("ex", acks, rows))
        else:
            out.append((lab, acks, rows))
    return out


def parse_timeline_compact(reply):
    """same shape as parse_timeline, from the `tlc` form"""
    parts = reply.split(";")
    order = parts[0][len("order="):]
    rows = [tuple(int(y) for y in x.split(".")) for x in order.split(",")] if order else []
    a = parts[1][len("acks="):]
    acks = [int(x) for x in a.split(",")] if a else []
    out = []
    for ent in parts[2:]:
        lab, na, nr = ent.split("|")
        e = (acks[:int(na)], sorted(rows[:int(nr)]))
        if lab == "D":
            continue
        if lab == "exC":
            out.append(("C",) + e)
            out.append(("ex",) + e)
        else:
            out.append((lab,) + e)
    return out


# ---- one experiment ------------------------------------------------------------------------------
class Experiment:
    """phases: op lists run by successive processes on the same file; the last process carries the kill"""

    def __init__(self, kind, ops_phases, kill, label, pks=(), sks=(), hashes=(), kills=None, extra=None):
        self.kind = kind
        self.extra = dict(extra or {})    # pubs (foreign pseudonyms to rebuild), threads, pre / pre_rows (wallet v1 file)
        self.ops_phases = ops_phases
        self.kill = kill                  # kill of the last process: {"mode": "none"|"point"|"fsize"|"timed", ...}
        self.kills = list(kills) if kills else [None] * (len(ops_phases) - 1)   # earlier processes: None | event index
        self.label = label
        self.pks, self.sks, self.hashes = list(pks), list(sks), list(hashes)

    def to_replay(self):
        return {"kind": self.kind, "ops_phases": self.ops_phases, "kill": self.kill, "kills": self.kills,
                "label": self.label, "pks": self.pks, "sks": self.sks, "hashes": self.hashes, "extra": self.extra}

    @staticmethod
    def from_replay(r):
        return Experiment(r["kind"], r["ops_phases"], r["kill"], r.get("label", "replay"),
                          r.get("pks", ()), r.get("sks", ()), r.get("hashes", ()), r.get("kills"), r.get("extra"))


def execute(zy: Zygote, exp: Experiment, root: str, n: int):
    """run the experiment in its own directory under root; returns the raw result (no judgement)"""
    d = os.path.join(root, f"x{n}")
    os.makedirs(d)
    try:
        base = {"kind": exp.kind, "path": os.path.join(d, "sqlite", "identity.db"), "dir": d, "dbname": WALLET_DBNAME}
        tr = Trace()
        first_call = first_op = 0
        res = None
        pi = 0
        phase_points = []
        for pi, ops in enumerate(exp.ops_phases):
            last = pi == len(exp.ops_phases) - 1
            spec = dict(base, ops=ops, first_call=first_call, first_op=first_op, end="exit",
                        threads=exp.extra.get("threads"), pre=exp.extra.get("pre"), pre_rows=exp.extra.get("pre_rows"),
                        pre_variant=exp.extra.get("pre_variant"), community=exp.extra.get("community"))
            delay = None
            if last:
                k = exp.kill
                if k["mode"] == "point":
                    spec["crash_at"] = k["at"]
                elif k["mode"] == "fsize":
                    spec["fsize"] = k["limit"]
                    spec["fsize_from"] = k.get("from", "opened")
                elif k["mode"] == "timed":
                    spec["end"] = "hang"
                    delay = k["delay"]
            elif exp.kills[pi]:
                spec["crash_at"] = exp.kills[pi]
            res = run_child(zy, spec, delay)
            tr.new_phase()
            tr.feed(res["lines"])
            phase_points.append(tr.points)
            first_call = (max(tr.order) + 1) if tr.order else 0
            first_op += len(ops)
            if not last:
                tr.end_phase()
        vspec = dict(base, pks=exp.pks, sks=exp.sks, hashes=exp.hashes, community=exp.extra.get("community"),
                     pubs=list(exp.extra.get("pubs", [])) + sorted(getattr(tr, "pubkeys", set())))
        dump = run_verify(zy, vspec)
        return {"trace": tr, "rc": res["rc"], "stderr": res["stderr"], "dump": dump, "phases_run": pi + 1,
                "phase_points": phase_points}
    finally:
        shutil.rmtree(d, ignore_errors=True)


# ---- judgement ------------------------------------------------------------------------------------
def canon_rows(dump):
    """record tables of the dump (the option table is looked at separately)"""
    return {name: t for name, t in (dump.get("tables") or {}).items()
            if name != "option" and not name.startswith("sqlite_")}


API_COLS = {"Tokens": ("tokens", ["previous_token_hash", "signature", "content_hash", "content"]),
            "Metadata": ("metadata", ["token_pointer", "signature", "serialized_json_dict"]),
            "Attestations": ("attestations", ["metadata_pointer", "signature"])}


def _sha3(*hexes):
    import hashlib
    try:
        return hashlib.sha3_256(b"".join(bytes.fromhex(x) for x in hexes)).hexdigest()
    except (TypeError, ValueError):
        return None


CLS = {"identity": "IdentityDatabase", "manager": "IdentityDatabase", "wallet": "AttestationsDB"}


def oracle(ctx, exp: Experiment, r) -> bool:
    """the property itself on (ack log, reopened content); True when it holds.  Uses no model notion: only which
    inserts had returned (outside a `with db:` block, or inside one whose normal exit had returned), what they sent
    to sqlite, and what a fresh process reads."""
    tr, dump = r["trace"], r["dump"]
    rep = {"experiment": exp.to_replay(), "killed_at_event": tr.points, "last_event": tr.last_point,
           "child_rc": r["rc"]}
    ok = True

    seen = ctx.__dict__.setdefault("_c19_sig", {})

    def fail(sig, what):
        nonlocal ok
        if "dropped-by-primary-key" not in sig and "without-its-" not in sig:        # known findings: go on comparing
            ok = False
        ctx.count("oracle:" + sig)
        seen[sig] = seen.get(sig, 0) + 1
        if seen[sig] > 4:              # enough replays of this kind; keep room for other kinds (vlib caps the list)
            return
        ctx.oracle_fail(sig, what + f" [workload {exp.label}, kill {exp.kill}, last event {tr.last_point!r} "
                                    f"#{tr.points}, process {r['phases_run']}/{len(exp.ops_phases)}]",
                        dict(rep, dump_open=dump.get("open"), trace=dump.get("trace")))
    where = "open" if not tr.opened else "insert"
    if dump.get("open") != "ok":
        fail(f"Database.open:reopen-fails-after-kill-in-{where}",
             f"the database does not open again after the kill: {dump.get('open')}")
        return False
    if "read_error" in dump:
        fail("Database.open:unreadable-after-kill", f"reading the reopened database raised {dump['read_error']}")
        return False
    if dump.get("integrity") not in ([b"ok".hex()], ["ok"]):
        fail("sqlite:integrity-check", f"integrity_check after reopen: {dump.get('integrity')}")
    if not str(dump.get("reopen2", "")).startswith("ok"):
        fail("Database.open:second-reopen-fails", f"second open fails: {dump.get('reopen2')}")
    tables = canon_rows(dump)
    by_key = {}         # (table, pk tuple) -> [(call id, full row dict)] in the order sqlite executed the INSERTs
    exec_order = sorted(tr.order, key=lambda c_: (tr.calls[c_].get("xseq", 10 ** 9), c_))
    for cid in exec_order:
        c = tr.calls[cid]
        row = c["row"]
        if row is None:
            continue
        t = tables.get(row["table"])
        if t is None:
            if cid in tr.confirmed:
                fail(f"{c['name']}:table-missing", f"table {row['table']} is missing after reopen")
            continue
        by_key.setdefault(row_key(row, t["pk"]), []).append((cid, dict(zip(row["cols"], row["vals"]))))
    present = {}
    for name, t in tables.items():
        for rw in t["rows"]:
            d = dict(zip(t["cols"], rw))
            k = (name, tuple(d.get(c) for c in t["pk"]))
            if k in present:
                fail(f"{name}:duplicate-key", f"two rows with the same primary key in {name}")
            present[k] = d
    dropped_token_hashes, dropped_md_hashes = set(), set()
    t_pk = {name: t["pk"] for name, t in tables.items()}
    api = dump.get("api") or {}
    # (1) every record whose insert had returned is present and unchanged: the stored record under its primary key
    #     exists and is the one written by that insert or by an earlier insert of the same key (INSERT OR IGNORE:
    #     the first one wins) — never by a later one, never anything else
    for k, lst in by_key.items():
        conf = [i for i, (cid, _) in enumerate(lst) if cid in tr.confirmed]
        if not conf:
            continue
        cid0 = lst[conf[0]][0]
        c = tr.calls[cid0]
        got = present.get(k)
        if got is None:
            fail(f"{c['name']}:acked-record-lost",
                 f"{c['name']} call #{cid0} had returned before the kill but its record is not in the reopened database")
            continue
        cands = [full for _, full in lst[:conf[0] + 1]]
        if not any({x: got.get(x) for x in full} == full for full in cands):
            fail(f"{c['name']}:acked-record-changed",
                 f"the record {c['name']} call #{cid0} had stored (and acknowledged) reads back different after the kill")
            continue
        # (1') the plain reading of the property: EVERY acknowledged record is there.  A record that differs from the
        #      stored one only outside the primary key was silently dropped by INSERT OR IGNORE (narrow primary keys)
        reported = False
        for i in conf:
            cid_i, full_i = lst[i]
            if {x: got.get(x) for x in full_i} != full_i:
                ci = tr.calls[cid_i]
                diff = sorted(x for x in full_i if got.get(x) != full_i[x])
                if k[0] == "Tokens":
                    dropped_token_hashes.add(_sha3(full_i.get("previous_token_hash"), full_i.get("content_hash"),
                                                   full_i.get("signature")))
                if k[0] == "Metadata":
                    dropped_md_hashes.add(_sha3(full_i.get("token_pointer"), full_i.get("serialized_json_dict"),
                                                full_i.get("signature")))
                if reported:
                    continue
                reported = True
                fail(f"{CLS[exp.kind]}.{ci['name']}:acked-distinct-record-dropped-by-primary-key",
                     f"{ci['name']} call #{cid_i} returned, but its record (differs from the stored one in {diff}) is not "
                     f"in the database: an earlier record with the same primary key {t_pk.get(k[0])} was kept")
    # (1'') an insert that returned without ever handing an INSERT to sqlite
    for cid in tr.order:
        c = tr.calls[cid]
        if cid in tr.confirmed and c["row"] is None:
            # not a failure by itself (an "already stored" shortcut is legitimate); whether the object is there is
            # judged by the object read-back (3b) for workloads whose objects the harness knows
            ctx.count(f"returned_without_insert:{c['name']}")
    # (2) nothing partial, nothing that was never written
    pre_keys = {(WALLET_DBNAME, (h_,)) for h_, _, _ in exp.extra.get("pre_rows", [])} if exp.extra.get("pre") else set()
    for k, got in present.items():
        if k in pre_keys:
            continue                     # a record the older release had written (checked in 3c)
        cands = by_key.get(k, [])
        if not any({x: got.get(x) for x in full} == full for _, full in cands):
            fail(f"{k[0]}:foreign-or-partial-record",
                 f"the reopened database shows a record in {k[0]} that no started insert wrote in this form")
    # (3) API level reads agree with the raw rows (what the application will see)
    if exp.kind == "wallet":
        t = tables.get(WALLET_DBNAME)
        if t is not None and sorted(map(repr, api.get("all", []))) != sorted(map(repr, t["rows"])):
            fail("AttestationsDB.get_all:differs-from-table", "get_all() differs from the table content after reopen")
        if t is not None:
            for h, blobs in (api.get("by_hash") or {}).items():
                want = [d["blob"] for kk, d in present.items() if kk[0] == WALLET_DBNAME and d.get("hash") == h]
                if sorted(map(repr, blobs)) != sorted(map(repr, want)):
                    fail("AttestationsDB.get_attestation_by_hash:differs-from-table",
                         "get_attestation_by_hash differs from the table content after reopen")
    elif exp.pks:
        for tname, (aname, cols) in API_COLS.items():
            t = tables.get(tname)
            if t is None:
                continue
            for pk in exp.pks:
                want = sorted(repr([d.get(c) for c in cols]) for kk, d in present.items()
                              if kk[0] == tname and d.get("public_key") == pk)
                got = sorted(repr(x) for x in (api.get(aname) or {}).get(pk, []))
                if want != got:
                    fail(f"IdentityDatabase.get_{aname}_for:differs-from-table",
                         f"get_{aname}_for returns {len(got)} objects that differ from the {len(want)} stored rows")
    # (3b) the objects handed to the insert calls read back as the same objects (not only the same bound values)
    if exp.kind in ("identity", "wallet"):
        flat = [op for ops in exp.ops_phases for op in ops]
        objs = {}          # (api name, owner, model key) -> list of (call id, expected API tuple) in call order
        for cid in exec_order:
            opi = tr.calls[cid].get("op")
            if opi is None or opi >= len(flat) or flat[opi]["op"] not in ("tok", "md", "att", "watt"):
                continue
            op = flat[opi]
            ctx.count("object_readback:" + op["op"])
            if op["op"] == "tok":
                content = _cx(_unhx(op["content"])) if op.get("content") is not None else None
                objs.setdefault(("tokens", op["pk"], (op["prev"], op["ch"])), []).append(
                    (cid, [op["prev"], op["sig"], op["ch"], content]))
            elif op["op"] == "md":
                objs.setdefault(("metadata", op["pk"], op["tp"]), []).append(
                    (cid, [op["tp"], op["sig"], _cx(_unhx(op["json"]))]))
            elif op["op"] == "att":
                objs.setdefault(("attestations", op["pk"], op["mp"]), []).append((cid, [op["mp"], op["sig"]]))
            else:
                objs.setdefault(("by_hash", op["hash"], None), []).append((cid, [_cx(_unhx(op["blob"]))]))
                objs.setdefault(("all", op["hash"], None), []).append(
                    (cid, [op["hash"], _cx(_unhx(op["blob"])), op["key"], op["fmt"].encode().hex()]))
        for (aname, owner, _), lst in objs.items():
            conf = [i for i, (cid, _) in enumerate(lst) if cid in tr.confirmed]
            if not conf:
                continue
            if aname == "by_hash":
                got_list = [[x] for x in (api.get("by_hash") or {}).get(owner, [])] if owner in exp.hashes else None
            elif aname == "all":
                got_list = [x for x in api.get("all", []) if x and x[0] == owner]
            else:
                got_list = (api.get(aname) or {}).get(owner) if owner in exp.pks else None
            if got_list is None:
                continue
            cands = [repr(t) for _, t in lst[:conf[0] + 1]]
            if not any(repr(g) in cands for g in got_list):
                name = tr.calls[lst[conf[0]][0]]["name"]
                fail(f"{name}:acked-object-reads-back-different",
                     f"the object given to {name} call #{lst[conf[0]][0]} (returned before the kill) is not among the "
                     f"objects the API returns after reopen")
    # (3a-2) a workload operation raised: only a duplicate hash in the wallet table may do that
    for u in tr.unexpected:
        exc = u.split(" ")[-1]
        if not (exp.kind == "wallet" and exc == "IntegrityError"):
            fail(f"{CLS[exp.kind]}:operation-raised-{exc}",
                 f"a store operation of the workload raised {exc} (op #{u.split(' ')[0]}) on a database that had opened")
            break
    # (3a-3) the opened database has every column the inserts bind
    for m_ in ((META or {}).get("methods") or []):
        tname = WALLET_DBNAME if m_["table"] == "<db_name>" else m_["table"]
        if m_["cls"] == CLS[exp.kind] and tname in tables and not set(m_["cols"]) <= set(tables[tname]["cols"]):
            fail(f"{m_['cls']}.check_database:schema-incomplete-after-open",
                 f"after open() table {tname} lacks {sorted(set(m_['cols']) - set(tables[tname]['cols']))}: "
                 f"every {m_['name']} will raise")
    # (3a-4) the wallet's reload path (AttestationWalletCommunity.__init__: hash, blob, key, id_format = row;
    #        id_format.decode()) can read every stored record
    if exp.kind == "wallet":
        for row in api.get("all", []):
            if len(row) != 4 or row[3] is None or row[2] is None:
                fail("AttestationsDB.get_all:record-not-reloadable",
                     f"a stored attestation reads back as {len(row)} columns / id_format={row[3] if len(row) > 3 else '-'}: "
                     f"the wallet's reload (id_format.decode(), load_secret_key(key)) raises")
                break
    # (3c) records of an older schema version survive the upgrade done by open()
    if exp.extra.get("pre") == "wallet_v1":
        for hx_, bx, kx in exp.extra.get("pre_rows", []):
            got = present.get((WALLET_DBNAME, (hx_,)))
            if got is None or got.get("blob") != _cx(_unhx(bx)) or got.get("key") != _cx(_unhx(kx)):
                fail("AttestationsDB.check_database:record-lost-in-upgrade",
                     "a record of the version-1 file is missing or changed after the (killed) upgrade and reopen")
    # (3e) what the community-level API acknowledged: a credential returned by self_advertise (directly, through a second
    #      pseudonym on the same manager, or through the wallet's completion callback) has its token in the store
    stored_attr = {d.get("content_hash") for kk, d in present.items() if kk[0] == "Tokens"}
    for hsh in getattr(tr, "returned_creds", []):
        if hsh not in stored_attr:
            fail("IdentityCommunity.self_advertise:returned-credential-lost",
                 f"self_advertise returned a credential for attribute {hsh[:16]}… but no token with that content hash "
                 f"is in the reopened store")
            break
    # (3f) across the two stores of one attestation: a credential for an attested attribute is only visible when the
    #      wallet holds its proof blob and secret key
    if (exp.extra.get("community") or {}).get("wallet"):
        if "wallet_error" in dump:
            fail("AttestationsDB.open:reopen-fails-after-kill-in-insert", f"the wallet does not open: {dump['wallet_error']}")
        have = {r_[0] for r_ in dump.get("wallet_rows", []) if r_}
        for hsh in getattr(tr, "wallet_hashes", []):
            if hsh in stored_attr and hsh not in have:
                fail("AttestationCommunity.on_attestation_complete:credential-without-stored-proof",
                     f"the identity store shows a credential for attested attribute {hsh[:16]}… but the wallet database "
                     f"holds neither its proof blob nor its secret key")
                break
    # (3d) every stored attestation points to stored metadata (hashes recomputed from the rows)
    if exp.kind == "manager":
        mds = [d for kk, d in present.items() if kk[0] == "Metadata"]
        if not any(str(d.get("serialized_json_dict", "")).startswith("#") for d in mds):
            md_hashes = {_sha3(d.get("token_pointer"), d.get("serialized_json_dict"), d.get("signature")) for d in mds}
            for kk, d in present.items():
                if kk[0] == "Attestations" and d.get("metadata_pointer") not in md_hashes:
                    if d.get("metadata_pointer") in getattr(tr, "tokenless", set()):
                        fail("PseudonymManager.add_attestation:attestation-stored-without-its-metadata",
                             "the public API was handed an attestation without the metadata it points to and stored it")
                        break
                    if d.get("metadata_pointer") not in dropped_md_hashes:
                        fail("IdentityDatabase:attestation-row-without-metadata-row",
                             "a stored attestation points to metadata that is not stored")
                        break
    # (4) the pseudonym rebuilt from the store verifies
    if exp.kind == "manager":
        if "rebuild_error" in dump:
            fail("PseudonymManager.__init__:rebuild-raises", f"rebuilding the pseudonym raised {dump['rebuild_error']}")
        for skh, rr in (dump.get("rebuild") or {}).items():
            n = rr["tokens"]
            ctx.count("rebuilt_tokens:" + (str(n) if n < 8 else "8-30" if n <= 30 else "31-100" if n <= 100 else
                                            "101-250" if n <= 250 else "251+"))
            n_tok = sum(1 for kk, d in present.items() if kk[0] == "Tokens" and d.get("public_key") == rr.get("pk"))
            n_md = sum(1 for kk, d in present.items() if kk[0] == "Metadata" and d.get("public_key") == rr.get("pk"))
            if rr["tokens"] != n_tok or len(rr["credentials"]) != n_md or rr.get("credentials_loaded") != n_md:
                fail("PseudonymManager.__init__:rebuilt-pseudonym-incomplete",
                     f"the rebuilt pseudonym has {rr['tokens']} tokens / {len(rr['credentials'])} credentials, "
                     f"the store holds {n_tok} / {n_md}")
            if not all(rr["tokens_verify"]):
                fail("PseudonymManager.__init__:rebuilt-token-does-not-verify",
                     f"{rr['tokens_verify'].count(False)} of {rr['tokens']} reloaded tokens fail TokenTree.verify")
            for cr in rr["credentials"]:
                if not (cr["md_verify"] and cr["token_present"] and cr["token_verifies"] is not False):
                    if not cr["token_present"] and cr.get("token_pointer") in dropped_token_hashes:
                        fail("PseudonymManager.__init__:rebuilt-credential-dangling-token-dropped-by-primary-key",
                             "a reloaded credential points to a token whose record was dropped by INSERT OR IGNORE "
                             "(same public_key/previous_token_hash/content_hash as a stored token, other signature)")
                    elif not cr["token_present"] and cr.get("token_pointer") in getattr(tr, "tokenless", set()):
                        fail("PseudonymManager.add_metadata:metadata-stored-without-its-token",
                             "the public API was handed metadata without the token it points to (add_metadata alone / a "
                             "disclosure without tokens) and stored it; the reloaded credential has no token")
                    else:
                        fail("PseudonymManager.__init__:rebuilt-credential-dangling",
                             f"a reloaded credential does not verify / points to a missing token: {cr}")
                # get_attestations_over selects by metadata_pointer only (not by subject): count the same way
                n_rows = sum(1 for kk, d in present.items() if kk[0] == "Attestations"
                             and d.get("metadata_pointer") == cr.get("md_hash"))
                if cr.get("n_attestations") is not None and cr["n_attestations"] != n_rows:
                    fail("PseudonymManager.__init__:rebuilt-credential-attestations-differ",
                         f"a reloaded credential carries {cr['n_attestations']} attestations, the store holds {n_rows}")
                if not all(cr["attestations_verify"]):
                    fail("PseudonymManager.__init__:rebuilt-attestation-does-not-verify",
                         "a reloaded attestation fails verification")
    return ok


BLK_TOKEN = {"enter": "en", "exit": "ex", "exitexc": "xx", "commit": "cm", "close": "cm"}


def model_compare(ctx, exp: Experiment, r, drv) -> None:
    """observed label sequence and reopened content against the model's timeline of the calls that started"""
    tr, dump = r["trace"], r["dump"]
    if dump.get("open") != "ok" or "tables" not in dump:
        return
    tables = canon_rows(dump)
    it = Interner()
    toks = []
    pos_of = {}
    val_of = {}                       # (table, full row in schema column order) -> model value id
    items = [it_ for it_ in tr.items if it_[0] != "dropped"]
    for pos, (kind, x) in enumerate(items):
        if kind == "blk":
            toks.append(BLK_TOKEN[x])
            continue
        if kind == "kill":
            toks.append("kk")
            continue
        c = tr.calls[x]
        pos_of[x] = pos
        mi = method_index(exp.kind, c["name"])
        if mi is None:
            ctx.disagree(f"call to an insert method the translator does not know: {c['name']}",
                         {"experiment": exp.to_replay()})
            return
        row = c["row"]
        t = tables.get(row["table"]) if row else None
        cut = "" if c.get("cut") is None else "/%d" % c["cut"]
        if row is None or t is None:
            toks.append(f"m{mi}.0{cut}:0:0")
            continue
        k = it.key(row_key(row, t["pk"]))
        v = it.val((row["table"], tuple(row["vals"])))
        d = dict(zip(row["cols"], row["vals"]))
        val_of[(row["table"], tuple(d.get(c) for c in t["cols"]))] = v
        toks.append(f"m{mi}.0{cut}:{k}:{v}")
    long_wl = len(toks) > 60
    reply = drv.ask(("tlc " if long_wl else "tl ") + " ".join(toks)) if toks else "init||"
    if reply == "nonmonotone":
        long_wl = False
        reply = drv.ask("tl " + " ".join(toks))
    if reply == "bad-op":
        ctx.disagree("model driver rejected the workload line", {"line": " ".join(toks)[:400]})
        return
    for ent in reply.split(";"):                      # which branches of the model's step function this run went through
        lab0 = ent.split("|")[0]
        if lab0 and not lab0.startswith(("order=", "acks=", "init")):
            ctx.count("model_step:" + lab0)
    if any("/" in t_ for t_ in toks):
        ctx.count("model_step:cut-call")
    tl = [e for e in (parse_timeline_compact(reply) if long_wl else parse_timeline(reply)) if e[0] != "kk"]
    model_labels = [e[0] for e in tl[1:]]
    obs = list(tr.labels)
    n = len(obs)
    rep = {"experiment": exp.to_replay(), "observed": obs[-12:], "model": model_labels[max(0, n - 12):n + 2],
           "killed_at_event": tr.points}
    if obs != model_labels[:n]:
        ctx.disagree(f"event labels differ: implementation …{obs[-8:]} vs model …{model_labels[max(0, n - 8):n]} "
                     f"[{exp.label} {exp.kill}]", rep)
        return
    got = sorted((model_table_index(name), it.keys.get((name, tuple(dict(zip(t["cols"], rw)).get(c) for c in t["pk"])), 0),
                  val_of.get((name, tuple(rw)), 0))
                 for name, t in tables.items() for rw in t["rows"])
    cands = [n]
    if (tr.inflight is not None or exp.kill["mode"] in ("fsize", "timed")) and n + 1 < len(tl):
        cands.append(n + 1)          # killed while a primitive was executing: either side of it
    preds = [tl[i][2] for i in cands]
    acked_pos = sorted(pos_of[c] for c in tr.order if tr.calls[c]["status"] == "acked")
    model_acks = sorted(tl[n][1])
    ctx.count("model:compared")
    if exp.kind == "manager" and not any(exp.kills):
        causal_check(ctx, exp, tr, tables, it, toks, drv)
    if exp.kind == "manager":
        reload_compare(ctx, exp, dump, drv)
    if got not in preds:
        ctx.disagree(f"reopened content differs from the model's prediction at crash point {n}: "
                     f"implementation {got} vs model {preds} [{exp.label} {exp.kill}]", rep)
    elif acked_pos != model_acks:
        ctx.disagree(f"ack log {acked_pos} differs from the model's {model_acks} at crash point {n} "
                     f"[{exp.label} {exp.kill}]", rep)
    elif len(cands) > 1 and preds[0] != preds[1]:
        ctx.count("kill_inside_primitive:" + ("took-effect" if got == preds[1] else "no-effect"))


def reload_compare(ctx, exp, dump, drv):
    """reload path: the tokens the real PseudonymManager has in its rebuilt tree against the model's `reload` of the
    stored tokens in the order the store returned them"""
    for skh, rr in (dump.get("rebuild") or {}).items():
        order = rr.get("reload_order")
        if order is None:
            continue
        ids = {}
        for hsh, _ in order:
            ids.setdefault(hsh, len(ids))
        line = []
        for hsh, prev in order:
            if prev == rr.get("genesis"):
                p = "-"
            else:
                p = str(ids.setdefault(prev, len(ids)))     # a predecessor that is not stored gets an id of its own
            line.append(f"{ids[hsh]}:{p}")
        rep = drv.ask("reload " + " ".join(line)) if line else "[]"
        try:
            model = sorted(int(x) for x in rep.strip("[]").split(",") if x)
        except ValueError:
            ctx.disagree(f"model driver rejected the reload line: {rep[:80]}", {"experiment": exp.to_replay()})
            return
        got = sorted(ids[h] for h in rr.get("rebuilt_hashes", []) if h in ids)
        extra = [h for h in rr.get("rebuilt_hashes", []) if h not in ids]
        n = len(order)
        ctx.count("reload_compared:" + ("0" if n == 0 else "1-30" if n <= 30 else "31-100" if n <= 100 else
                                        "101-250" if n <= 250 else "251+"))
        if got != model or extra:
            ctx.disagree(f"rebuilt tree differs from the model's reload: implementation has {len(got)} of {n} stored tokens"
                         f" (+{len(extra)} others), model {len(model)} [{exp.label}]", {"experiment": exp.to_replay()})


def causal_check(ctx, exp, tr, tables, it, toks, drv):
    """hypothesis `Causal` of theorem rebuild_verifies, computed by the model (`causalCheck`, proved sound) on the
    insert order observed from the real PseudonymManager: token → previous token (none for genesis), metadata → token,
    attestation → metadata, resolved through the objects' hashes recomputed here from the bound values"""
    import hashlib

    def h(*hexes):
        return hashlib.sha3_256(b"".join(bytes.fromhex(x) for x in hexes)).hexdigest()
    by_hash, pend = {}, []
    first_hash, dropped = {}, set()     # per primary key: hash of the record that was stored; hashes of later, dropped ones
    tokenless = getattr(tr, "tokenless", set())

    def register(hsh, me_):
        if me_ not in first_hash:
            first_hash[me_] = hsh
            by_hash[hsh] = me_
        elif first_hash[me_] != hsh:
            dropped.add(hsh)             # same primary key, other record: INSERT OR IGNORE kept the first (known finding)
    for cid in tr.order:
        row = tr.calls[cid]["row"]
        t = tables.get(row["table"]) if row else None
        if row is None or t is None:
            continue
        d = dict(zip(row["cols"], row["vals"]))
        if any(isinstance(v, str) and v.startswith("#") for v in d.values()):
            ctx.count("causal:skipped-large-value")
            return
        me = (model_table_index(row["table"]), it.keys.get(row_key(row, t["pk"]), 0))
        if row["table"] == "Tokens":
            register(h(d["previous_token_hash"], d["content_hash"], d["signature"]), me)
            dep = None if d["previous_token_hash"] == h(d["public_key"]) else d["previous_token_hash"]
        elif row["table"] == "Metadata":
            register(h(d["token_pointer"], d["serialized_json_dict"], d["signature"]), me)
            dep = d["token_pointer"]
        elif row["table"] == "Attestations":
            dep = d["metadata_pointer"]
        else:
            continue
        pend.append((me, dep))
    deps = {}
    for me, dep in pend:
        if dep is None:
            continue
        if dep in tokenless:
            ctx.count("causal_excluded:metadata-handed-over-without-token")     # known finding, reported by the oracle
            continue
        if dep in dropped:
            ctx.count("causal_excluded:points-to-record-dropped-by-primary-key")  # known finding, reported by the oracle
            continue
        deps.setdefault(me, by_hash.get(dep, (99, 0)))
    line = "causal " + " ".join(f"d:{a[0]}.{a[1]}>{b[0]}.{b[1]}" for a, b in deps.items()) + " " + " ".join(toks)
    rep = drv.ask(line)
    ctx.count("causal:" + rep)
    ctx.count("causal_deps:%d" % min(len(deps), 12))
    if rep != "true":
        ctx.disagree(f"hypothesis Causal of rebuild_verifies does not hold for the insert order the manager produced "
                     f"({rep}) [{exp.label}]", {"experiment": exp.to_replay(), "line": line[:600]})


def open_compare(ctx, exp, r, drv):
    """the reopen step against the open() model: from the file state the kill really left (read raw by the verify
    process before opening), does a complete open() raise?  model `openOk` vs the real class"""
    st = (r["dump"] or {}).get("raw_state")
    if not st or "error" in st:
        return
    cls = 1 if exp.kind == "wallet" else 0
    line = "openok %d %d %d %d %d" % (cls, st["option"], st["version"], st["ver"], st["col"])
    rep = drv.ask(line)
    real_ok = r["dump"].get("open") == "ok"
    ctx.count("open_compared")
    ctx.count("open_state:opt%d_ver%d_v%d_col%d:%s" % (st["option"], st["version"], st["ver"], st["col"],
                                                        "ok" if real_ok else "fails"))
    if rep.startswith("ok") != real_ok:
        ctx.disagree(f"open() on the file state the kill left ({st}): implementation "
                     f"{'opens' if real_ok else 'fails: ' + str(r['dump'].get('open'))}, model says {rep}",
                     {"experiment": exp.to_replay(), "line": line})


def hypothesis_check(ctx, exp, r):
    dump = r["dump"]
    if dump.get("open") != "ok" or "journal_mode" not in dump:
        return
    jm = dump["journal_mode"]
    try:
        jm = bytes.fromhex(jm).decode() if isinstance(jm, str) and re.fullmatch(r"[0-9a-f]+", jm) else jm
    except Exception:  # noqa: BLE001
        pass
    ctx.count(f"journal_mode:{jm}")
    if str(jm).lower() not in ("wal", "delete", "truncate", "persist"):
        ctx.disagree(f"runtime assumption broken: journal_mode is {jm!r}, transactions are not atomic across a kill",
                     {"experiment": exp.to_replay()})
    ctx.count("synchronous:%s" % dump.get("synchronous"))
    if dump.get("synchronous") in (0, "0"):
        ctx.disagree("anchored mechanism changed: PRAGMA synchronous is OFF (the design relies on NORMAL; a process kill "
                     "cannot show the difference, an OS crash can)", {"experiment": exp.to_replay()})


# =====================================================================================================
#  workloads
# =====================================================================================================
def rb(rng, n):
    return bytes(rng.getrandbits(8) for _ in range(n))


def gen_identity_ops(rng, n_ops, big=False, blocks=True):
    """IdentityDatabase-level workload with small key pools (duplicate primary keys are frequent)"""
    pks = [rb(rng, 74) for _ in range(rng.choice([1, 2, 3]))]
    prevs = [rb(rng, 32) for _ in range(3)]
    import hashlib
    sizes = [0, 1, 40, 300, 9000, 30000] + ([200000, 700000] if big else [])
    contents = []
    for _ in range(3):
        size = rng.choice(sizes)
        contents.append(rb(rng, min(size, 64)) * (max(1, size // 64) if size > 64 else 1))
    chs = [hashlib.sha3_256(c).digest() for c in contents]
    tps = [rb(rng, 32) for _ in range(3)]
    mps = [rb(rng, 32) for _ in range(3)]
    ops = []
    depth = 0
    for _ in range(n_ops):
        c = rng.random()
        if blocks and ((depth == 0 and c < 0.10) or (0 < depth < 3 and c < 0.12)):
            ops.append({"op": "enter"})          # batches nest (a helper that opens its own `with db:`); inner ones
            depth += 1                           # are often empty or read-only because exit follows with p = 0.25
            continue
        if depth and c < 0.37:
            e = rng.random()
            ops.append({"op": "exit"} if e < 0.7 else {"op": "exitexc", "ignore": e < 0.85})
            depth -= 1
            continue
        if blocks and c > 0.96:
            ops.append({"op": "commit"})
            continue
        k = rng.choice(["tok", "tok", "md", "att"])
        if k == "tok":
            ci = rng.randrange(len(chs))
            content = None if rng.random() < 0.4 else contents[ci]      # the token may or may not carry its content
            ops.append({"op": "tok", "pk": _hx(rng.choice(pks)), "prev": _hx(rng.choice(prevs)),
                        "ch": _hx(chs[ci]), "sig": _hx(rb(rng, 64)), "content": _hx(content)})
        elif k == "md":
            js = b'{"a": "' + rb(rng, rng.choice([1, 20, 5000])).hex().encode() + b'"}'
            ops.append({"op": "md", "pk": _hx(rng.choice(pks)), "tp": _hx(rng.choice(tps)), "sig": _hx(rb(rng, 64)),
                        "json": _hx(js)})
        else:
            ops.append({"op": "att", "pk": _hx(rng.choice(pks)), "ak": _hx(rb(rng, 74)), "mp": _hx(rng.choice(mps)),
                        "sig": _hx(rb(rng, 64))})
    while depth:
        ops.append({"op": "exit"})
        depth -= 1
    return ops, [_hx(p) for p in pks]


def gen_wallet_ops(rng, n_ops, big=False):
    hashes = [rb(rng, 32) for _ in range(max(2, n_ops // 2))]
    ops = []
    for _ in range(n_ops):
        size = rng.choice([10, 200, 9000, 40000] + ([300000] if big else []))
        ops.append({"op": "watt", "hash": _hx(rng.choice(hashes)), "blob": _hx(rb(rng, 32) * (size // 32 + 1)),
                    "key": _hx(rb(rng, 40)), "fmt": rng.choice(["id_metadata", "id_metadata_big", "id_metadata_range_18plus"])})
    return ops, [_hx(h) for h in hashes]


def gen_manager_ops(rng, n_ops):
    sks = [b"LibNaCLSK:" + rb(rng, 64) for _ in range(rng.choice([1, 2]))]
    aks = [b"LibNaCLSK:" + rb(rng, 64) for _ in range(2)]
    ops = []
    cred_idx = {}        # sk -> list of op indices of its credentials
    for i in range(n_ops):
        sk = rng.choice(sks)
        mine = cred_idx.setdefault(sk, [])
        if mine and rng.random() < 0.35:
            ops.append({"op": "mgratt", "sk": _hx(sk), "ak": _hx(rng.choice(aks)), "cred": rng.choice(mine)})
        else:
            after = rng.choice(mine) if mine and rng.random() < 0.7 else None
            ops.append({"op": "cred", "sk": _hx(sk), "hash": _hx(rb(rng, 32)),
                        "json": {"name": "attr%d" % i, "schema": "id_metadata", "date": 1000 + i}, "after": after})
            mine.append(i)
    return ops, [_hx(s) for s in sks]


def pub_of(sk_hex):
    from ipv8.keyvault.crypto import ECCrypto
    return ECCrypto().key_from_private_bin(bytes.fromhex(sk_hex)).pub().key_to_bin().hex()


def gen_foreign_ops(rng, n_ops):
    """a verifier's store fed through the public API with OTHER parties' pseudonyms: complete disclosures
    (IdentityManager.substantiate), disclosures without their tokens, add_credential in arrival orders that are not
    chain order, add_metadata alone; some credentials attested by two authorities"""
    ops, pubs = [], []
    aks = [b"LibNaCLSK:" + rb(rng, 64) for _ in range(3)]
    for _ in range(n_ops):
        sk = b"LibNaCLSK:" + rb(rng, 64)
        n = rng.choice([1, 2, 3, 5, 8])
        shape = rng.choice(["chain", "bushy"])
        after = [None if i == 0 else (i - 1 if shape == "chain" else rng.randrange(i)) for i in range(n)]
        atts = []
        for i in range(n):
            for ak in rng.sample(aks, rng.choice([0, 0, 1, 2])):
                atts.append([i, _hx(ak)])
        how = rng.choice(["substantiate", "substantiate", "add_credential", "add_credential", "add_credential",
                          "add_metadata", "add_attestation", "substantiate_no_tokens"])
        op = {"op": "foreign", "sk": _hx(sk), "hashes": [_hx(rb(rng, 32)) for _ in range(n)], "after": after,
              "atts": atts, "how": how.replace("_no_tokens", ""), "drop_tokens": how.endswith("_no_tokens")}
        if how == "add_credential":
            order = list(range(n))
            r_ = rng.random()
            if r_ < 0.45:
                order.reverse()                      # newest first: every token waits for its predecessor
            elif r_ < 0.85:
                rng.shuffle(order)
            op["order"] = order
        else:
            op["subset"] = sorted(rng.sample(range(n), rng.randrange(1, n + 1)))
        ops.append(op)
        pubs.append(pub_of(_hx(sk)))
    return ops, pubs


def gen_randsig_ops(rng, n_creds):
    """an own pseudonym whose key type signs with fresh randomness (ECDSA, 'very-low'): re-issuing a credential for
    the same attestation hash gives a second token with the same primary key and another signature.  The key comes
    from the OS generator (the API offers no seed) and is recorded in the workload, hence in every replay."""
    from ipv8.keyvault.crypto import ECCrypto
    sk = ECCrypto().generate_key("very-low").key_to_bin()
    hashes = [rb(rng, 32) for _ in range(max(1, n_creds // 2))]
    ops = []
    for i in range(n_creds):
        ops.append({"op": "cred", "sk": _hx(sk), "hash": _hx(rng.choice(hashes)),
                    "json": {"name": "attr%d" % i, "schema": "id_metadata"}, "after": None})
    return ops, [_hx(sk)]


def gen_thread_ops(rng, n_ops):
    """many small IdentityDatabase inserts issued from several threads at once (Database serialises through db_locks)"""
    ops, pks = gen_identity_ops(rng, n_ops, blocks=False)
    for o in ops:
        if o["op"] == "tok":
            o["content"] = None
    return ops, pks


def wallet_v1_experiment(rng, variant="complete"):
    """a version-1 wallet file (as older releases wrote it, or as a kill during their open() left it: without version
    row / without option table) is opened by this tree: check_database upgrades it"""
    pre = [[_hx(rb(rng, 32)), _hx(rb(rng, rng.choice([10, 300, 9000]))), _hx(rb(rng, 40))] for _ in range(3)]
    h = rb(rng, 32)
    ops = [{"op": "watt", "hash": _hx(h), "blob": _hx(b"n" * 50), "key": _hx(rb(rng, 40)), "fmt": "id_metadata"}]
    return Experiment("wallet", [ops], None, "scripted-wallet-v1-" + variant, hashes=[_hx(h)] + [p[0] for p in pre],
                      extra={"pre": "wallet_v1", "pre_rows": pre, "pre_variant": variant})


def scripted_foreign(rng):
    """fixed public-API workload: a chain of 4 credentials of another party handed to add_credential newest first
    (every token but the last waits for its predecessor), two of them attested by two authorities; a complete
    disclosure; an attestation handed over without its metadata"""
    aks = [b"LibNaCLSK:" + rb(rng, 64) for _ in range(2)]
    sk1, sk2, sk3 = (b"LibNaCLSK:" + rb(rng, 64) for _ in range(3))

    def f(sk, n, how, **kw):
        return dict({"op": "foreign", "sk": _hx(sk), "hashes": [_hx(rb(rng, 32)) for _ in range(n)],
                     "after": [None] + list(range(n - 1)), "how": how, "drop_tokens": False,
                     "atts": [[0, _hx(aks[0])], [0, _hx(aks[1])], [n - 1, _hx(aks[0])]]}, **kw)
    sk4, sk5 = (b"LibNaCLSK:" + rb(rng, 64) for _ in range(2))
    ops = [f(sk1, 4, "add_credential", order=[3, 2, 1, 0]), f(sk2, 3, "substantiate", subset=[0, 1, 2]),
           f(sk3, 2, "add_attestation", subset=[1]), f(sk4, 2, "add_metadata", subset=[1]),
           dict(f(sk5, 2, "substantiate", subset=[0, 1]), drop_tokens=True)]
    for o in ops:
        o["_class"] = "foreign_how:" + o["how"] + ("-no-tokens" if o.get("drop_tokens") else "")
    return Experiment("manager", [ops], None, "scripted-foreign",
                      extra={"pubs": [pub_of(_hx(k)) for k in (sk1, sk2, sk3, sk4, sk5)]})


def gen_community_ops(rng, n_ops):
    """the community-level writers of the store: IdentityCommunity.self_advertise, on_disclosure (solicited or not),
    on_attest, on a subject whose identity store is a file"""
    ops, hashes, n_peer, n_own = [], [], 0, 0
    for _ in range(n_ops):
        c = rng.random()
        if c < 0.3 or n_peer == 0:
            h = rb(rng, 32)
            hashes.append(_hx(h))
            ops.append({"op": "peer_adv", "hash": _hx(h), "name": "p%d" % n_peer})
            n_peer += 1
        elif c < 0.6:
            sel = sorted(rng.sample(range(n_peer), rng.randrange(1, n_peer + 1)))
            known = [i for i in sel if rng.random() < 0.7]
            ops.append({"op": "disclose", "creds": sel, "known": known, "hashes": list(hashes)})
        elif c < 0.85 or n_own == 0:
            ops.append({"op": "own", "hash": _hx(rb(rng, 32)), "name": "o%d" % n_own})
            n_own += 1
        else:
            ops.append({"op": "attest_me", "cred": rng.randrange(n_own)})
    extra = {"community": {"peer_sk": _hx(b"LibNaCLSK:" + rb(rng, 64)), "subject_sk": _hx(b"LibNaCLSK:" + rb(rng, 64))}}
    return ops, extra


def scripted_community(rng):
    h = [_hx(rb(rng, 32)) for _ in range(3)]
    ops = [{"op": "own", "hash": _hx(rb(rng, 32)), "name": "o0"},
           {"op": "peer_adv", "hash": h[0], "name": "p0"}, {"op": "peer_adv", "hash": h[1], "name": "p1"},
           {"op": "disclose", "creds": [1], "known": [1], "hashes": h},          # solicited: stored and attested
           {"op": "attest_me", "cred": 0},
           {"op": "peer_adv", "hash": h[2], "name": "p2"},
           {"op": "disclose", "creds": [2], "known": [], "hashes": h}]           # rest of the chain, not attested
    extra = {"community": {"peer_sk": _hx(b"LibNaCLSK:" + rb(rng, 64)), "subject_sk": _hx(b"LibNaCLSK:" + rb(rng, 64))}}
    return Experiment("manager", [ops], None, "scripted-community", extra=extra)


def scripted_shared_manager(rng):
    """two pseudonyms of one user = two IdentityCommunity instances on ONE IdentityManager / database; one of them is
    unloaded, the other keeps storing credentials"""
    ops = [{"op": "own", "hash": _hx(rb(rng, 32)), "name": "o0"}, {"op": "own2", "hash": _hx(rb(rng, 32)), "name": "s0"},
           {"op": "unload2"}, {"op": "own", "hash": _hx(rb(rng, 32)), "name": "o1"},
           {"op": "own", "hash": _hx(rb(rng, 32)), "name": "o2"}]
    extra = {"community": {"peer_sk": _hx(b"LibNaCLSK:" + rb(rng, 64)), "subject_sk": _hx(b"LibNaCLSK:" + rb(rng, 64)),
                           "second_sk": _hx(b"LibNaCLSK:" + rb(rng, 64))}}
    return Experiment("manager", [ops], None, "scripted-shared-manager", extra=extra)


def scripted_wallet_identity(rng):
    """the attestation wallet completes attestations for own attributes and the identity overlay advertises them
    (CommunicationChannel wiring): two stores, one attestation"""
    ops = [{"op": "own", "hash": _hx(rb(rng, 32)), "name": "o0"}]
    for i in range(2):
        ops.append({"op": "attested", "hash": _hx(rb(rng, 32)), "blob": _hx(b"p" * (200 + 9000 * i)),
                    "key": _hx(rb(rng, 40)), "name": "a%d" % i})
    extra = {"community": {"peer_sk": _hx(b"LibNaCLSK:" + rb(rng, 64)), "subject_sk": _hx(b"LibNaCLSK:" + rb(rng, 64)),
                           "wallet": True}}
    return Experiment("manager", [ops], None, "scripted-wallet-identity", extra=extra)


def reload_bound():
    """the bound of the in-memory structures the reload path may use (TokenTree's buffer of tokens waiting for their
    predecessor), read from the working tree; workload sizes are chosen relative to it"""
    try:
        from ipv8.attestation.tokentree.tree import TokenTree
        from ipv8.keyvault.crypto import ECCrypto
        t = TokenTree(private_key=ECCrypto().key_from_private_bin(b"LibNaCLSK:" + bytes(64)))
        return int(getattr(t, "unchained_max_size", 100))
    except Exception:  # noqa: BLE001
        return 100


def gen_store_ops(rng, n_creds, shape):
    """one pseudonym with a large store: `chain` (every credential after the previous one, as self_advertise does),
    `bushy` (after a random earlier one), `star` (all after the first), `roots` (all directly under genesis)"""
    sk = b"LibNaCLSK:" + rb(rng, 64)
    ak = b"LibNaCLSK:" + rb(rng, 64)
    ops = []
    for i in range(n_creds):
        if i == 0 or shape == "roots":
            after = None
        elif shape == "chain":
            after = len(ops) - 1 if ops[-1]["op"] == "cred" else len(ops) - 2
        elif shape == "star":
            after = 0
        else:
            after = rng.choice([j for j, o in enumerate(ops) if o["op"] == "cred"])
        ops.append({"op": "cred", "sk": _hx(sk), "hash": _hx(rb(rng, 32)),
                    "json": {"name": "attr%d" % len(ops), "schema": "id_metadata"}, "after": after})
        if rng.random() < 0.04:
            ops.append({"op": "mgratt", "sk": _hx(sk), "ak": _hx(ak), "cred": len(ops) - 1})
    return ops, [_hx(sk)]


def scripted(rng):
    """small workloads whose every event index is used as a kill point"""
    import hashlib
    pk, pk2 = rb(rng, 74), rb(rng, 74)
    prev, tp, mp = rb(rng, 32), rb(rng, 32), rb(rng, 32)
    late, bigc = b"late content", b"x" * 20000
    ch, ch2, cha = (hashlib.sha3_256(x).digest() for x in (late, bigc, b"a"))

    def tok(pk_, prev_, ch_, content):
        return {"op": "tok", "pk": _hx(pk_), "prev": _hx(prev_), "ch": _hx(ch_), "sig": _hx(rb(rng, 64)),
                "content": _hx(content)}

    def md(pk_, tp_, n=20):
        return {"op": "md", "pk": _hx(pk_), "tp": _hx(tp_), "sig": _hx(rb(rng, 64)), "json": _hx(b'{"k": "' + b"v" * n + b'"}')}

    def att(pk_, mp_):
        return {"op": "att", "pk": _hx(pk_), "ak": _hx(rb(rng, 74)), "mp": _hx(mp_), "sig": _hx(rb(rng, 64))}
    ident = [tok(pk, prev, ch, None), md(pk, tp), att(pk, mp),
             tok(pk, prev, ch, late),                     # same primary key: ignored, the first record stays
             att(pk, mp),                                  # same (subject, metadata), other authority: ignored
             tok(pk2, prev, ch2, bigc), md(pk2, tp, 9000)]
    blocks = [tok(pk, prev, cha, b"a"), {"op": "enter"}, tok(pk, ch, ch2, None), md(pk, tp), {"op": "exit"},
              {"op": "enter"}, att(pk, mp), {"op": "exitexc", "ignore": True}, md(pk2, tp),
              {"op": "enter"}, tok(pk2, prev, ch, None), {"op": "exitexc", "ignore": False}, {"op": "commit"},
              att(pk2, mp)]
    nested = [{"op": "enter"}, tok(pk, prev, cha, b"a"), {"op": "enter"}, {"op": "exit"}, {"op": "exit"},   # outer batch
              md(pk, tp),                                        # stores, inner batch does nothing, both are left
              {"op": "enter"}, {"op": "enter"}, att(pk, mp), {"op": "exit"}, tok(pk2, prev, ch2, bigc), {"op": "exit"},
              {"op": "enter"}, md(pk2, tp), {"op": "enter"}, {"op": "enter"}, {"op": "exit"},
              {"op": "exitexc", "ignore": True}, {"op": "exit"}, att(pk2, mp)]
    h1, h2 = rb(rng, 32), rb(rng, 32)

    def watt(h, n):
        return {"op": "watt", "hash": _hx(h), "blob": _hx(b"b" * n), "key": _hx(rb(rng, 40)), "fmt": "id_metadata"}
    wallet = [watt(h1, 100), watt(h2, 30000), watt(h1, 50), watt(rb(rng, 32), 10)]
    mops, sks = gen_manager_ops(rng, 5)
    return [
        Experiment("identity", [ident], None, "scripted-identity", pks=[_hx(pk), _hx(pk2)]),
        Experiment("identity", [ident[:3], ident[3:]], None, "scripted-identity-2phase", pks=[_hx(pk), _hx(pk2)]),
        Experiment("identity", [ident[:4], ident[4:]], None, "scripted-identity-restart", pks=[_hx(pk), _hx(pk2)],
                   kills=[46]),          # the first process is killed inside its third insert, the second continues
        Experiment("identity", [blocks], None, "scripted-blocks", pks=[_hx(pk), _hx(pk2)]),
        Experiment("identity", [nested], None, "scripted-nested-blocks", pks=[_hx(pk), _hx(pk2)]),
        Experiment("wallet", [wallet], None, "scripted-wallet", hashes=[_hx(h1), _hx(h2)]),
        Experiment("wallet", [wallet[:2] + [{"op": "close"}], wallet[2:]], None, "scripted-wallet-2phase",
                   hashes=[_hx(h1), _hx(h2)]),
        Experiment("manager", [mops], None, "scripted-manager", sks=sks),
        Experiment("manager", [mops[:3], mops[3:]], None, "scripted-manager-2phase", sks=sks),
        wallet_v1_experiment(rng),
        wallet_v1_experiment(rng, "no_version_row"),
        wallet_v1_experiment(rng, "no_option_table"),
        scripted_foreign(rng),
        scripted_community(rng),
        scripted_shared_manager(rng),
        scripted_wallet_identity(rng),
    ]


def split_phases(rng, ops, max_parts=2):
    """cut the workload into 2..max_parts process lifetimes at points outside any `with db:` block; a process ends by
    plain exit or by Database.close() (or is killed, see Experiment.kills)"""
    cuts, depth = [], 0
    for i, o in enumerate(ops):
        if i > 0 and depth == 0:
            cuts.append(i)
        if o["op"] == "enter":
            depth += 1
        elif o["op"] in ("exit", "exitexc"):
            depth -= 1
    if not cuts:
        return [ops]
    n = min(len(cuts), rng.randrange(1, max_parts))
    chosen = sorted(rng.sample(cuts, n))
    parts, prev = [], 0
    for c in chosen:
        parts.append(ops[prev:c] + ([{"op": "close"}] if rng.random() < 0.4 else []))
        prev = c
    parts.append(ops[prev:])
    return parts


def with_kill(exp: Experiment, kill) -> Experiment:
    return Experiment(exp.kind, exp.ops_phases, kill, exp.label, exp.pks, exp.sks, exp.hashes, exp.kills, exp.extra)


def digest(exp: Experiment) -> str:
    import hashlib
    return hashlib.sha1(json.dumps([exp.kind, exp.ops_phases, exp.kills, exp.extra], sort_keys=True).encode()).hexdigest()[:10]


# =====================================================================================================
#  driver of the whole check
# =====================================================================================================
def sweep_stale_dirs(max_age_s=3600):
    """a check that was killed hard cannot run its `finally`; remove this harness's own temp directories (prefix
    `c19-`, created by mkdtemp below) once they are older than any run can last"""
    base = tempfile.gettempdir()
    now = time.time()
    try:
        names = os.listdir(base)
    except OSError:
        return
    for name in names:
        path = os.path.join(base, name)
        if name.startswith("c19-") and os.path.isdir(path) and not os.path.islink(path):
            try:
                if now - os.stat(path).st_mtime > max_age_s and os.stat(path).st_uid == os.getuid():
                    shutil.rmtree(path, ignore_errors=True)
            except OSError:
                pass


class Runner:
    def __init__(self, ctx, use_model=True):
        self.ctx = ctx
        sweep_stale_dirs()
        self.root = tempfile.mkdtemp(prefix="c19-")
        self.n = 0
        self.workers = int(os.environ.get("C19_WORKERS", "8"))
        self.pool = ThreadPoolExecutor(max_workers=self.workers)
        self.zygotes = queue.Queue()
        self._zy = [Zygote() for _ in range(self.workers)]
        for z in self._zy:
            self.zygotes.put(z)
        self.drv = ctx.driver() if (use_model and ctx.model_ok) else None

    def close(self):
        self.pool.shutdown(wait=True)
        for z in self._zy:
            z.close()
        shutil.rmtree(self.root, ignore_errors=True)

    def _one(self, exp, n):
        z = self.zygotes.get()
        try:
            return execute(z, exp, self.root, n)
        finally:
            self.zygotes.put(z)

    def run_all(self, exps):
        """executes in parallel, judges in order; returns the raw results"""
        base = self.n
        self.n += len(exps)
        results = list(self.pool.map(lambda ie: self._one(ie[1], base + ie[0]), enumerate(exps)))
        for exp, r in zip(exps, results):
            self.judge(exp, r)
        return results

    def judge(self, exp, r):
        ctx = self.ctx
        tr = r["trace"]
        mode = exp.kill["mode"]
        ctx.count(f"kill:{mode}")
        ctx.count(f"kind:{exp.kind}")
        if tr.fatal:
            ctx.count("child:fatal")
            ctx.disagree(f"child raised outside an insert: {tr.fatal[:300]} [{exp.label} {exp.kill}]",
                         {"experiment": exp.to_replay()})
        lp = tr.last_point or "start"
        if tr.done:
            where = "after-workload"
        elif not tr.opened:
            where = "open:" + lp
        else:
            where = "workload:" + lp
        ctx.count(f"killed@{where}")
        ctx.count("child_rc:%s" % r["rc"])
        ctx.count("calls_started:%d" % min(len(tr.order), 40))
        nacked = sum(1 for c in tr.calls.values() if c["status"] == "acked")
        ctx.count("acked:%s" % ("0" if nacked == 0 else "1-3" if nacked < 4 else "4-9" if nacked < 10 else "10+"))
        for c in tr.calls.values():
            if c["status"] == "raised":
                ctx.count("call_raised:" + c.get("exc", "?"))
        for lab in tr.labels:
            ctx.count("label:" + lab)
        ctx.count("block_depth:%d" % getattr(tr, "max_depth", 0))
        if getattr(tr, "aborted_batches", 0):
            ctx.count("batch_with_swallowed_inner_exception", tr.aborted_batches)
        created = bool(r["dump"].get("tables"))
        if mode != "none" and tr.opened and len(tr.order) >= 3:
            ctx.sample({"input": exp.to_replay() if sum(len(p_) for p_ in exp.ops_phases) <= 8 else
                        {"workload_digest": digest(exp), "ops": sum(len(p_) for p_ in exp.ops_phases)},
                        "workload": exp.label, "kill": exp.kill, "earlier_kills": exp.kills, "last_event": tr.last_point,
                        "labels": " ".join(tr.labels[-15:]), "calls_started": len(tr.order), "acked": nacked,
                        "reopened_rows": {k: len(v["rows"]) for k, v in (r["dump"].get("tables") or {}).items()}})
        if r["rc"] == -signal.SIGALRM:
            from vlib import InfraError
            raise InfraError("a C19 child process stalled for 600 s (machine overloaded?)")
        ok = oracle(ctx, exp, r)
        hypothesis_check(ctx, exp, r)
        if self.drv is not None:
            open_compare(ctx, exp, r, self.drv)
        if self.drv is not None and ok and not exp.extra.get("threads") and not exp.extra.get("pre") \
                and not (exp.extra.get("community") or {}).get("wallet"):
            try:
                model_compare(ctx, exp, r, self.drv)
            except (KeyError, ValueError, IndexError) as e:
                ctx.disagree(f"model comparison failed: {type(e).__name__}: {e}", {"experiment": exp.to_replay()})
        pos = exp.kill.get("at") or exp.kill.get("limit") or exp.kill.get("delay") or 0
        ctx.case((digest(exp), mode, pos), nontrivial=created and mode != "none")


def exhaustive(runner: Runner, exp: Experiment, stride=1, rng=None, samples=None):
    """kill at every event index of the last phase (or every `stride`-th, random offset; or about `samples` of them)"""
    probe = runner.run_all([with_kill(exp, {"mode": "none"})])[0]
    total = probe["trace"].points
    if samples:
        stride = max(1, total // samples)
    runner.ctx.count("points_per_workload:%d" % (total // 10 * 10))
    start = 1 if stride == 1 else 1 + rng.randrange(stride)
    exps = [with_kill(exp, {"mode": "point", "at": n}) for n in range(start, total + 1, stride)]
    runner.run_all(exps)
    return probe


def fsize_runs(runner: Runner, exp: Experiment, probe, rng, count):
    sizes = probe["trace"].sizes or (100000, 100000)
    hi = max(sizes) + 8192
    exps = []
    for _ in range(count):
        frm = "start" if rng.random() < 0.2 else "opened"
        lim = rng.randrange(0 if frm == "start" else 4096, hi)
        exps.append(with_kill(exp, {"mode": "fsize", "limit": lim, "from": frm}))
    runner.run_all(exps)


def timed_runs(runner: Runner, exp: Experiment, rng, count, span):
    exps = [with_kill(exp, {"mode": "timed", "delay": round(rng.random() * span, 5)}) for _ in range(count)]
    runner.run_all(exps)


def run(ctx):
    if ctx.replay_input is not None:
        return replay(ctx, ctx.replay_input)
    rng = ctx.rng
    runner = Runner(ctx)
    try:
        scr = scripted(rng)
        thorough = ctx.thorough()
        for exp in scr:
            probe = exhaustive(runner, exp)
            if exp.label in ("scripted-identity", "scripted-wallet", "scripted-blocks"):
                fsize_runs(runner, exp, probe, rng, ctx.scale(10, 150))
        ctx.extra["t_scripted_s"] = round(ctx.elapsed(), 1)
        # generated workloads
        n_gen = ctx.scale(22, 360)
        for i in range(n_gen):
            kind = rng.choice(["identity", "identity", "wallet", "manager"])
            n_ops = rng.choice([3, 6, 10, 16, 24])
            if kind == "identity":
                ops, pks = gen_identity_ops(rng, n_ops, big=(i % 6 == 0))
                kw = {"pks": pks}
            elif kind == "wallet":
                ops, hs = gen_wallet_ops(rng, n_ops, big=(i % 6 == 0))
                kw = {"hashes": hs}
            else:
                ops, sks = gen_manager_ops(rng, min(n_ops, 12))
                kw = {"sks": sks}
            ctx.count("workload_ops:%d" % n_ops)
            phases = split_phases(rng, ops, ctx.scale(3, 4)) if rng.random() < 0.5 else [ops]
            ctx.count("processes:%d" % len(phases))
            exp = Experiment(kind, phases, None, f"generated-{kind}-{i}", **kw)
            if len(phases) > 1 and rng.random() < 0.7:
                # the earlier processes are killed too (kill / restart cycles); a process whose ops end with close()
                # is left alone half of the time
                probe0 = runner.run_all([with_kill(exp, {"mode": "none"})])[0]
                kills = [rng.randrange(1, max(2, n + 1)) if rng.random() < 0.8 else None
                         for n in probe0["phase_points"][:-1]]
                kills += [None] * (len(phases) - 1 - len(kills))
                exp = Experiment(kind, phases, None, f"generated-{kind}-{i}", kills=kills, **kw)
                ctx.count("earlier_processes_killed:%d" % sum(1 for k in kills if k))
            if thorough and i % 4 == 0:
                probe = exhaustive(runner, exp)
            else:
                probe = exhaustive(runner, exp, stride=ctx.scale(7, 4), rng=rng)
            if i % 3 == 0:
                fsize_runs(runner, exp, probe, rng, ctx.scale(4, 12))
            if i % 4 == 1:
                timed_runs(runner, exp, rng, ctx.scale(6, 12), 0.004 * max(1, len(ops)) / 4)
        # the public API fed with other parties' pseudonyms; keys with randomised signatures; concurrent threads
        api_exps = []
        for i in range(ctx.scale(5, 30)):
            ops, pubs = gen_foreign_ops(rng, rng.choice([1, 2, 3]))
            phases = [ops[:1], ops[1:]] if len(ops) > 1 and rng.random() < 0.4 else [ops]
            api_exps.append(Experiment("manager", phases, None, f"foreign-{i}", extra={"pubs": pubs}))
            for o in ops:
                ctx.count("foreign_how:" + o["how"] + ("-no-tokens" if o.get("drop_tokens") else ""))
        for i in range(ctx.scale(3, 16)):
            ops, extra = gen_community_ops(rng, rng.choice([4, 7, 10]))
            api_exps.append(Experiment("manager", [ops], None, f"community-{i}", extra=extra))
            for o in ops:
                ctx.count("community_op:" + o["op"])
        for i in range(ctx.scale(2, 8)):
            ops, sks = gen_randsig_ops(rng, rng.choice([2, 4, 6]))
            api_exps.append(Experiment("manager", [ops], None, f"randsig-{i}", sks=sks))
            ctx.count("randsig:workloads")
        for i in range(ctx.scale(2, 8)):
            ops, pks = gen_thread_ops(rng, ctx.scale(120, 400))
            api_exps.append(Experiment("identity", [ops], None, f"threads-{i}", pks=pks,
                                       extra={"threads": rng.choice([2, 4, 8])}))
            ctx.count("threads:%d" % api_exps[-1].extra["threads"])
        for e in api_exps:
            exhaustive(runner, e, rng=rng, samples=ctx.scale(4, 12))
        ctx.extra["t_generated_s"] = round(ctx.elapsed(), 1)
        # stores larger than the in-memory bounds of the reload path (sizes relative to the bound read from the tree)
        cap = reload_bound()
        ctx.extra["reload_bound"] = cap
        sizes = [max(8, cap // 3), cap + 25, 2 * cap + 60] + ([4 * cap + 30] if thorough else [])
        stores = []
        for si, size in enumerate(sizes):
            for shape in ["chain", ["bushy", "star", "roots", "bushy"][(si + ctx.seed) % 4]]:
                ops, sks = gen_store_ops(rng, size, shape)
                ctx.count(f"store_shape:{shape}")
                ctx.count("store_credentials:%d" % size)
                phases = split_phases(rng, ops, 3) if rng.random() < 0.5 else [ops]
                stores.append((size, Experiment("manager", phases, None, f"store-{shape}-{size}", sks=sks)))
        probes = runner.run_all([with_kill(e, {"mode": "none"}) for _, e in stores])
        kills = []
        for (size, e), pr in zip(stores, probes):
            total = pr["trace"].points
            for _ in range(ctx.scale(4, 20)):
                kills.append(with_kill(e, {"mode": "point", "at": rng.randrange(1, total + 1)}))
            for _ in range(ctx.scale(1, 4)):
                kills.append(with_kill(e, {"mode": "timed", "delay": round(rng.random() * 0.0015 * size, 5)}))
        runner.run_all(kills)
        ctx.extra["t_stores_s"] = round(ctx.elapsed(), 1)
        ctx.extra["crash_runs"] = runner.n
        for e_ in scr:
            for ph_ in e_.ops_phases:
                for o_ in ph_:
                    if "_class" in o_:
                        ctx.count(o_["_class"])
                    if e_.extra.get("community"):
                        ctx.count("community_op:" + o_["op"])
    finally:
        runner.close()
    coverage_gate(ctx)


# every branch class of the hand-written model definitions and every workload / kill / file-state class the design lists
# must have been reached in a run that is about to be reported green; a silent loss of coverage is an infrastructure
# error (exit 2), not a pass.  Prefix -> what it stands for.
REQUIRED_CLASSES = {
    # insertRow / stepPrim / doCommit / enter / exit / exitExc / kill, as executed by the model on observed workloads
    "model_step:X": "insertRow: record appended", "model_step:Xi": "insertRow: OR IGNORE on an existing key",
    "model_step:X!": "insertRow: plain INSERT on an existing key raises", "model_step:C": "doCommit: idle path",
    "model_step:D": "doCommit: deferred path", "model_step:R": "ret", "model_step:en": "enter",
    "model_step:ex": "exit without pending commits", "model_step:exC": "exit that commits", "model_step:xx": "exitExc",
    "model_step:kk": "kill + recover between process lifetimes", "model_step:cut-call": "call cut short by a kill",
    # the same branches on the implementation side
    "label:X": "", "label:Xi": "", "label:X!": "", "label:C": "", "label:R": "", "label:en": "", "label:ex": "",
    "label:xx": "", "block_depth:2": "nested batches", "block_depth:3": "nested batches",
    # kills
    "kill:point": "", "kill:fsize": "", "kill:timed": "", "kill:none": "", "killed@open": "", "killed@workload": "",
    "killed@after-workload": "", "earlier_processes_killed:": "kill/restart cycles", "processes:2": "",
    # openStmts / schemaStep / runTx: the file states open() branches on
    "open_state:opt0_ver0_v0_col1": "no file / no tables yet", "open_state:opt1_ver0_v0_col1": "option table, no version row",
    "open_state:opt1_ver1_v1_col1": "identity file", "open_state:opt1_ver1_v2_col1": "wallet file, latest version",
    "open_state:opt1_ver1_v1_col0": "wallet version-1 file (upgrade branch)",
    "open_state:opt1_ver0_v0_col0": "version-1 table, version row missing (detection branch)",
    "open_state:opt0_ver0_v0_col0": "version-1 table, no option table (detection branch)",
    # reload / Causal
    "reload_compared:101-250": "store above the waiting-buffer bound", "causal:true": "",
    "causal_excluded:": "known classes excluded from Causal",
    # workload classes
    "kind:identity": "", "kind:wallet": "", "kind:manager": "", "foreign_how:add_credential": "",
    "foreign_how:substantiate": "", "foreign_how:substantiate-no-tokens": "", "foreign_how:add_metadata": "",
    "foreign_how:add_attestation": "", "object_readback:tok": "", "object_readback:md": "", "object_readback:att": "",
    "object_readback:watt": "", "call_raised:IntegrityError": "", "store_shape:chain": "", "threads:": "threaded workloads",
    "randsig:": "randomised-signature keys", "model:compared": "", "open_compared": "",
    "community_op:own": "IdentityCommunity.self_advertise", "community_op:disclose": "IdentityCommunity.on_disclosure",
    "community_op:attest_me": "IdentityCommunity.on_attest",
    "community_op:unload2": "a second pseudonym on the shared IdentityManager is unloaded",
    "community_op:attested": "AttestationCommunity.on_attestation_complete wired to the identity overlay",
}


def coverage_gate(ctx):
    from vlib import InfraError
    if ctx.broken or ctx.disagreements or new_failures(ctx):
        return                       # the run is red anyway; under a mutation classes may legitimately vanish
    need = dict(REQUIRED_CLASSES)
    if not ctx.model_ok:
        need = {k: v for k, v in need.items() if not k.startswith(("model_step:", "model:", "open_compared", "causal",
                                                                   "reload_compared"))}
    missing = [k for k in need if not any(c.startswith(k) and n > 0 for c, n in ctx.counts.items())]
    ctx.extra["coverage_gate"] = {"required": len(need), "missing": missing}
    if missing:
        raise InfraError("C19 coverage gate: no run reached " + ", ".join(missing))


def new_failures(ctx):
    """oracle failures that are not known findings"""
    import vlib
    known = {k.get("signature") for k in vlib.load_known_findings()
             if k.get("property") == PROPERTY and k.get("status") == "known"}
    return [f for f in ctx.failures if f["signature"] not in known]


def search(ctx, reason):
    """wider implementation-only search: more generated workloads, every event index, more mid-write kills"""
    rng = ctx.rng
    runner = Runner(ctx, use_model=False)
    try:
        # the scripted workloads were already killed at every event index by run(); here: un-killed probe plus
        # mid-write kills only (what run() samples thinly), then new generated workloads at every event index
        for exp in scripted(rng):
            probe = runner.run_all([with_kill(exp, {"mode": "none"})])[0]
            fsize_runs(runner, exp, probe, rng, 24)
            if new_failures(ctx):
                return
        for i in range(8):
            kind = rng.choice(["identity", "wallet", "manager"])
            if kind == "identity":
                ops, pks = gen_identity_ops(rng, 12, big=True)
                kw = {"pks": pks}
            elif kind == "wallet":
                ops, hs = gen_wallet_ops(rng, 10, big=True)
                kw = {"hashes": hs}
            else:
                ops, sks = gen_manager_ops(rng, 8)
                kw = {"sks": sks}
            exp = Experiment(kind, [ops], None, f"search-{kind}-{i}", **kw)
            probe = exhaustive(runner, exp)
            fsize_runs(runner, exp, probe, rng, 40)
            timed_runs(runner, exp, rng, 10, 0.01)
            if new_failures(ctx):
                return
    finally:
        runner.close()


def replay(ctx, rec):
    r = rec.get("replay", rec)
    exp = Experiment.from_replay(r["experiment"])
    runner = Runner(ctx, use_model=False)
    try:
        res = runner.run_all([exp])[0]
        tr, dump = res["trace"], res["dump"]
        print(f"replay: {exp.label} kill={exp.kill}: child rc={res['rc']} events={tr.points} last={tr.last_point!r} "
              f"calls started={len(tr.order)} acked={sum(1 for c in tr.calls.values() if c['status'] == 'acked')} "
              f"reopen={dump.get('open')} rows={ {k: len(v['rows']) for k, v in (dump.get('tables') or {}).items()} }; "
              f"property {'FAILS' if ctx.failures else 'holds'}")
        if dump.get("trace") and ctx.failures:
            print(dump["trace"])
    finally:
        runner.close()


if __name__ == "__main__":
    if len(sys.argv) > 1 and sys.argv[1] == "zygote":
        zygote_main()
